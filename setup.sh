#!/bin/bash
# Offline build of every harness variant (run once after a fresh restore).
set -eu
ROOT="$(cd "$(dirname "${BASH_SOURCE[0]}")" && pwd)"
export CARGO_NET_OFFLINE=true
cd "$ROOT/harness"
cp -f /repo/Cargo.lock Cargo.lock.repo 2>/dev/null || true
cargo build --offline --target-dir target-dev
cargo build --offline --target-dir target-alt --features alt
cargo build --offline --target-dir target-dbg --profile dbg
cargo build --offline --target-dir target-rel --release
cd "$ROOT/harness-min"
n=0
for feats in "macros" "multi_template" "" "macros,multi_template"; do
    cargo build --offline --target-dir "target-$n" ${feats:+--features "$feats"}
    n=$((n+1))
done
echo "setup ok"
