//! Reproductions for property C10 (text verbatim / whitespace control exact under
//! any delimiter configuration).
//!
//! Run with:
//!   cp HUNT/repro.rs minijinja/examples/hunt7_repro.rs
//!   cargo run --offline -p minijinja --example hunt7_repro --features custom_syntax
use minijinja::syntax::SyntaxConfig;
use minijinja::{context, Environment};

#[derive(Clone, Default)]
struct Cfg {
    trim: bool,
    lstrip: bool,
    keep: bool,
    block: Option<(&'static str, &'static str)>,
    var: Option<(&'static str, &'static str)>,
    comment: Option<(&'static str, &'static str)>,
    ls: Option<&'static str>,
    lc: Option<&'static str>,
}

fn render(cfg: &Cfg, t: &str) -> String {
    let t = t.to_string();
    let cfg = cfg.clone();
    let r = std::panic::catch_unwind(move || {
        let mut env = Environment::new();
        env.set_trim_blocks(cfg.trim);
        env.set_lstrip_blocks(cfg.lstrip);
        env.set_keep_trailing_newline(cfg.keep);
        let mut b = SyntaxConfig::builder();
        if let Some((s, e)) = cfg.block {
            b.block_delimiters(s, e);
        }
        if let Some((s, e)) = cfg.var {
            b.variable_delimiters(s, e);
        }
        if let Some((s, e)) = cfg.comment {
            b.comment_delimiters(s, e);
        }
        if let Some(s) = cfg.ls {
            b.line_statement_prefix(s);
        }
        if let Some(s) = cfg.lc {
            b.line_comment_prefix(s);
        }
        match b.build() {
            Ok(s) => env.set_syntax(s),
            Err(e) => return format!("BUILD ERROR: {e}"),
        }
        match env.render_str(&t, context! { x => "X", t => true }) {
            Ok(s) => format!("OK    {:?}", s),
            Err(e) => format!("ERROR {}", e),
        }
    });
    r.unwrap_or_else(|_| "PANIC".to_string())
}

fn case(label: &str, cfg: &Cfg, t: &str, expected: &str) {
    let got = render(cfg, t);
    let want = format!("OK    {:?}", expected);
    let verdict = if got == want { "as expected" } else { "VIOLATION" };
    println!("  [{verdict}] {label}\n      template {:?}\n      got      {}\n      expected {}", t, got, want);
}

fn main() {
    std::panic::set_hook(Box::new(|_| {}));

    println!("V1: line statements / line comments leave the LF of a CRLF line ending behind (skip_nl)");
    let ls = Cfg { ls: Some("#"), lc: Some("##"), ..Default::default() };
    case("LF control", &ls, "a\n# if t\nb\n# endif\nc\n", "a\nb\nc");
    case("CRLF line statements", &ls, "a\r\n# if t\r\nb\r\n# endif\r\nc\r\n", "a\r\nb\r\nc");
    case("LF line comment control", &ls, "a\n## note\nb", "a\nb");
    case("CRLF line comment", &ls, "a\r\n## note\r\nb", "a\r\nb");
    let tl = Cfg { trim: true, lstrip: true, ..Default::default() };
    case("same thing spelled as tags (trim+lstrip)", &tl, "a\r\n{% if t %}\r\nb\r\n{% endif %}\r\nc\r\n", "a\r\nb\r\nc");

    println!("\nV2: '-' / '+' right after a line comment prefix act as whitespace control markers");
    case("control: '## ---'", &ls, "a\n\n## ---- rule\nb", "a\n\nb");
    case("'##----' strips all preceding whitespace", &ls, "a\n\n##---- rule\nb", "a\n\nb");
    case("'text ##- c' strips too", &ls, "a  ##- c\nb", "a  b");
    case("'##+' switches the leading-whitespace removal off", &ls, "a\n  ##+ c\nb", "a\nb");

    println!("\nV3: whitespace in front of a trailing line comment: removed or kept depending on what is in front, and lstrip_blocks=true removes LESS");
    let ls_l = Cfg { lstrip: true, ..ls.clone() };
    case("after text: kept", &ls, "X  ## c\nb", "X  b");
    case("after a variable tag: removed (lstrip_blocks off)", &ls, "{{ x }}  ## c\nb", "X  b");
    case("after a variable tag: kept (lstrip_blocks ON)", &ls_l, "{{ x }}  ## c\nb", "X  b");
    case("after a block tag (lstrip_blocks off)", &ls, "{% if t %}  ## c\nb{% endif %}", "  b");
    case("after a block tag (lstrip_blocks ON)", &ls_l, "{% if t %}  ## c\nb{% endif %}", "  b");

    println!("\nV4: raw block end is missed when block_start can overlap itself and the content ends in its first char");
    let br = Cfg { block: Some(("[[", "]]")), var: Some(("[=", "=]")), comment: Some(("[#", "#]")), ..Default::default() };
    case("control", &br, "[[ raw ]]a[ [[ endraw ]]b", "a[ b");
    case("content 'a['", &br, "[[ raw ]]a[[[ endraw ]]b", "a[b");
    let lt = Cfg { block: Some(("<<", ">>")), var: Some(("<<<", ">>>")), comment: Some(("<#", "#>")), ..Default::default() };
    case("content 'a<' with << >>", &lt, "<< raw >>a<<< endraw >>b", "a<b");
    case("default delimiters equivalent", &Cfg::default(), "{% raw %}a{{% endraw %}b", "a{b");

    println!("\nV5: end delimiters that begin with '-' or '+'");
    let html = Cfg { block: Some(("<!--", "-->")), var: Some(("${", "}")), comment: Some(("<#", "#>")), ..Default::default() };
    case("control: if works", &html, "<!-- if t -->a<!-- endif -->", "a");
    case("raw is not recognised", &html, "<!-- raw -->${ x }<!-- endraw -->", "${ x }");
    let hs = Cfg { block: Some(("{-", "-}")), ..Default::default() };
    case("raw with {- -}", &hs, "{- raw -}{{ x }}{- endraw -}", "{{ x }}");
    let plus = Cfg { block: Some(("[+", "+]")), ..Default::default() };
    case("raw with [+ +]", &plus, "[+ raw +]{{ x }}[+ endraw +]", "{{ x }}");
    let hc = Cfg { comment: Some(("<!--", "-->")), ..Default::default() };
    case("control: default empty comment", &Cfg::default(), "a{##}b", "ab");
    case("empty comment re-spelled with <!-- -->", &hc, "a<!---->b", "ab");
    case("control: '+' comment keeps following whitespace", &Cfg::default(), "a{#+#}\n  b", "a\n  b");
    case("'<!--+-->' strips following whitespace", &hc, "a<!--+-->\n  b", "a\n  b");

    println!("\nV6: start marker search is not leftmost-longest");
    let n3 = Cfg { block: Some(("<<", ">>")), var: Some(("<<<", ">>>")), comment: Some(("<#", "#>")), ..Default::default() };
    let n4 = Cfg { block: Some(("<<", ">>")), var: Some(("<<<<", ">>>>")), comment: Some(("<#", "#>")), ..Default::default() };
    case("control '<<' / '<<<'", &n3, "a<<< x >>>b", "aXb");
    case("'<<' / '<<<<'", &n4, "a<<<< x >>>>b", "aXb");
    let c4 = Cfg { comment: Some(("{{{{", "}}}}")), ..Default::default() };
    case("'{{' / '{{{{' comment", &c4, "a{{{{ note }}}}b", "ab");
    let three = Cfg { comment: Some(("<{{%!", "!>")), ..Default::default() };
    case("three patterns: '{{', '{%', '<{{%!'", &three, "a<{{%! hidden !>b", "ab");

    println!("\nV7: end delimiters beginning with whitespace are accepted by build() but can never match");
    let wsend = Cfg { block: Some(("{%", " %}")), ..Default::default() };
    case("block_end ' %}'", &wsend, "{% if t %}a{% endif %}", "a");
    let wsvar = Cfg { var: Some(("{{", " }}")), ..Default::default() };
    case("variable_end ' }}'", &wsvar, "{{ x }}", "X");
}
