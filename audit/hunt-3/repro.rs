//! Reproductions for the C03 hunt (core language constructs).
//!
//! Run from the repository root with
//!
//!   cp HUNT/repro.rs minijinja/examples/hunt_repro.rs
//!   CARGO_NET_OFFLINE=true CARGO_TARGET_DIR=/tmp/hunt-3/target \
//!       cargo run -p minijinja --example hunt_repro --offline
//!
//! Only default features are needed.  Every case prints the template, what the
//! documented Jinja semantics give ("expected") and what MiniJinja does
//! ("actual").  Panics are caught so that all cases run.
use minijinja::{context, Environment, Value};
use std::panic::{catch_unwind, AssertUnwindSafe};

fn ctx() -> Value {
    let leaf = |n: &str, hide: bool| context! { n => n, c => Vec::<Value>::new(), hide => hide };
    context! {
        items => vec![1, 2, 3, 4],
        v => "ctxv",
        tree => vec![
            context!{ n => "a", hide => false, c => vec![
                leaf("a1", false),
                context!{ n => "a2", hide => true, c => vec![leaf("a2x", false)] },
            ]},
            leaf("b", false),
        ],
    }
}

fn run(id: &str, what: &str, tpl: &str, expected: &str) {
    let rv = catch_unwind(AssertUnwindSafe(|| {
        let env = Environment::new();
        match env.render_str(tpl, ctx()) {
            Ok(s) => format!("OK  {s:?}"),
            Err(e) => format!("ERR {e}"),
        }
    }));
    let actual = match rv {
        Ok(s) => s,
        Err(p) => format!(
            "PANIC {}",
            p.downcast_ref::<String>()
                .cloned()
                .or_else(|| p.downcast_ref::<&str>().map(|s| s.to_string()))
                .unwrap_or_default()
        ),
    };
    let verdict = if actual == format!("OK  {expected:?}") { "same" } else { "DIFFERS" };
    println!("[{id}] {what}\n    template: {tpl}\n    expected: {expected:?}\n    actual:   {actual}\n    => {verdict}\n");
}

fn main() {
    // ---- V1: recursive loop with an else block --------------------------
    run(
        "V1a",
        "else of a recursive loop never runs for a recursive invocation over an empty sequence",
        r#"{% for x in tree recursive %}{{ x.n }}[{{ loop(x.c) }}]{% else %}E{% endfor %}"#,
        "a[a1[E]a2[a2x[E]]]b[E]",
    );
    run(
        "V1b",
        "recursive loop with else: loop(...) used inside an expression yields the did-not-iterate flag instead of / in front of the rendered children",
        r#"{% for x in tree recursive %}{{ x.n ~ "<" ~ loop(x.c) ~ ">" }}{% else %}E{% endfor %}"#,
        "a<a1<E>a2<a2x<E>>>b<E>",
    );
    run(
        "V1b-control",
        "same template without else is fine",
        r#"{% for x in tree recursive %}{{ x.n ~ "<" ~ loop(x.c) ~ ">" }}{% endfor %}"#,
        "a<a1<>a2<a2x<>>>b<>",
    );
    run(
        "V1c",
        "recursive loop with else: as macro argument",
        r#"{% macro show(a, b) %}[{{ a }}|{{ b }}]{% endmacro %}{% for x in tree recursive %}{{ show(x.n, loop(x.c)) }}{% else %}E{% endfor %}"#,
        "[a|[a1|E][a2|[a2x|E]]][b|E]",
    );
    run(
        "V1d",
        "recursive loop with else: leaked flag corrupts the item counter of an inner filtered loop -> panic (vm/mod.rs BuildList unwrap)",
        r#"{% for x in tree recursive %}{{ x.n }}:{% for y in [-5] if loop(x.c) or true %}{{ y }}{% endfor %};{% else %}E{% endfor %}"#,
        "a:-5;b:-5;",
    );

    // ---- V2: loop filter is not applied when recursing ---------------------
    run(
        "V2",
        "the loop filter is skipped for recursive invocations (a2 has hide=true)",
        r#"{% for x in tree if not x.hide recursive %}{{ x.n }}({{ loop(x.c) }}){% endfor %}"#,
        "a(a1())b()",
    );

    // ---- V3: stale macro closure across loop iterations -------------------
    run(
        "V3a",
        "macro declared in a loop body sees a variable of the previous iteration (direct read right next to it does not)",
        r#"{% for i in [1,2] %}{% if i == 1 %}{% set w = "one" %}{% endif %}{% macro m() %}<{{ w }}>{% endmacro %}{{ m() }}|{{ w }};{% endfor %}"#,
        "<one>|one;<>|;",
    );
    run(
        "V3b",
        "stale closure value shadows the render context (v is 'ctxv' in the context)",
        r#"{% for i in [1,2] %}{% if i == 1 %}{% set v = "loc" %}{% endif %}{% macro m() %}<{{ v }}>{% endmacro %}{{ m() }}|{{ v }};{% endfor %}"#,
        "<loc>|loc;<ctxv>|ctxv;",
    );
    run(
        "V3c",
        "same with a call block",
        r#"{% macro wrap() %}[{{ caller() }}]{% endmacro %}{% for i in [1,2] %}{% if i == 1 %}{% set w = "A" %}{% endif %}{% call wrap() %}{{ w }}{% endcall %}|{{ w }};{% endfor %}"#,
        "[A]|A;[]|;",
    );
    run(
        "V3d",
        "assignment after the macro call leaks into the next iteration",
        r#"{% for i in [1,2,3] %}{% macro m() %}<{{ w }}>{% endmacro %}{{ m() }}|{{ w }};{% set w = i %}{% endfor %}"#,
        "<>|;<>|;<>|;",
    );

    // ---- V4: defaults referring to earlier parameters ----------------------
    run(
        "V4a",
        "macro default referring to an earlier parameter is undefined",
        r#"{% macro m(a, b=a) %}[{{ a }}|{{ b }}]{% endmacro %}{{ m(1) }}{{ m(1, 2) }}"#,
        "[1|1][1|2]",
    );
    run(
        "V4b",
        "same for call block parameters",
        r#"{% macro m() %}{{ caller(1) }}{{ caller(1, 2) }}{% endmacro %}{% call(a, b=a) m() %}[{{ a }}|{{ b }}]{% endcall %}"#,
        "[1|1][1|2]",
    );

    // ---- V5: loops over strings -------------------------------------------
    run(
        "V5",
        "looping over a string: length/revindex undefined, last never true",
        r#"{% for c in "abc" %}{{ c }}:{{ loop.index }}/{{ loop.length }}:{{ loop.revindex }}:{{ loop.last }} {% endfor %}"#,
        "a:1/3:3:False b:2/3:2:False c:3/3:1:True ",
    );

    // ---- V6: loop.depth -----------------------------------------------------
    run(
        "V6a",
        "a plain loop nested in a recursive loop inherits the recursion depth (should be 1)",
        r#"{% for x in tree recursive %}{{ x.n }}:{{ loop.depth }}{% for y in [1] %}/{{ loop.depth }}{% endfor %} {{ loop(x.c) }}{% endfor %}"#,
        "a:1/1 a1:2/1 a2:2/1 a2x:3/1 b:1/1 ",
    );
    run(
        "V6b",
        "recursing through an alias of the outer loop from inside a nested loop resets the depth",
        r#"{% for x in tree recursive %}{{ x.n }}:{{ loop.depth }} {% set outer = loop %}{% for y in x.c %}{{ outer([y]) }}{% endfor %}{% endfor %}"#,
        "a:1 a1:2 a2:2 a2x:3 b:1 ",
    );

    // ---- V7: recursion from a call block / macro inside the loop ----------
    run(
        "V7a",
        "loop(...) emitted from a call block inside the recursive loop",
        r#"{% macro wrap() %}<{{ caller() }}>{% endmacro %}{% for x in tree recursive %}{{ x.n }}{% call wrap() %}{{ loop(x.c) }}{% endcall %}{% endfor %}"#,
        "a<a1<>a2<a2x<>>>b<>",
    );
    run(
        "V7b",
        "same, loop(...) used in an expression: the loop body runs inside the macro's context",
        r#"{% macro wrap() %}<{{ caller() }}>{% endmacro %}{% for x in tree recursive %}{{ x.n }}{% call wrap() %}{{ "" ~ loop(x.c) }}{% endcall %}{% endfor %}"#,
        "a<a1<>a2<a2x<>>>b<>",
    );

    // ---- V8: recursion sees the scope of the call site ---------------------
    run(
        "V8a",
        "a with-variable of the recursion call site is visible outside the with block in the recursive invocation",
        r#"{% for x in tree recursive %}[{{ w }}]{% with w = x.n %}{{ loop(x.c) }}{% endwith %}{% endfor %}"#,
        "[][][][][]",
    );
    run(
        "V8b",
        "an assignment in the loop body is visible in the recursive invocation before it is made there",
        r#"{% for x in tree recursive %}[{{ p }}]{% set p = x.n %}{{ loop(x.c) }}{% endfor %}"#,
        "[][][][][]",
    );

    // ---- V9: with ------------------------------------------------------------
    run(
        "V9",
        "values of a with statement see the earlier targets of the same statement (Jinja >= 2.9: always the outer scope)",
        r#"{% set a = 10 %}{% with a = a + 1, b = a %}{{ a }},{{ b }}{% endwith %},{{ a }}"#,
        "11,10,10",
    );

    // ---- V10: set blocks and filter blocks do not scope -----------------------
    run(
        "V10a",
        "assignment inside a set block leaks",
        r#"{% set b %}{% set inner = 1 %}{{ inner }}{% endset %}{{ b }}[{{ inner }}]"#,
        "1[]",
    );
    run(
        "V10b",
        "assignment inside a filter block leaks",
        r#"{% filter upper %}{% set inner = "x" %}{{ inner }}{% endfilter %}[{{ inner }}]"#,
        "X[]",
    );

    // ---- V11: loop(...) with non plain arguments in statement position ---------
    run(
        "V11a",
        "{{ loop(*[x.c]) }} fails although {% set q = loop(*[x.c]) %}{{ q }} works",
        r#"{% for x in tree recursive %}{{ x.n }}{{ loop(*[x.c]) }}{% endfor %}"#,
        "aa1a2a2xb",
    );
    run(
        "V11a-control",
        "captured form",
        r#"{% for x in tree recursive %}{{ x.n }}{% set q = loop(*[x.c]) %}{{ q }}{% endfor %}"#,
        "aa1a2a2xb",
    );
    run(
        "V11b",
        "{{ loop(it=x.c) }} iterates over the keyword argument map (-> endless recursion) instead of being rejected",
        r#"{% for x in tree recursive %}{{ x.n }}{{ loop(it=x.c) }}{% endfor %}"#,
        "<an error about the unexpected keyword argument>",
    );

    // ---- V12: loop object after the loop ---------------------------------------
    run(
        "V12",
        "a loop object kept in a namespace reports index = length + 1 after the loop",
        r#"{% set ns = namespace() %}{% for x in items %}{% set ns.l = loop %}{% endfor %}{{ ns.l.index }}/{{ ns.l.length }}:{{ ns.l.last }}"#,
        "4/4:True",
    );

    // ---- V13: explicit undefined argument --------------------------------------
    run(
        "V13",
        "an explicitly passed undefined value is replaced by the default",
        r#"{% macro m(a=5) %}[{{ a }}]{% endmacro %}{{ m(nope) }}"#,
        "[]",
    );

    // ---- V14: eager loop filter -------------------------------------------------
    run(
        "V14",
        "the loop filter is evaluated for all items before the body runs for the first one",
        r#"{% set ns = namespace(skip=0) %}{% for x in items if x != ns.skip %}{{ x }}{% set ns.skip = x + 1 %}{% endfor %}"#,
        "13",
    );

    // ---- V15: small syntax divergences ------------------------------------------
    run(
        "V15a",
        "`+` after a test is taken as the start of a test argument",
        r#"{{ 3 is odd + 1 }}"#,
        "2",
    );
    run(
        "V15b",
        "strings can be iterated but not unpacked",
        r#"{% for a, b in ["xy", "zw"] %}{{ a }}-{{ b }};{% endfor %}"#,
        "x-y;z-w;",
    );
}
