//! Reproductions for the C14 hunt (error locations / error formatting).
//!
//! Run from the repository root with:
//!
//!   cp HUNT/repro.rs minijinja/examples/hunt_repro.rs
//!   CARGO_NET_OFFLINE=true CARGO_TARGET_DIR=/tmp/hunt-5/target cargo run --offline \
//!       -p minijinja --example hunt_repro --features debug,macros,multi_template
//!
//! Every case prints what the unmodified library does.  Panics are caught with
//! `catch_unwind`; the one case that ends in a stack overflow (which cannot be
//! caught) is run in a child process (`hunt_repro cyclic-child`).
use std::fmt::Write as _;
use std::panic::{catch_unwind, AssertUnwindSafe};
use std::time::{Duration, Instant};

use minijinja::{context, Environment, Error};

fn show(label: &str, err: &Error) {
    println!("  {label}");
    let mut e: Option<&Error> = Some(err);
    while let Some(err) = e {
        let slice = match (err.range(), err.template_source()) {
            (Some(r), Some(src)) => match src.get(r.clone()) {
                Some(s) => format!("{s:?}"),
                None => format!("INVALID RANGE {r:?}"),
            },
            _ => "-".into(),
        };
        println!(
            "    kind={:?} detail={:?} name={:?} line={:?} range={:?} slice={} display={:?}",
            err.kind(),
            err.detail(),
            err.name(),
            err.line(),
            err.range(),
            slice,
            err.to_string(),
        );
        e = std::error::Error::source(err).and_then(|x| x.downcast_ref::<Error>());
    }
}

fn render_err(env: &Environment, name: &str, src: &str) -> Option<Error> {
    match env.template_from_named_str(name, src) {
        Err(e) => Some(e),
        Ok(t) => t.render(context! {}).err(),
    }
}

/// A `fmt::Write` with limited capacity (like a fixed size buffer).
struct Limited(usize);

impl std::fmt::Write for Limited {
    fn write_str(&mut self, s: &str) -> std::fmt::Result {
        if s.len() > self.0 {
            self.0 = 0;
            Err(std::fmt::Error)
        } else {
            self.0 -= s.len();
            Ok(())
        }
    }
}

fn case1_failing_writer() {
    println!("== 1. formatting an error with debug info into a failing fmt::Write panics");
    let mut env = Environment::new();
    env.set_debug(true);
    let err = render_err(&env, "t.html", "a\nb\n{{ 1 + none }}\nc\nd").unwrap();
    for cap in [10usize, 100, 170, 200, 300, 400, 100000] {
        for what in ["{:#}", "{:?}", "display_debug_info()"] {
            let r = catch_unwind(AssertUnwindSafe(|| {
                let mut w = Limited(cap);
                match what {
                    "{:#}" => write!(w, "{err:#}"),
                    "{:?}" => write!(w, "{err:?}"),
                    _ => write!(w, "{}", err.display_debug_info()),
                }
            }));
            match r {
                Ok(r) => println!("  capacity={cap:<6} {what:<22} returned {r:?}"),
                Err(_) => println!("  capacity={cap:<6} {what:<22} PANICKED"),
            }
        }
    }
}

fn cyclic_child() {
    // small stack so that the unbounded recursion ends quickly
    let t = std::thread::Builder::new()
        .stack_size(256 * 1024)
        .spawn(|| {
            let mut env = Environment::new();
            env.set_debug(true);
            let err = render_err(
                &env,
                "t.html",
                "{% set ns = namespace() %}{% set ns.me = ns %}\n{{ ns + 1 }}",
            )
            .unwrap();
            eprintln!("child: plain display works: {err}");
            eprintln!("child: now formatting with {{:#}} ...");
            let s = format!("{err:#}");
            eprintln!("child: formatted {} bytes", s.len());
        })
        .unwrap();
    t.join().ok();
}

fn case2_cyclic_referenced_value() {
    println!("== 2. formatting an error whose referenced variables contain a cyclic namespace never returns (stack overflow)");
    let exe = std::env::current_exe().unwrap();
    let mut child = std::process::Command::new(exe)
        .arg("cyclic-child")
        .spawn()
        .unwrap();
    let start = Instant::now();
    loop {
        match child.try_wait().unwrap() {
            Some(status) => {
                println!("  child exited after {:?} with {status:?}", start.elapsed());
                break;
            }
            None if start.elapsed() > Duration::from_secs(120) => {
                println!("  child still formatting after 120s (hang); killing it");
                child.kill().ok();
                break;
            }
            None => std::thread::sleep(Duration::from_millis(100)),
        }
    }
}

fn case3_line_zero() {
    println!("== 3. located error without a line (\"in name:0\") for a template starting with {{% import %}}");
    let mut env = Environment::new();
    env.set_debug(true);
    env.add_template("self_imp.html", "{% import 'self_imp.html' as m %}x")
        .unwrap();
    for limit in [11usize, 12, 13] {
        env.set_recursion_limit(limit);
        let err = env
            .get_template("self_imp.html")
            .unwrap()
            .render(context! {})
            .unwrap_err();
        show(&format!("recursion_limit={limit}"), &err);
    }
}

fn case4_empty_expression() {
    println!("== 4. compile_expression on empty/blank input: name but no line (\"in <expression>:0\")");
    let env = Environment::new();
    for src in ["", "   ", "\n\n"] {
        if let Err(err) = env.compile_expression(src) {
            show(&format!("compile_expression({src:?})"), &err);
        }
    }
}

fn case5_bad_escape() {
    println!("== 5. bad string escape is located at the token *before* the string");
    let mut env = Environment::new();
    env.set_debug(true);
    for src in [
        "{{ \"bad \\x escape\" }}",
        "{{ foo(\n\n\n   \"bad \\x escape\") }}",
        "{{ foo(\n\n\n\n\n\n   \"bad \\x escape\") }}",
    ] {
        let err = render_err(&env, "t.html", src).unwrap();
        show(&format!("{src:?}"), &err);
    }
}

fn case6_call_block_line() {
    println!("== 6. errors of the call in {{% call %}} (and of a required block) are reported on the line of the last body statement");
    let mut env = Environment::new();
    env.set_debug(true);
    for src in [
        "{% call unknown_fn() %}\n  a\n  {{ 1 }}\n  b\n{% endcall %}",
        // the failing construct did not move, three lines were added *below* it
        "{% call unknown_fn() %}\n  a\n\n\n\n  {{ 1 }}\n  b\n{% endcall %}",
        "{% macro m() %}{% endmacro %}\n{% call m(1) %}\nb\n{{ 1 }}\nc{% endcall %}",
        "a\n{% call 42() %}\nb\n{{ 1 }}\nc{% endcall %}",
        "a\n{% block body required %}\n\n{# c #}\n\n{# d #}\n{% endblock %}",
    ] {
        let err = render_err(&env, "t.html", src).unwrap();
        show(&format!("{src:?}"), &err);
    }
}

fn case7_leaked_span() {
    println!("== 7. {{% set ns.attr = ... %}} leaks its span: later errors on the same line report the range of `attr`");
    let mut env = Environment::new();
    env.set_debug(true);
    for src in [
        "{% set ns = namespace() %}{% set ns.x = 1 %}{% autoescape 'bogus' %}{% endautoescape %}",
        "{% set ns = namespace() %}{% set    x = 1 %}{% autoescape 'bogus' %}{% endautoescape %}",
        "{% set ns = namespace() %}{% set ns.x = 1 %}{{ self.nope() }}",
        "{% set ns = namespace() %}{% set    x = 1 %}{{ self.nope() }}",
    ] {
        let err = render_err(&env, "t.html", src).unwrap();
        show(&format!("{src:?}"), &err);
    }
}

fn case8_imprecise_ranges() {
    println!("== 8. ranges that are valid slices but do not cover the failing expression");
    let mut env = Environment::new();
    env.set_debug(true);
    for src in [
        "abc {{ 1 in 42 }}",
        "abc {% if 1 in 42 %}{% endif %}",
        "abc {{ range(1 in 42) }}",
        "{% for x in 42 if x %}{% endfor %}",
    ] {
        let err = render_err(&env, "t.html", src).unwrap();
        show(&format!("{src:?}"), &err);
    }
}

fn main() {
    if std::env::args().nth(1).as_deref() == Some("cyclic-child") {
        cyclic_child();
        return;
    }
    // keep the panic messages short
    std::panic::set_hook(Box::new(|info| {
        let mut s = String::new();
        let _ = write!(s, "{info}");
        eprintln!("  [panic] {}", s.replace('\n', " "));
    }));
    case1_failing_writer();
    case3_line_zero();
    case4_empty_expression();
    case5_bad_escape();
    case6_call_block_line();
    case7_leaked_span();
    case8_imprecise_ranges();
    case2_cyclic_referenced_value();
}
