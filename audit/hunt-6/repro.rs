// Reproductions for property C18 (undeclared_variables soundness).
// Run:  cp HUNT/repro.rs minijinja/examples/hunt_c18.rs && cd minijinja &&
//   cargo run --offline --example hunt_c18 --features custom_syntax,loop_controls
// and for the `super()` case additionally:
//   cargo run --offline --example hunt_c18 --no-default-features --features builtins,macros,debug,std_collections
// Cases labelled VIOLATION asked the context for a key that neither
// undeclared_variables(false) nor (true) reports and that is no global.
use std::collections::{BTreeMap, BTreeSet};
use std::sync::{Arc, Mutex};

use minijinja::value::{Object, Value};
use minijinja::Environment;

#[derive(Debug)]
struct Rec {
    keys: Mutex<Vec<String>>,
    values: BTreeMap<String, Value>,
}

impl Object for Rec {
    fn get_value(self: &Arc<Self>, key: &Value) -> Option<Value> {
        let k = key.as_str()?.to_string();
        self.keys.lock().unwrap().push(k.clone());
        self.values.get(&k).cloned()
    }
}

struct Case {
    label: &'static str,
    src: &'static str,
    ctx: Vec<(&'static str, Value)>,
    debug: bool,
}

fn run(case: &Case) -> bool {
    let mut env = Environment::new();
    env.set_debug(case.debug);
    if let Err(e) = env.add_template("t", case.src) {
        println!("=== {} SKIPPED (does not compile: {})", case.label, e);
        return false;
    }
    let tmpl = env.get_template("t").unwrap();
    let flat: BTreeSet<String> = tmpl.undeclared_variables(false).into_iter().collect();
    let nested: BTreeSet<String> = tmpl.undeclared_variables(true).into_iter().collect();
    let nested_heads: BTreeSet<String> = nested
        .iter()
        .map(|x| x.split('.').next().unwrap().to_string())
        .collect();
    let globals: BTreeSet<String> = env.globals().map(|x| x.0.to_string()).collect();

    let rec = Arc::new(Rec {
        keys: Mutex::new(Vec::new()),
        values: case
            .ctx
            .iter()
            .map(|(k, v)| (k.to_string(), v.clone()))
            .collect(),
    });
    let result = std::panic::catch_unwind(std::panic::AssertUnwindSafe(|| {
        tmpl.render(Value::from_dyn_object(rec.clone()))
    }));
    let looked: BTreeSet<String> = rec.keys.lock().unwrap().iter().cloned().collect();
    let missing_flat: Vec<&String> = looked
        .iter()
        .filter(|k| !flat.contains(*k) && !globals.contains(*k))
        .collect();
    let missing_nested: Vec<&String> = looked
        .iter()
        .filter(|k| !nested_heads.contains(*k) && !globals.contains(*k))
        .collect();
    let bad = !missing_flat.is_empty() || !missing_nested.is_empty();
    println!("=== {} {}", case.label, if bad { "VIOLATION" } else { "ok" });
    println!("  template:            {:?}", case.src);
    println!("  undeclared(false):   {:?}", flat);
    println!("  undeclared(true):    {:?}", nested);
    println!("  context keys asked:  {:?}", looked);
    println!("  not reported(false): {:?}", missing_flat);
    println!("  not reported(true):  {:?}", missing_nested);
    match result {
        Ok(Ok(s)) => println!("  render: Ok({:?})", s),
        Ok(Err(e)) => println!("  render: Err({})", e),
        Err(_) => println!("  render: PANIC"),
    }
    bad
}

fn ns() -> Value {
    let env = Environment::new();
    env.compile_expression("namespace()").unwrap().eval(()).unwrap()
}

fn main() {
    let v = |x: i64| Value::from(x);
    let cases = vec![
        // --- candidates
        Case { label: "set-tuple-dotted", src: "{% set ns.a, b = 1, 2 %}{{ b }}", ctx: vec![("ns", ns())], debug: false },
        Case { label: "set-tuple-dotted-paren", src: "{% set (b, (c, ns.a)) = (1, (2, 3)) %}{{ b }}", ctx: vec![("ns", ns())], debug: false },
        Case { label: "self-block-before-set", src: "{{ self.b() }}{% set x = 1 %}{% block b %}[{{ x }}]{% endblock %}", ctx: vec![("x", v(7))], debug: false },
        Case { label: "self-block-after-with", src: "{% with x = 1 %}{% block b %}[{{ x }}]{% endblock %}{% endwith %}{{ self.b() }}", ctx: vec![("x", v(7))], debug: false },
        Case { label: "self-block-after-for", src: "{% for x in [1] %}{% block b %}[{{ x }}]{% endblock %}{% endfor %}{{ self.b() }}", ctx: vec![("x", v(7))], debug: false },
        Case { label: "self-block-in-macro", src: "{% set x = 1 %}{% block b %}[{{ x }}]{% endblock %}{% macro m() %}{{ self.b() }}{% endmacro %}{{ m() }}", ctx: vec![("x", v(7))], debug: false },
        Case { label: "self-block-in-dead-if", src: "{% if false %}{% set x = 1 %}{% block b %}[{{ x }}]{% endblock %}{% endif %}{{ self.b() }}", ctx: vec![("x", v(7))], debug: false },
        Case { label: "loop-object-in-macro", src: "{% set y = 1 %}{% macro m(l, v) %}{{ l(v) }}{% endmacro %}{% for x in [[[]]] recursive %}[{{ y }}]{{ m(loop, x) }}{% endfor %}", ctx: vec![("y", v(7))], debug: false },
        Case { label: "loop-object-after-with", src: "{% set ns = namespace() %}{% with y = 1 %}{% for x in [1] recursive %}{% set ns.l = loop %}[{{ y }}]{% endfor %}{% endwith %}{% set l = ns.l %}{{ l([2]) }}", ctx: vec![("y", v(7))], debug: false },
        Case { label: "debug-info-after-with", src: "{% with a = 1 %}{% endwith %}{{ z.q.r }}", ctx: vec![("a", v(7))], debug: true },
        Case { label: "debug-info-after-for", src: "{% for i in [1] %}{% set y = 2 %}{% endfor %}{{ z.q.r }}", ctx: vec![], debug: true },
        Case { label: "debug-info-after-macro", src: "{% macro m(a) %}{% set q = 1 %}{% endmacro %}{{ z.q.r }}", ctx: vec![], debug: true },
        Case { label: "debug-info-nodebug", src: "{% with a = 1 %}{% endwith %}{{ z.q.r }}", ctx: vec![("a", v(7))], debug: false },

        // --- batch 2
        Case { label: "loop-object-in-macro-ok-render", src: "{% set y = 1 %}{% macro m(l, v) %}{{ l(v) }}{% endmacro %}{% for x in [[2]] recursive %}[{{ y }}]{% if x is sequence %}{{ m(loop, x) }}{% endif %}{% endfor %}", ctx: vec![("y", v(7))], debug: false },
        Case { label: "loop-closure-in-macro", src: "{% set y = 1 %}{% for x in [[2]] recursive %}{% macro m(v) %}{{ loop(v)|upper }}{% endmacro %}[{{ y }}]{% if x is sequence %}{{ m(x) }}{% endif %}{% endfor %}", ctx: vec![("y", v(7))], debug: false },
        Case { label: "super-call", src: "{{ super() }}", ctx: vec![("super", Value::from_function(|| "ctx-super"))], debug: false },
        Case { label: "caller-plain-in-macro", src: "{% macro m() %}{{ caller }}{% endmacro %}{{ m() }}", ctx: vec![], debug: false },
        Case { label: "caller-in-callbody", src: "{% macro m() %}{{ caller() }}{% endmacro %}{% call m() %}{{ caller }}{% endcall %}", ctx: vec![], debug: false },
        Case { label: "caller-nested-macro", src: "{% macro o() %}{% macro i() %}{{ caller }}{% endmacro %}{{ i() }}{% endmacro %}{{ o() }}", ctx: vec![], debug: false },
        Case { label: "caller-in-default", src: "{% macro m(a=caller) %}{{ a }}{% endmacro %}{{ m() }}", ctx: vec![], debug: false },
        Case { label: "call-args-caller", src: "{% macro m(a) %}{{ caller() }}{% endmacro %}{% call m(caller) %}x{% endcall %}", ctx: vec![], debug: false },
        Case { label: "varargs-kwargs", src: "{% macro m() %}{{ varargs }}{{ kwargs }}{% endmacro %}{{ m() }}", ctx: vec![], debug: false },
        Case { label: "macro-default-earlier-param", src: "{% macro m(a, b=a) %}{{ b }}{% endmacro %}{{ m(1) }}", ctx: vec![], debug: false },
        Case { label: "for-filter-loop", src: "{% for x in [1] if loop %}{{ x }}{% endfor %}", ctx: vec![("loop", v(1))], debug: false },
        Case { label: "for-else-target", src: "{% for x in [] %}{% else %}{{ x }}{{ loop }}{% endfor %}", ctx: vec![], debug: false },
        Case { label: "nested-filter-outer-loop", src: "{% for x in [1] %}{% for y in [1] if loop.first %}{{ y }}{% endfor %}{% endfor %}", ctx: vec![], debug: false },
        Case { label: "if-branch-shadow", src: "{% if c %}{% set x = 1 %}{% endif %}{{ x }}", ctx: vec![], debug: false },
        Case { label: "loop-shadow", src: "{% for i in [] %}{% set x = 1 %}{% endfor %}{{ x }}", ctx: vec![], debug: false },
        Case { label: "setblock-filter", src: "{% set x | default(x) | replace(a, b) %}{{ x }}{% endset %}{{ x }}", ctx: vec![("a", Value::from("a")), ("b", Value::from("b"))], debug: false },
        Case { label: "with-tuple", src: "{% with (a, b) = (b, 1), c = a %}{{ a }}{{ c }}{% endwith %}{{ a }}", ctx: vec![], debug: false },
        Case { label: "splat-kwargs", src: "{{ dict(*a, **b) }}{{ range(n)[i:j:k] }}{{ m[q].r }}", ctx: vec![("a", Value::from(Vec::<Value>::new())), ("n", v(3))], debug: false },
        Case { label: "ns-attr-assign", src: "{% set ns.x = y %}", ctx: vec![("ns", ns())], debug: false },
        Case { label: "ns-attr-setblock", src: "{% set ns.x %}a{% endset %}", ctx: vec![("ns", ns())], debug: false },
        Case { label: "ns-deep-attr", src: "{% set o.ns.x = 1 %}", ctx: vec![], debug: false },
        Case { label: "compare-chain-ifexpr", src: "{{ a < b < c }}{{ t if u else w }}{{ p is divisibleby q }}{{ r in s }}", ctx: vec![("a", v(1)), ("b", v(0)), ("u", v(0)), ("p", v(4)), ("q", v(2)), ("s", Value::from(vec![1]))], debug: false },
        Case { label: "do-stmt", src: "{% do f(g, h=i) %}", ctx: vec![("f", Value::from_function(|_a: Value, _k: minijinja::value::Kwargs| 1))], debug: false },
        Case { label: "autoescape-filterblock", src: "{% autoescape e %}{% filter replace(f1, f2) %}{{ body }}{% endfilter %}{% endautoescape %}", ctx: vec![("e", Value::from(true)), ("f1", Value::from("a")), ("f2", Value::from("b"))], debug: false },
        Case { label: "KNOWN-already-listed-macro-own-name (not a new finding)", src: "{% macro m() %}{{ m }}{% endmacro %}", ctx: vec![], debug: false },
        Case { label: "block-sees-outer-set", src: "{% set x = 1 %}{% block b %}{{ x }}{% endblock %}", ctx: vec![], debug: false },
        Case { label: "self-plain", src: "{{ self }}{{ self.x }}{{ super }}{{ loop }}{{ caller }}", ctx: vec![], debug: false },
        Case { label: "self-attr-chain-call", src: "{{ self.a.b() }}", ctx: vec![], debug: false },
        Case { label: "loop-call-filter-outside", src: "{{ loop(x)|upper }}", ctx: vec![], debug: false },
    ];
    let mut bad = 0;
    for case in &cases {
        if run(case) {
            bad += 1;
        }
    }
    println!("{} of {} cases show a violation", bad, cases.len());
    api_cases();
}

#[derive(Debug)]
struct EnumRec {
    keys: Mutex<Vec<String>>,
}

impl Object for EnumRec {
    fn get_value(self: &Arc<Self>, key: &Value) -> Option<Value> {
        let k = key.as_str()?.to_string();
        self.keys.lock().unwrap().push(k.clone());
        match k.as_str() {
            "alpha" | "beta" => Some(Value::from(1)),
            _ => None,
        }
    }
    fn enumerate(self: &Arc<Self>) -> minijinja::value::Enumerator {
        minijinja::value::Enumerator::Str(&["alpha", "beta"])
    }
}

fn api_cases() {
    // render_block after a captured render
    #[cfg(feature = "multi_template")]
    {
        let mut env = Environment::new();
        env.add_template("t", "{% for x in [1] %}{% block b %}[{{ x }}]{% endblock %}{% endfor %}").unwrap();
        let tmpl = env.get_template("t").unwrap();
        let rec = Arc::new(Rec { keys: Mutex::new(Vec::new()), values: BTreeMap::new() });
        let mut captured = tmpl.render_captured(Value::from_dyn_object(rec.clone())).unwrap();
        let before = rec.keys.lock().unwrap().clone();
        let rv = captured.with_state_mut(|state| state.render_block("b"));
        println!("=== api render_block: undeclared={:?} keys-before={:?} keys-after={:?} rv={:?}",
            tmpl.undeclared_variables(false), before, rec.keys.lock().unwrap(), rv);
    }
    #[cfg(feature = "custom_syntax")]
    {
        use minijinja::syntax::SyntaxConfig;
        let mut env = Environment::new();
        env.set_trim_blocks(true);
        env.set_lstrip_blocks(true);
        env.set_syntax(
            SyntaxConfig::builder()
                .block_delimiters("<%", "%>")
                .variable_delimiters("<<", ">>")
                .comment_delimiters("<#", "#>")
                .line_statement_prefix("#")
                .line_comment_prefix("##")
                .build()
                .unwrap(),
        );
        env.add_template("t", "  <% for x in y %>\n<< z >> {{ notavar }}\n  <% endfor %>\n# for q in r\n  << s >> ## t\n# endfor\n").unwrap();
        let tmpl = env.get_template("t").unwrap();
        let rec = Arc::new(Rec { keys: Mutex::new(Vec::new()), values: [("y".to_string(), Value::from(vec![1])), ("r".to_string(), Value::from(vec![1]))].into_iter().collect() });
        let rv = tmpl.render(Value::from_dyn_object(rec.clone()));
        println!("=== api custom syntax: undeclared={:?} keys={:?} rv={:?}",
            tmpl.undeclared_variables(false), rec.keys.lock().unwrap(), rv);
    }
    {
        let env = Environment::new();
        let expr = env.compile_expression("a.b[c] if d is defined and e|default(f) else g(h, *i, **j)").unwrap();
        let rec = Arc::new(Rec { keys: Mutex::new(Vec::new()), values: BTreeMap::new() });
        let rv = expr.eval(Value::from_dyn_object(rec.clone()));
        println!("=== api expression: undeclared={:?} nested={:?} keys={:?} rv={:?}",
            expr.undeclared_variables(false), expr.undeclared_variables(true), rec.keys.lock().unwrap(), rv.is_ok());
    }
    // debug() with an enumerable context
    {
        let mut env = Environment::new();
        env.add_template("t", "{{ debug() }}").unwrap();
        let tmpl = env.get_template("t").unwrap();
        let rec = Arc::new(EnumRec { keys: Mutex::new(Vec::new()) });
        let rv = tmpl.render(Value::from_dyn_object(rec.clone()));
        println!("=== api debug(): undeclared={:?} keys={:?} ok={}",
            tmpl.undeclared_variables(false), rec.keys.lock().unwrap(), rv.is_ok());
    }
}
