// Reproductions for the C06 hunt (inheritance / super / self.block / include / import).
//
// Run with (from the repository root):
//   cp HUNT/repro.rs minijinja/examples/hunt_repro.rs
//   CARGO_NET_OFFLINE=true CARGO_TARGET_DIR=/tmp/hunt-4/target \
//       cargo run --offline -p minijinja --example hunt_repro
//
// Only default features are needed.  Every case prints what was observed and
// what the property statement would require.  The hang is run on a helper
// thread with a timeout, the stack overflow in a child process.
use std::panic::{catch_unwind, AssertUnwindSafe};
use std::sync::mpsc;
use std::time::Duration;

use minijinja::{context, Environment, Value};

fn describe(r: Result<String, minijinja::Error>) -> String {
    match r {
        Ok(s) => format!("OK  {s:?}"),
        Err(e) => {
            let mut msg = format!("ERR {:?}: {}", e.kind(), e);
            let mut src = std::error::Error::source(&e);
            let mut n = 0;
            while let Some(s) = src {
                n += 1;
                if n <= 3 {
                    msg.push_str(&format!(" <- {s}"));
                }
                src = s.source();
            }
            if n > 3 {
                msg.push_str(&format!(" <- ... ({n} nested errors)"));
            }
            msg
        }
    }
}

fn case(title: &str, expected: &str, tmpls: &[(&str, &str)], root: &str, ctx: Value) {
    println!("--- {title}");
    let r = catch_unwind(AssertUnwindSafe(|| {
        let mut env = Environment::new();
        for (n, s) in tmpls {
            if let Err(e) = env.add_template_owned(n.to_string(), s.to_string()) {
                return format!("compile error in {n}: {e}");
            }
        }
        describe(env.get_template(root).and_then(|t| t.render(ctx)))
    }));
    match r {
        Ok(s) => println!("    observed: {s}"),
        Err(p) => {
            let m = p
                .downcast_ref::<String>()
                .cloned()
                .or_else(|| p.downcast_ref::<&str>().map(|s| s.to_string()))
                .unwrap_or_default();
            println!("    observed: PANIC {m}");
        }
    }
    println!("    expected: {expected}");
}

fn join_env() -> Environment<'static> {
    // this is verbatim the callback from the documentation of
    // Environment::set_path_join_callback
    let mut env = Environment::new();
    env.set_path_join_callback(|name, parent| {
        let mut rv = parent.split('/').collect::<Vec<_>>();
        rv.pop();
        name.split('/').for_each(|segment| match segment {
            "." => {}
            ".." => {
                rv.pop();
            }
            _ => {
                rv.push(segment);
            }
        });
        rv.join("/").into()
    });
    env
}

fn with_timeout<F: FnOnce() -> String + Send + 'static>(title: &str, expected: &str, f: F) {
    println!("--- {title}");
    let (tx, rx) = mpsc::channel();
    std::thread::spawn(move || {
        let _ = tx.send(f());
    });
    match rx.recv_timeout(Duration::from_secs(3)) {
        Ok(s) => println!("    observed: {s}"),
        Err(_) => println!("    observed: HANG (render did not return within 3 seconds)"),
    }
    println!("    expected: {expected}");
}

fn self_block_recursion() {
    let mut env = Environment::new();
    env.add_template("a", "{% block x %}x{{ self.x() }}{% endblock %}")
        .unwrap();
    let r = env.get_template("a").unwrap().render(context!());
    println!("    child: render returned {}", describe(r));
}

fn main() {
    if std::env::args().nth(1).as_deref() == Some("child-self-block-recursion") {
        // default stack size of std::thread (2 MiB)
        std::thread::spawn(self_block_recursion).join().unwrap();
        return;
    }

    println!("==== 1. inheritance cycle is not detected when a path join callback is set (HANG)");
    with_timeout(
        "1a. dir/a extends './b', dir/b extends './a'",
        "an error (cycle in template inheritance)",
        || {
            let mut env = join_env();
            env.add_template("dir/a", "{% extends './b' %}{% block x %}a{% endblock %}")
                .unwrap();
            env.add_template("dir/b", "{% extends './a' %}{% block x %}b{% endblock %}")
                .unwrap();
            describe(env.get_template("dir/a").unwrap().render(context!()))
        },
    );
    with_timeout(
        "1b. dir/a extends './a' (self cycle)",
        "an error (cycle in template inheritance)",
        || {
            let mut env = join_env();
            env.add_template("dir/a", "{% extends './a' %}").unwrap();
            describe(env.get_template("dir/a").unwrap().render(context!()))
        },
    );
    with_timeout(
        "1c. false positive of the same comparison: a -> d/b -> d/d/b is a straight chain",
        "OK \"[bbase]\"",
        || {
            let mut env = join_env();
            env.add_template("a", "{% extends 'd/b' %}").unwrap();
            env.add_template("d/b", "{% extends 'd/b' %}{% block x %}b{{ super() }}{% endblock %}")
                .unwrap();
            env.add_template("d/d/b", "[{% block x %}base{% endblock %}]")
                .unwrap();
            describe(env.get_template("a").unwrap().render(context!()))
        },
    );

    println!("\n==== 2. false 'cycle in template inheritance' for include/import of a template that extends a template of the includer's chain");
    let base = ("base", "[{% block a %}base-a{% endblock %}]");
    case(
        "2a. include from a block",
        "OK \"[main-a [inc-a]]\"",
        &[
            base,
            ("inc", "{% extends \"base\" %}{% block a %}inc-a{% endblock %}"),
            ("main", "{% extends \"base\" %}{% block a %}main-a {% include \"inc\" %}{% endblock %}"),
        ],
        "main",
        context!(),
    );
    case(
        "2b. include from a macro",
        "OK \"[main-a [inc-a]]\"",
        &[
            base,
            ("inc", "{% extends \"base\" %}{% block a %}inc-a{% endblock %}"),
            ("main", "{% extends \"base\" %}{% macro m() %}{% include \"inc\" %}{% endmacro %}{% block a %}main-a {{ m() }}{% endblock %}"),
        ],
        "main",
        context!(),
    );
    case(
        "2c. import of a helper module that extends the same base",
        "OK \"[H]\"",
        &[
            base,
            ("helpers", "{% extends \"base\" %}{% macro h() %}H{% endmacro %}"),
            ("main", "{% extends \"base\" %}{% import \"helpers\" as h %}{% block a %}{{ h.h() }}{% endblock %}"),
        ],
        "main",
        context!(),
    );
    case(
        "2d. control: same include from a template that does not extend works",
        "OK \"[inc-a]\"",
        &[
            base,
            ("inc", "{% extends \"base\" %}{% block a %}inc-a{% endblock %}"),
            ("main", "{% include \"inc\" %}"),
        ],
        "main",
        context!(),
    );

    println!("\n==== 3. self.block() evaluated at the top level of an extending template silently yields nothing");
    let p = ("p", "<{% block title %}PT{% endblock %}|{% block body %}{% endblock %}>");
    case(
        "3a. {% set t = self.title() %} after extends",
        "OK \"<T|t=T>\"",
        &[p, ("c", "{% extends \"p\" %}{% set t = self.title() %}{% block title %}T{% endblock %}{% block body %}t={{ t }}{% endblock %}")],
        "c",
        context!(),
    );
    case(
        "3b. control: the same set placed before extends",
        "OK \"<T|t=T>\"",
        &[p, ("c", "{% set t = self.title() %}{% extends \"p\" %}{% block title %}T{% endblock %}{% block body %}t={{ t }}{% endblock %}")],
        "c",
        context!(),
    );
    case(
        "3c. control: the same call routed through a macro",
        "OK \"<T|t=T>\"",
        &[p, ("c", "{% extends \"p\" %}{% macro get() %}{{ self.title() }}{% endmacro %}{% set t = get() %}{% block title %}T{% endblock %}{% block body %}t={{ t }}{% endblock %}")],
        "c",
        context!(),
    );
    case(
        "3d. the 'is the sidebar block non-empty' idiom",
        "OK \"<SIDEBAR:links|has_sidebar=true>\"",
        &[
            ("p", "<{% if has_sidebar %}SIDEBAR:{% block sidebar %}{% endblock %}{% endif %}|{% block body %}{% endblock %}>"),
            ("c", "{% extends \"p\" %}{% if self.sidebar()|trim %}{% set has_sidebar = true %}{% endif %}{% block sidebar %}links{% endblock %}{% block body %}has_sidebar={{ has_sidebar }}{% endblock %}"),
        ],
        "c",
        context!(),
    );

    println!("\n==== 4. super() lexically inside a block but inside a call body / macro fails");
    let p = ("p", "[{% block a %}PA{% endblock %}]");
    case(
        "4a. super() in a {% call %} body inside a block",
        "OK \"[<PA>]\"",
        &[p, ("c", "{% extends \"p\" %}{% macro wrap() %}<{{ caller() }}>{% endmacro %}{% block a %}{% call wrap() %}{{ super() }}{% endcall %}{% endblock %}")],
        "c",
        context!(),
    );
    case(
        "4b. super() in a macro declared inside the block",
        "OK \"[PA]\"",
        &[p, ("c", "{% extends \"p\" %}{% block a %}{% macro m() %}{{ super() }}{% endmacro %}{{ m() }}{% endblock %}")],
        "c",
        context!(),
    );
    case(
        "4c. control: self.other() works in the same position",
        "OK \"[<xA2>]\"",
        &[p, ("c", "{% extends \"p\" %}{% macro wrap() %}<{{ caller() }}>{% endmacro %}{% block a %}{% call wrap() %}x{{ self.a2() }}{% endcall %}{% endblock %}{% block a2 %}A2{% endblock %}")],
        "c",
        context!(),
    );

    println!("\n==== 5. self.x() reached from within super() of x renders the ancestor definition, not the most derived one");
    case(
        "5. ns flag breaks the recursion after one round",
        "OK \"CPC\"",
        &[
            ("p", "{% set ns = namespace(done=false) %}{% block x %}P{% if not ns.done %}{% set ns.done = true %}{{ self.x() }}{% endif %}{% endblock %}"),
            ("c", "{% extends \"p\" %}{% block x %}C{% if not ns.done %}{{ super() }}{% endif %}{% endblock %}"),
        ],
        "c",
        context!(),
    );

    println!("\n==== 6. include / import of an empty list of candidates succeeds silently");
    case(
        "6a. {% include [] %} without ignore missing",
        "an error (no template to include), like {% include [\"x\", \"y\"] %} gives",
        &[("c", "A{% include [] %}B{% include names|select %}C{% include {} %}D")],
        "c",
        context!(names => vec![Value::from(false)]),
    );
    case(
        "6b. {% import [] as m %} / {% from [] import x %}",
        "an error",
        &[("c", "{% import [] as m %}[{{ m }}]{% from [] import x %}[{{ x }}]")],
        "c",
        context!(),
    );
    case(
        "6c. control: list of missing names",
        "ERR TemplateNotFound",
        &[("c", "A{% include [\"x\", \"y\"] %}B")],
        "c",
        context!(),
    );

    println!("\n==== 7. include inside a macro / call body does not get the includer's variables");
    let i = ("i", "[x={{ x }} a={{ a }} g={{ g }}]");
    case(
        "7a. top-level set is invisible to a template included from a macro",
        "OK \"[x=1 a=2 g=G]\"",
        &[i, ("c", "{% set x = 1 %}{% macro m(a) %}{% include \"i\" %}{% endmacro %}{{ m(2) }}")],
        "c",
        context!(g => "G"),
    );
    case(
        "7b. ... unless the macro body happens to mention the name",
        "same as 7a",
        &[i, ("c", "{% set x = 1 %}{% macro m(a) %}{% if x %}{% endif %}{% include \"i\" %}{% endmacro %}{{ m(2) }}")],
        "c",
        context!(g => "G"),
    );
    case(
        "7c. include in a call body",
        "OK \"<[x=1 a= g=G]>\"",
        &[i, ("c", "{% set x = 1 %}{% macro m() %}<{{ caller() }}>{% endmacro %}{% call m() %}{% include \"i\" %}{% endcall %}")],
        "c",
        context!(g => "G"),
    );

    println!("\n==== 8. extends in a non top-level scope is accepted and misbehaves silently");
    let p = ("p", "PARENT[{% block a %}pa{% endblock %}]");
    case(
        "8a. extends inside a macro: rest of the macro is dropped, parent never rendered, no error",
        "an error (Jinja2: 'cannot use extend from a non top-level scope'), or the parent rendered",
        &[p, ("c", "{% macro m() %}before{% extends \"p\" %}after{% endmacro %}A{{ m() }}B")],
        "c",
        context!(),
    );
    case(
        "8b. extends inside a block: parent is rendered inline in the block, surrounding text kept",
        "an error, or \"PARENT[pa]\" only",
        &[p, ("c", "X{% block b %}before{% extends \"p\" %}after{% endblock %}Y")],
        "c",
        context!(),
    );

    println!("\n==== 9. from-import does not expose exactly the module's names");
    case(
        "9a. name missing in the module is taken from the importer's scope / globals",
        "z and r undefined (module has neither x nor range): \"||1\"",
        &[
            ("m", "{% set y = 1 %}"),
            ("c", "{% from \"m\" import x as z, range as r, y %}{{ z }}|{{ r(2) if r else '' }}|{{ y }}"),
        ],
        "c",
        context!(x => "importer-x"),
    );
    case(
        "9b. blocks of the module run for import but not for from-import",
        "OK \"11\"",
        &[
            ("m", "{% set ns = namespace(v=0) %}{% block b %}{% set ns.v = 1 %}{% endblock %}"),
            ("c", "{% import \"m\" as m %}{{ m.ns.v }}{% from \"m\" import ns %}{{ ns.v }}"),
        ],
        "c",
        context!(),
    );

    println!("\n==== 10. self.x() in an imported macro resolves against the caller's blocks");
    let m = ("m", "{% macro f() %}<{{ self.x() }}>{% endmacro %}{% block x %}MX{% endblock %}");
    case(
        "10a. importer has its own block x",
        "OK \"<MX>MAINX\"",
        &[m, ("c", "{% import \"m\" as m %}{{ m.f() }}{% block x %}MAINX{% endblock %}")],
        "c",
        context!(),
    );
    case(
        "10b. importer has no block x",
        "OK \"<MX>\"",
        &[m, ("c", "{% import \"m\" as m %}{{ m.f() }}")],
        "c",
        context!(),
    );

    println!("\n==== 11. unbounded self.block() recursion overflows the native stack before the recursion limit triggers");
    println!("--- 11. {{% block x %}}x{{{{ self.x() }}}}{{% endblock %}} on a 2 MiB thread (child process; aborts in debug builds)");
    match std::env::current_exe().and_then(|exe| {
        std::process::Command::new(exe)
            .arg("child-self-block-recursion")
            .output()
    }) {
        Ok(out) => {
            println!("    observed: child exit status: {:?}", out.status);
            for line in String::from_utf8_lossy(&out.stdout)
                .lines()
                .chain(String::from_utf8_lossy(&out.stderr).lines())
            {
                println!("    observed: {line}");
            }
        }
        Err(e) => println!("    could not spawn child: {e}"),
    }
    println!("    expected: ERR InvalidOperation: recursion limit exceeded (as include and macro recursion give)");

    println!("\n==== observation (escaping, outside the statement of C06)");
    case(
        "o1. parent 'base.html' rendered through child 'c.txt' does not escape",
        "base.html parts escaped: \"B:&lt;b&gt;[...]\"",
        &[
            ("base.html", "B:{{ v }}[{% block a %}{% endblock %}]"),
            ("c.txt", "{% extends \"base.html\" %}"),
        ],
        "c.txt",
        context!(v => "<b>"),
    );

    // the hang threads are still spinning
    std::process::exit(0);
}
