#!/usr/bin/env python3
"""Re-resolves the commit hashes of fixed findings from their recorded commit subjects
(hashes change when /repo history is rebased)."""
import json, subprocess
P = "/verif/known_findings.json"
d = json.load(open(P))
log = subprocess.run(["git", "-C", "/repo", "log", "--format=%h %s"], capture_output=True, text=True).stdout.splitlines()
subj = {l.split(" ", 1)[1]: l.split(" ", 1)[0] for l in log}
for f in d["findings"]:
    if f["status"] != "fixed":
        continue
    s = f.get("commit_subject")
    if not s:
        # recover the subject from the current hash if it still exists
        r = subprocess.run(["git", "-C", "/repo", "log", "-1", "--format=%s", f["commit"]], capture_output=True, text=True)
        s = r.stdout.strip() if r.returncode == 0 else None
        f["commit_subject"] = s
    if s in subj:
        f["commit"] = subj[s]
    else:
        print("UNRESOLVED", f["id"], s)
d["log"] = []
for f in d["findings"]:
    if f["status"] == "fixed":
        d["log"].append(f"fixed: property={f['property']} {f['commit']} {f['what']}")
    else:
        d["log"].append(f"open: property={f['property']} {f['what']}")
json.dump(d, open(P, "w"), indent=1)
print("ok", len(d["findings"]))
