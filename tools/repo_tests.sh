#!/bin/bash
# Runs the repository's baseline suite (guard off) and prints pass/fail totals; exit 1 on any failure.
cd /repo || exit 2
out=$(CARGO_NET_OFFLINE=true cargo test --workspace --no-fail-fast --offline 2>&1)
echo "$out" | grep -E "^test result" | awk '{p+=$4;f+=$6} END{print "baseline: passed",p,"failed",f}'
echo "$out" | grep -E "^test .*FAILED|^error" | head -20
if echo "$out" | grep -qE "^test result: FAILED|^error"; then exit 1; fi
exit 0
