#!/bin/bash
# confirm_seeded.sh <lane> <id/n>...  — in a scratch worktree /tmp/confirm-<lane>, apply each seeded patch, run the
# repository's own suite (cargo test --workspace, guard off), record pass/fail totals in /verif/seeded/<id>/<n>/baseline.txt
lane="$1"; shift
wt=/tmp/confirm-$lane
git -C /repo worktree add --detach "$wt" HEAD -q 2>/dev/null
export CARGO_NET_OFFLINE=true CARGO_TARGET_DIR=$wt/target
for item in "$@"; do
  cd "$wt" || exit 2
  git checkout -q -- . ; git clean -fdq -e target
  if ! git apply "/verif/seeded/$item/patch.diff"; then echo "$item: patch does not apply" > "/verif/seeded/$item/baseline.txt"; continue; fi
  out=$(cargo test --workspace --no-fail-fast --offline 2>&1)
  res=$(echo "$out" | grep -E "^test result" | awk '{p+=$4;f+=$6} END{print "passed",p,"failed",f}')
  errs=$(echo "$out" | grep -cE "^error")
  echo "cargo test --workspace --no-fail-fast --offline with the patch applied: $res; compile errors: $errs" > "/verif/seeded/$item/baseline.txt"
  echo "$out" | grep -E "^test .*FAILED" | head -5 >> "/verif/seeded/$item/baseline.txt"
  echo "$item: $res errors=$errs"
done
cd /; git -C /repo worktree remove --force "$wt"
