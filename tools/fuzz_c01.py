#!/usr/bin/env python3
"""Coverage-guided (libFuzzer) stage of the C01 thorough tier.

usage: fuzz_c01.py <seconds> <seed> [--jobs N]

Builds harness/fuzz (cargo +nightly fuzz build) against /repo's working tree, runs the
`render_bytes` target from a fresh corpus (seeded with the bodies of /repo/minijinja/tests/inputs
and /verif/corpus/render_bytes) for the given wall-clock budget, then
  * every crash artifact is re-run alone; if it still crashes it is copied to
    /verif/replays/C01/found-fuzz-<sha>.bin and reported as `VIOLATION property=C01 replay=...`;
  * timeout-/oom- artifacts are harness limits: reported as inconclusive notes, never violations;
  * the per-process counters and one classification pass over the final corpus are merged into
    /verif/evidence/C01.json as part `libfuzzer_render_bytes`.
Exit code: 1 if a violation was reported, 2 if the stage could not run, else 0.
"""
import glob, hashlib, json, os, shutil, subprocess, sys, time

ROOT = os.path.dirname(os.path.dirname(os.path.abspath(__file__)))
HARNESS = os.path.join(ROOT, "harness")
BIN = os.path.join(HARNESS, "fuzz", "target", "x86_64-unknown-linux-gnu", "release", "render_bytes")
MAX_LEN = 4096


def build():
    env = dict(os.environ, CARGO_NET_OFFLINE="true")
    r = subprocess.run(["cargo", "+nightly", "fuzz", "build"], cwd=HARNESS, env=env, capture_output=True, text=True)
    if r.returncode != 0 or not os.path.exists(BIN):
        sys.stderr.write(r.stdout[-2000:] + r.stderr[-4000:])
        return False
    return True


def seed_corpus(corpus):
    n = 0
    for p in sorted(glob.glob("/repo/minijinja/tests/inputs/*.txt")):
        data = open(p, "rb").read()
        # fixtures are "<json context>\n---\n<template>"
        i = data.find(b"\n---\n")
        body = data[i + 5:] if i >= 0 else data
        if 0 < len(body) <= MAX_LEN:
            open(os.path.join(corpus, "seed-" + os.path.basename(p)), "wb").write(body)
            n += 1
    for p in sorted(glob.glob(os.path.join(ROOT, "corpus", "render_bytes", "*"))):
        shutil.copy(p, os.path.join(corpus, "own-" + os.path.basename(p)))
        n += 1
    return n


def run_alone(path, stats_dir=None, timeout=120):
    env = dict(os.environ)
    if stats_dir:
        env["MJV_FUZZ_STATS"] = stats_dir
    try:
        r = subprocess.run([BIN, path, "-timeout=60", "-rss_limit_mb=6144"], capture_output=True, text=True, errors="replace", env=env, timeout=timeout)
        return r.returncode, r.stdout + r.stderr
    except subprocess.TimeoutExpired:
        return None, "timeout"


def crash_signature(log):
    for line in log.splitlines():
        if "panicked at" in line:
            return "panic:" + line.split("panicked at", 1)[1].strip()[:160]
    for key in ("stack-overflow", "stack overflow", "SEGV", "deadly signal", "out-of-memory", "memory allocation of"):
        if key in log:
            return "crash:" + key
    return "crash:unknown"


def replay(path):
    """replay mode for ./check C01 --replay <file>.bin"""
    if not build():
        return 2
    rc, log = run_alone(path)
    if rc is None:
        print("INCONCLUSIVE: replay timed out")
        return 2
    if rc != 0:
        print("signature:", crash_signature(log))
        print(f"VIOLATION property=C01 replay={path}")
        return 1
    print("OK property=C01 replay passes")
    return 0


def main():
    if len(sys.argv) >= 3 and sys.argv[1] == "--replay":
        sys.exit(replay(sys.argv[2]))
    seconds = int(sys.argv[1])
    seed = int(sys.argv[2]) % (2**31 - 1) or 1
    jobs = 16
    if "--jobs" in sys.argv:
        jobs = int(sys.argv[sys.argv.index("--jobs") + 1])
    t0 = time.time()
    if not build():
        print("INCONCLUSIVE: fuzz target does not build")
        sys.exit(2)
    work = os.path.join(ROOT, "out", "fuzz-C01")
    shutil.rmtree(work, ignore_errors=True)
    corpus, arts, stats, logs = (os.path.join(work, d) for d in ("corpus", "artifacts", "stats", "logs"))
    for d in (corpus, arts, stats, logs):
        os.makedirs(d)
    n_seeds = seed_corpus(corpus)
    env = dict(os.environ, MJV_FUZZ_STATS=stats)
    cmd = [BIN, corpus, f"-max_len={MAX_LEN}", "-len_control=0", "-timeout=30", "-rss_limit_mb=6144",
           f"-max_total_time={seconds}", f"-jobs={jobs}", f"-workers={jobs}", f"-seed={seed}",
           f"-artifact_prefix={arts}/", "-print_final_stats=1"]
    if os.path.exists("/repo/fuzz/dict"):
        cmd.append("-dict=/repo/fuzz/dict")
    subprocess.run(cmd, cwd=logs, env=env, stdout=subprocess.DEVNULL, stderr=subprocess.DEVNULL)
    # counters of the campaign processes
    tot = {}
    for p in glob.glob(os.path.join(stats, "*.json")):
        try:
            for k, v in json.load(open(p)).items():
                tot[k] = tot.get(k, 0) + v
        except Exception:
            pass
    # classification pass over the final corpus (distinct inputs by construction)
    cstats = os.path.join(work, "stats-corpus")
    os.makedirs(cstats)
    subprocess.run([BIN, corpus, "-runs=0", "-rss_limit_mb=6144"], env=dict(os.environ, MJV_FUZZ_STATS=cstats),
                   stdout=subprocess.DEVNULL, stderr=subprocess.DEVNULL, cwd=logs)
    ctot = {}
    for p in glob.glob(os.path.join(cstats, "*.json")):
        for k, v in json.load(open(p)).items():
            ctot[k] = ctot.get(k, 0) + v
    corpus_files = [p for p in glob.glob(os.path.join(corpus, "*")) if os.path.isfile(p)]
    # artifacts
    violations, notes = [], []
    for p in sorted(glob.glob(os.path.join(arts, "*"))):
        base = os.path.basename(p)
        if base.startswith(("timeout-", "oom-", "slow-unit-")):
            notes.append(base)
            continue
        rc, log = run_alone(p)
        if rc is None or rc == 0:
            notes.append(base + " (does not reproduce alone)")
            continue
        sha = hashlib.sha1(open(p, "rb").read()).hexdigest()[:16]
        dest = os.path.join(ROOT, "replays", "C01", f"found-fuzz-{sha}.bin")
        os.makedirs(os.path.dirname(dest), exist_ok=True)
        shutil.copy(p, dest)
        violations.append((dest, crash_signature(log)))
    # distinct root causes first
    seen = set()
    for dest, sig in violations:
        if sig in seen:
            continue
        seen.add(sig)
        print("signature:", sig)
        print("input:", repr(open(dest, "rb").read()[:300]))
        print(f"VIOLATION property=C01 replay={dest}")
    for n in notes[:10]:
        print("note: libFuzzer artifact not counted as a violation:", n)
    # samples
    samples = []
    for p in sorted(corpus_files, key=lambda p: hashlib.sha1(p.encode()).hexdigest())[:6]:
        if not os.path.basename(p).startswith(("seed-", "own-")):
            samples.append({"part": "libfuzzer_render_bytes", "case": {"bytes": open(p, "rb").read()[:400].decode("utf-8", "replace")}})
    # merge into the evidence file written by mjv
    ev_path = os.path.join(ROOT, "evidence", "C01.json")
    try:
        ev = json.load(open(ev_path))
        part = {
            "evaluations": tot.get("execs", 0),
            "distinct_nontrivial": ctot.get("compiled", 0),
            "exhaustive": False,
            "known_finding_hits": {},
            "labels": {
                "compiled": tot.get("compiled", 0), "render_ok": tot.get("render_ok", 0), "render_err": tot.get("render_err", 0),
                "expr_mode": tot.get("expr_mode", 0), "with_companions": tot.get("with_companions", 0),
                "final_corpus_files": len(corpus_files), "seed_files": n_seeds,
                "harness_limit_artifacts": len(notes), "crash_artifacts": len(violations),
            },
            "rule": f"libFuzzer, {jobs} processes x {seconds} s, max_len {MAX_LEN}, seed {seed} (pins the campaign only approximately), fresh corpus seeded with the repository's template fixtures; evaluations = executions counted inside the target; distinct_nontrivial = inputs of the final corpus (distinct byte strings kept for new coverage) whose main source compiled, counted by re-running the corpus once",
        }
        cov = ev["coverage"]
        cov.setdefault("parts", {})["libfuzzer_render_bytes"] = part
        cov["evaluations"] = cov.get("evaluations", 0) + part["evaluations"]
        cov["distinct_nontrivial"] = cov.get("distinct_nontrivial", 0) + part["distinct_nontrivial"]
        cov.setdefault("samples", []).extend(samples)
        ev["violations"] = ev.get("violations", 0) + len(seen)
        ev["wall_s"] = round(ev.get("wall_s", 0) + time.time() - t0, 3)
        json.dump(ev, open(ev_path, "w"), indent=1)
    except Exception as e:  # evidence of the first stage missing: say so, do not invent one
        print("note: could not merge fuzz stage into evidence:", e)
    print(f"fuzz stage: execs={tot.get('execs', 0)} compiled={tot.get('compiled', 0)} corpus={len(corpus_files)} "
          f"corpus_compiled={ctot.get('compiled', 0)} crashes={len(violations)} limit_artifacts={len(notes)} wall_s={time.time() - t0:.0f}")
    shutil.rmtree(work, ignore_errors=True)
    sys.exit(1 if violations else 0)


if __name__ == "__main__":
    main()
