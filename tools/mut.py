#!/usr/bin/env python3
"""Sensitivity helper: apply a textual mutation to /repo, run a check, revert.
usage: mut.py <relpath> <old> <new> <prop> [tier]
Prints the first lines of the check's verdict. Always reverts /repo's working tree file."""
import subprocess, sys
rel, old, new, prop = sys.argv[1:5]
tier = sys.argv[5] if len(sys.argv) > 5 else "quick"
p = "/repo/" + rel
s = open(p).read()
if s.count(old) != 1:
    print("mutation site count", s.count(old)); sys.exit(3)
open(p, "w").write(s.replace(old, new))
try:
    r = subprocess.run(["/verif/check", prop, tier], capture_output=True, text=True)
    lines = [l for l in (r.stdout + r.stderr).splitlines() if l.startswith(("VIOLATION", "OK", "signature", "KNOWN", "INCONCLUSIVE", "error"))]
    print("exit", r.returncode)
    print("\n".join(l[:300] for l in lines[:8]))
finally:
    subprocess.run(["git", "-C", "/repo", "checkout", "--", rel])
