#!/bin/bash
# sbx_sync.sh <name> — bring the sandbox /tmp/sbx-<name> up to date with /verif's working tree and /repo's HEAD
set -eu
d=/tmp/sbx-$1
git -C "$d/repo" reset -q --hard
git -C "$d/repo" clean -fdq -e target
git -C "$d/repo" checkout -q --detach "$(git -C /repo rev-parse HEAD)"
rsync -a --delete --exclude .git --exclude '/out/' --exclude '/harness/target-*' --exclude '/harness/fuzz/target' --exclude '/replays/*/found-*' /verif/ "$d/verif/"
sed -i "s#\"/repo/#\"$d/repo/#g" "$d/verif/harness/Cargo.toml" "$d/verif/harness/fuzz/Cargo.toml" "$d/verif/harness-min/Cargo.toml"
echo "$d"
