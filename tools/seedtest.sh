#!/bin/bash
# seedtest.sh <patch.diff> <check id>...   — apply a seeded change to /repo, run the quick checks, revert.
# With BASELINE=1 also runs the repository's own test suite on the changed tree first.
set -u
patch="$1"; shift
cd /repo || exit 3
if [ -n "$(git status --porcelain)" ]; then echo "/repo not clean"; exit 3; fi
git apply "$patch" || { echo "patch does not apply"; exit 3; }
trap 'git -C /repo checkout -- . ; git -C /repo clean -fdq -- minijinja minijinja-autoreload minijinja-contrib 2>/dev/null' EXIT
if [ "${BASELINE:-0}" = 1 ]; then
  /verif/tools/repo_tests.sh 2>&1 | tail -2
fi
for id in "$@"; do
  out=$(cd /verif && VERIF_TIER=${TIER:-quick} ./check "$id" "${TIER:-quick}" 2>&1)
  rc=$?
  echo "== $id exit $rc"
  echo "$out" | grep -E "^(VIOLATION|OK|signature|KNOWN-FINDING|INCONCLUSIVE)" | cut -c1-260 | head -8
done
