#!/bin/bash
# seedtest.sh <patch.diff> <check id>...   — apply a seeded change to /repo, run the quick checks, revert.
# With BASELINE=1 also runs the repository's own test suite on the changed tree first.
set -u
# VERIF_REPO / VERIF_ROOT select a sandbox copy made by tools/sandbox.sh (default: /repo and /verif)
patch="$1"; shift
REPO="${VERIF_REPO:-/repo}"
VROOT="${VERIF_ROOT:-/verif}"
cd "$REPO" || exit 3
if [ -n "$(git status --porcelain)" ]; then echo "$REPO not clean"; exit 3; fi
git apply "$patch" || { echo "patch does not apply"; exit 3; }
trap 'git -C "$REPO" checkout -- . ; git -C "$REPO" clean -fdq -- minijinja minijinja-autoreload minijinja-contrib 2>/dev/null' EXIT
if [ "${BASELINE:-0}" = 1 ]; then
  /verif/tools/repo_tests.sh 2>&1 | tail -2
fi
for id in "$@"; do
  out=$(cd "$VROOT" && VERIF_TIER=${TIER:-quick} ./check "$id" "${TIER:-quick}" 2>&1)
  rc=$?
  echo "== $id exit $rc"
  echo "$out" | grep -E "^(VIOLATION|OK|signature|KNOWN-FINDING|INCONCLUSIVE)" | cut -c1-260 | head -8
done
