#!/bin/bash
# allthorough.sh <id>... — thorough tier of the given properties, one after another; one summary line each
cd /verif
for id in "$@"; do
  t0=$(date +%s)
  out=$(./check $id thorough 2>&1); rc=$?
  echo "$id exit=$rc wall=$(( $(date +%s) - t0 ))s $(echo "$out" | grep -E '^(OK|VIOLATION|INCONCLUSIVE|fuzz stage)' | head -3 | tr '\n' ' ' | cut -c1-300)"
  echo "$out" > /verif/out/thorough-$id.log
done
