#!/bin/bash
# allthorough.sh <id>... — thorough tier of the given properties, one after another; one summary line each
ROOT="$(cd "$(dirname "${BASH_SOURCE[0]}")/.." && pwd)"
cd "$ROOT"
mkdir -p "$ROOT/out"
for id in "$@"; do
  t0=$(date +%s)
  out=$(./check $id thorough 2>&1); rc=$?
  echo "$id exit=$rc wall=$(( $(date +%s) - t0 ))s $(echo "$out" | grep -E '^(OK|VIOLATION|INCONCLUSIVE|fuzz stage)' | head -3 | tr '\n' ' ' | cut -c1-300)"
  echo "$out" > "$ROOT/out/thorough-$id.log"
done
