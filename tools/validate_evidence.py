#!/usr/bin/env python3
import json, sys, glob, jsonschema
schema = json.load(open("/root/.vp/EVIDENCE.schema.json"))
bad = 0
for p in sorted(glob.glob("/verif/evidence/*.json")):
    try:
        jsonschema.validate(json.load(open(p)), schema)
        d = json.load(open(p))
        print("ok", p, d["tier"], d["coverage"]["evaluations"], d["coverage"]["distinct_nontrivial"], d["wall_s"])
    except Exception as e:
        bad += 1
        print("INVALID", p, str(e)[:300])
sys.exit(1 if bad else 0)
