#!/usr/bin/env python3
"""Regenerates /verif/MANIFEST.json from the table below and validates it."""
import json, os, subprocess
ROOT = os.path.dirname(os.path.dirname(os.path.abspath(__file__)))

CHECKS = {
 "C01": dict(
   technique="property-based fuzzing with process isolation: proptest-generated free-mode templates (grammar over every construct and built-in, boundary arguments, mutations, ladders) plus an enumerated built-in x boundary-argument grid and an enumerated family of loop accumulators, run in worker processes of a debug (opt-level 0, overflow checks) and a release build on 2 MiB and 8 MiB threads; oracle = the worker survives and no panic is caught; parent-side delta-debugging shrinker for crashes; thorough tier adds a coverage-guided libFuzzer campaign (harness/fuzz, target render_bytes) with the same oracle",
   level="exploration",
   text="Generated templates, companions and contexts are loaded, rendered and evaluated as expressions in child processes; every returned error is formatted in all forms. A panic (caught in the worker), a native stack overflow, an abort or a failed allocation larger than the worker's whole address-space limit is a violation attributed to the case that was running and shrunk by re-spawning single-case children. An enumerated grid applies every built-in filter/test (static list plus the names registered in the tree under test) and every function/loop method to 20 subjects (incl. strings starting with multi-byte characters) with 0-3 boundary arguments and keyword arguments; range() is enumerated over all triples of 16 boundary integers and string literals over every sequence of up to three escape pieces (surrogate halves, malformed \\u/\\x/octal escapes) in four syntactic positions; 15 step expressions grow a namespace attribute over 6 000-120 000 loop steps and 8 consumers use it; 600 programs let a recursive loop object travel into foreign code. Thorough: libFuzzer, 16 processes x VERIF_FUZZ_SECONDS (default 900 s), inputs up to 4 KiB split into main source and companions, crash artifacts re-run alone and saved as replay files. The built-in grid also formats safe format strings (|safe, set-block captures) with undefined, none, safe, unsafe and non-string arguments under all four undefined behaviours. The grid also keeps loop objects beyond their loop (in a namespace) and reads their attributes afterwards.",
   note="Four listed findings (deep operator ladders, deeply nested values, lazy slice chains, block self-recursion) are native stack overflows; they are excluded by construction (ladder length and fuel caps, no self.block() inside blocks, no re-slicing accumulator) and only their own witnesses are matched. Hangs/oom under the harness limit are counted as inconclusive watchdog hits, not violations.",
   design="3/C01"),
 "C02": dict(
   technique="property-based testing with taint markers: generated html/xml programs of the safe-marking-free fragment over tainted context data and literals, validity oracle on the output (no raw < > \" '), plus a metamorphic round trip (unescape(.html rendering) == .txt rendering) on a fragment where captured values are not transformed",
   level="exploration",
   text="A flow generator sends tainted strings, tainted byte strings (valid and invalid UTF-8) and captured (safe) values through every string/list filter and operator in every argument position, through the contrib filters and globals (wordwrap, truncate, pluralize, joiner, cycler ...) and the Python-style string methods, through macros, call blocks, set/filter blocks, loops, includes, imports and inherited blocks of *.html/*.xml templates; free-mode programs rewritten into the fragment are mixed in. The output must contain none of < > \" '. For programs that only print/pass/store/loop over/join/re-capture captured values, unescaping the html rendering must give exactly the txt rendering (escaped exactly once). Both escaper implementations (speedups off/on). Main templates carry 14 spellings of HTML/XML names (htm, .j2/.jinja suffixes, directories with dots, extension-only names). Captures are also passed through filters that are the identity for the given arguments (indent(0), replace of an absent needle, default, string ...).",
   note="Raw & is not asserted (transforming an already escaped capture legitimately yields &LT; or cut-off entities). Mixed-extension includes are outside the domain.",
   design="3/C02"),
 "C03": dict(
   technique="property-based testing against a reference model: a scope-tracking generator (driven by a proptest byte tape, so programs shrink) emits well-typed programs of the core fragment; an independent reference interpreter of the documented semantics (harness/src/refint.rs) is the oracle for output and error-or-not",
   level="exploration",
   text="Programs over expressions, if/elif/else, for/else with loop filters, unpacking and every loop.* attribute printed in every loop, set and set-blocks, with, macros with defaults/keyword arguments/caller(), call blocks with parameters, filter blocks and optional break/continue are rendered against 4 contexts of ints, strings, lists and maps. After every scoped construct the generator inserts probes printing `name is defined` and the value for names assigned inside and before it, so scoping is observed, not assumed. A pinned set of hand-written programs (minimal forms of the defects found, documentation shapes) runs first; two enumerated families follow: unpacking assignments whose right-hand side reads the names being assigned (set/with, tuple/list literal, nested targets, in four surroundings) and macros/call blocks declared in a loop body that read a name one iteration assigns. Context strings, list items and generated words include non-ASCII text (characters, not bytes, are what a loop over a string counts).",
   note="The reference interpreter is the assumption: it was written from the documentation, not from the engine, and where the documentation is silent the generator does not go (listed in the evidence assumptions). Programs the interpreter flags as outside its fragment are skipped and counted (label outside_fragment).",
   design="3/C03"),
 "C04": dict(
   technique="property-based testing: metamorphic relation between an expression over literals and every variant with a subset of its literal leaves hoisted into context variables",
   level="exploration",
   text="Generated expressions over the literal syntax (boundary integers, floats, strings, left-leaning chains of one operator over operands where regrouping shows (floats at 2^53, integers at the 64/128-bit boundaries), and/or with falsy/truthy operands, comparison chains, in, ~, lists, tuples, maps, negated literals, filters/functions with literal keyword arguments) are rendered as written and with every (sampled beyond 6 leaves) subset of literal leaves replaced by variables bound to the engine's own value for that literal; text and error-ness must agree. `{% if false %}{{ E }}{% endif %}` must load and render empty. Calls that repeat a keyword name (dict, sort) are generated too: the last one given wins however the values are written.",
   note="Lazy sequence repetitions with astronomically large counts are excluded from the generator (printing them never ends; a hang is not this property's subject).",
   design="3/C04"),
 "C05": dict(
   technique="property-based testing with path enumeration: generated skeletons of nested scoped constructs with break/continue at every accepted position and recursive loops that call themselves in five forms (bare, assigned, filtered, with lazy arguments of unknown length), every control-flow path driven through context booleans and list lengths, state-balance invariant observed through the verif_hooks monitor plus sentinel/scope/escape probes in the output",
   level="exploration",
   text="For each generated program all assignments of its condition booleans and loop lengths (up to 160, else sampled) are rendered in .txt and .html; per path the feature-guarded balance monitor (frame depth, capture depth, auto-escape stack and operand stack equal at entry and normal exit of every instruction-stream evaluation; no foreign frame/capture popped) must stay silent, markers written after every top-level construct must reach the output in order, the escape mode and outer variables must be as before, inner assignments of isolating constructs must be gone, and so must whatever an included template assigned while it ran inside a construct with a scope of its own (also a block that assigns nothing itself). An enumerated part includes templates that exist and fail while one of their own constructs is open (7 failing statements x 10 open constructs) through plain / ignore missing / list-of-choices includes in 5 wrappers: the render fails, or the text, escape mode and scope after the include are intact. A third enumerated part writes break/continue into the else branch of a loop (7 wrappers x 4 controls x with/without an outer loop): rejected at load, or rendered without panic with everything after the construct intact.",
   note="Paths are complete only for programs with at most 160 assignments. The reference-interpreter comparison of whole outputs is part of C03.",
   design="3/C05"),
 "C06": dict(
   technique="property-based testing against a reference model plus exhaustive enumeration of small shape vectors: inheritance chains are generated as shape vectors (per template and block: absent / override / super before, after, twice / self-call; extends styles; include and import placements), turned into template sets and compared with the reference interpreter's multi-template semantics; error shapes are enumerated and must come back as errors of the documented kind",
   level="exploration",
   text="Chains of 1-5 templates over blocks a, b, c nested in a, d nested in c with every override/super choice, extends as first tag / after text / inside if / dynamic / conditional expression, top-level set and outside text, includes (literal, dynamic, lists with missing entries, ignore missing, an included template with its own chain reusing a block name) and import / from-import placed at top level, in blocks, loops, with-blocks, macros and inside a top-level set block whose value the blocks print (every kind x place x level of short chains enumerated); from-import of names only the importer or the globals define; a module variable built by a set block containing a block. All shape vectors over {a, c in a} for chains up to 4 templates are enumerated in the quick tier (5 in thorough). 136 error shapes (inheritance, include and import cycles, double extends, missing parent/include/import, super() without parent or outside a block, required block not overridden) must yield Err with the documented kind, with and without leading text; so must 156 inheritance cycles of which only a subset of the templates defines a block. Hand-written compositions (self.block() in blocks, at the top level of a child, during super() of the same block; include lists; import) are compared with outputs derived by hand from the statement.",
   note="Oracle = harness/src/refint.rs, written from the documentation. Not generated because the documentation is silent: reading names an included template assigned, super() into a required block, what a macro sees of later top-level assignments.",
   design="3/C06"),
 "C07": dict(
   technique="property-based testing: law checking (reflexive/antisymmetric/transitive/eq-cmp-hash agreement) over generated value triples biased to same-value-different-representation twins; metamorphic agreement of template operators; algebraic laws of sort/unique/groupby/batch/slice/reverse/min/max over generated inputs with hidden identities; both map implementations",
   level="exploration",
   text="Generated triples and pairs of values of every kind and representation are checked against the order/equality/hash laws at the Value API and through template operators (==, <, in, dict lookup, unique, is eq); collection filters are checked against their defining laws (ordered + permutation + stable, partition, concatenation, involution, bounds) on inputs of up to 71 items (thorough 159; long enough for every algorithm of the standard sort) with hidden ids. Run for the BTreeMap build and, as a sub-process, the preserve_order (IndexMap) build. Sort keys include ASCII strings that differ only in punctuation adjacent to the letters in the code table.",
   note="Sortedness of filter output is judged with Value::cmp (the order itself is judged by the laws part). Case-insensitive order of non-ASCII strings is not asserted (differs with the unicode feature). One open known finding (map insertion order under preserve_order).",
   design="3/C07"),
 "C08": dict(
   technique="property-based testing (proptest): boundary-biased operand generator, differential against an independent big-integer / scaled-integer oracle, across every operand representation",
   level="exploration",
   text="Generated search: every (op, a, b) is evaluated in all representation pairs (literal, i64, u64, i128, u128) and judged against an exact big-integer model; floats on a dyadic domain where exact answers exist; int/float comparisons against exact rational comparison. Holds on everything explored, no absence claim.",
   note="Trusts model/bigint.rs (unit tested, cross-checked against python3 in the thorough tier) and f64 arithmetic of the host for dyadic rationals.",
   design="3/C08"),
 "C09": dict(
   technique="property-based testing: complete enumeration of the quantifier's box plus proptest-generated boundary cases, differential against a Python slice.indices model",
   level="exploration",
   text="Every (kind, len, start, stop, step) of the stated box is enumerated (8 value kinds x len 0..=6 x 20 x 20 x 10 bounds, as literals and as variables of every internal integer width) together with i64-boundary and beyond-i64 rows and random cases; results (kind and items) are compared with an independent model of Python's slicing and subscripting, and every slice result is sliced, subscripted from the end and measured again against the same model; the rows with a bound at or beyond the i64 boundaries also run in isolated worker processes, so that an abort is attributed to its case.",
   note="Trusts model/pyslice.rs (unit tested on CPython examples, cross-checked with python3 in the thorough tier). Out-of-range subscripts are expected to be undefined. Exhaustive only inside the stated box.",
   design="3/C09"),
 "C10": dict(
   technique="model-based property testing (whitespace rules as worded vs engine, enumerated for short sequences and generated beyond) plus metamorphic testing (same program under 12 fixed and random delimiter configurations, line statements vs whole-line block tags) plus differential testing of styled programs against the reference interpreter",
   level="exploration",
   text="(a) Sequences of text and variable/block/comment/raw tags with every marker on either side are rendered under the 8 whitespace settings and compared with an independent model of the documented rules, with default delimiters and re-spelled under three custom delimiter sets (one prefix-sharing, one whose block start can overlap itself); all sequences of length <= 2 and all text-tag-text / tag-text-tag triples over a 37-symbol alphabet are enumerated. (b) Generated single-file programs whose text consists of partial and look-alike delimiters must render identically (or fail alike) with default delimiters and with each of 12 delimiter sets incl. prefix-sharing and nested-prefix ones. (c) Default-looking delimiters are verbatim text under a custom syntax; line statements/comments behave like whole-line tags. (d) Well-typed programs (C03 generator) with whitespace/look-alike texts are printed in a random style - fixed or random delimiter configuration, -/+ markers on any tag, free spacing in tags, whitespace that a marker removes, comments, texts as raw blocks, block tags as line statements, 8 settings - the per-text-run form of the whitespace model says which characters survive, and the reference interpreter run on the program with exactly those texts must agree with the engine. (b) and (d) draw random unambiguous delimiter configurations (prefix-sharing, self-overlapping, single-character). Line statements are followed by nothing, an empty line or a blank line and rendered under all four trim_blocks x lstrip_blocks settings against the whole-line-tag form. Tag-free text with nine kinds of endings goes through render_str, render_named_str, template_from_str and a stored template, with keep_trailing_newline on and off.",
   note="A lone CR next to a tag is outside the model (undocumented whether it is a line boundary). (b) compares the engine with itself under two printings of the same AST; (d) is judged by model/ws.rs + refint.rs. Not generated (meaning undocumented): end delimiters that begin with a marker character or whitespace, text completing a delimiter across a tag boundary, trailing line comments.",
   design="3/C10"),
 "C11": dict(
   technique="property-based testing with process isolation: generated recursive program shapes (cycles over macro / call-block / include (literal, list, list with a missing first entry, ignore missing, computed name) / import edges, recursive loops over deep data and recursive loops that hand themselves the same data again (directly, through an aliased loop object called from a nested loop or with block; a host function counts the levels, so an uncut recursion is a verdict, not a timeout), block self-calls, super() chains, with random non-recursive work per frame) rendered in worker processes of debug and release builds on 2 MiB and 8 MiB threads; outcome oracle (limit error / Ok, never a signal) plus monotonicity in the limit",
   level="exploration",
   text="Each generated shape is rendered with a generated recursion limit in a child process; the child must survive, unbounded shapes must fail with `recursion limit exceeded` somewhere in the cause chain, bounded ones may also succeed, no other error is accepted, and lowering the limit must not make the limit error disappear. Process deaths are attributed to the shape (edge kinds) that was running. The same question is also put to the engine built with four reduced feature sets (macros only, multi_template only, neither, both): 14 recursive shapes x 4 limits x 2 stack sizes in the binaries of the dependency-free crate harness-min, one process per case.",
   note="One listed finding: block self-recursion and deep super() chains overflow 2 MiB stacks in debug builds (pinned accounting); crash signatures naming the block edge are tolerated, all others are violations.",
   design="3/C11"),
 "C12": dict(
   technique="property-based testing: metamorphic relation over four configurations (Strict/SemiStrict/Lenient/Chainable renders of the same generated program), plus complete enumeration of the documented site x mode matrix",
   level="exploration",
   text="Generated programs (free-mode and a mostly-well-typed generator that plants undefined operands in every operand position) are rendered under the four undefined behaviours with a recording context; success under a stricter mode must imply success with byte-identical output under every weaker mode. The documented matrix (print / iterate / truth test / attribute-or-item access / is defined / is undefined / default) is enumerated over 40 syntactic sites x 4 kinds of undefined operand x 4 modes, plus 18 multi-template rows (the same sites after extends where output is discarded, at the top level of imported modules, in included templates, inherited and overriding blocks, call blocks, macro defaults), all of it under the default formatter and under a formatter installed with set_formatter. The matrix has `in`/`not in` as first, middle and last link of comparison chains.",
   note="The matrix rows are language sites; individual filters are only covered by the monotonicity relation (their strict-mode behaviour differs between filters and is not documented). debug() is excluded.",
   design="3/C12"),
 "C13": dict(
   technique="property-based testing: threshold oracle by bisection plus exhaustive budgets around the threshold and at the integer extremes, history invariants on fuel_levels, metamorphic additivity of fuel cost",
   level="exploration",
   text="For generated programs (macros, call blocks, includes, imports, recursive loops, inheritance, failing programs) (also loops that stop long before their iterable ends and programs in which a host callback re-enters the engine through State::render_block or Value::call) the success threshold T is bisected and every budget in [T-40, T+16], sampled budgets below and the extremes up to u64::MAX must give exactly the unlimited outcome (>= T) or an out-of-fuel error (< T); fuel_levels must add up to the budget, equal T-1 and be repeatable; fuel cost must be additive over sequences and linear in the number of nested evaluations. Inheritance chains are three templates deep with `super()` on two consecutive levels.",
   note="A budget of 400000 stands in for 'no limit' during bisection; more expensive programs are skipped.",
   design="3/C13"),
 "C14": dict(
   technique="property-based testing: generated failing templates (structured programs with failing pieces, character-level mutations, truncations), validity oracle on every located error of the cause chain, metamorphic relation under vertical/horizontal padding, enumerated planted errors with known lines",
   level="exploration",
   text="For every error of the cause chain that names a template the line must lie inside that template's source and a reported range must be a valid slice (bounds, char boundaries) on the reported line; inserting N lines above / M characters in front must shift line/range by exactly that and change nothing else; all formatting forms must complete. A division by zero planted in 29 expression positions and 16 failing statements that end their line (x surroundings x offsets, enumerated) must be reported on its own line; so must six prints that fail because of the escape mode of their template (JSON, a custom format). Further planted rows fail in instructions without a span of their own (not / inline-if on an undefined name under strict mode) inside every literal form, bare tuples with a trailing comma included.",
   note="Vertical shifts are only asserted while the padded template stays within 65 535 lines (the property's domain).",
   design="3/C14"),
 "C15": dict(
   technique="stateful (model-based) property testing: generated operation histories interpreted against the real Environment and an explicit contents model, compared after every step with a freshly built environment; loader-call log as history invariant; concurrent renders sampled",
   level="exploration",
   text="Histories over add/replace/remove templates in both stores (incl. sources that fail to compile, sources that fail at run time inside open captures), clear_templates, set_loader over a mutable shared store and edits of it, add/remove filter/test/global/function, clone, renders and compile_expression are applied step by step; after every step every template name must render exactly as in a fresh environment built from the model's contents, renders must be repeatable, the loader must not be asked for stored names, clones must keep their contents, and the final environment renders identically from up to 8 threads. A macro, a module macro or a namespace taken out of a finished render is used again on the thread that made it, on a fresh thread and on the calling thread: same outcome everywhere (144 cases, complete). Failing renders include one whose host context panics while being serialised (contained); the reference environment is built and rendered on a freshly started thread, so per-thread leftovers show.",
   note="Settings that only affect later-loaded templates are outside the histories. Thread interleavings are sampled.",
   design="3/C15"),
 "C16": dict(
   technique="property-based testing: round-trip oracle over generated serde shape trees (every variant/struct/map-key shape), identity oracle for embedded Values, differential of tojson / JSON auto-escape output against an independent strict RFC 8259 parser",
   level="exploration",
   text="Generated shape trees are instantiated through a Rust enum covering the serde data model and must satisfy T::deserialize(Value::from(Serde(&x))) == x (by-value and by-reference deserializer); structs embedding Values must expose the very same values (safe flag, undefined, object identity), also behind a field whose Serialize impl runs a nested Value conversion and inside enum variants that serde buffers (internally tagged enums, flatten); tojson (with/without indent, .txt/.html) and {{ v }} in .json templates must emit text that an independent strict JSON parser accepts and that equals the value under the stated equivalences, and tojson output must not contain < > & '. Both map implementations.",
   note="Trusts model/json.rs (unit tested). Integers above 64 bits and unit-vs-none are outside the round-trip domain as the property states.",
   design="3/C16"),
 "C17": dict(
   technique="property-based testing: complete enumeration of template names over the quantifier's segment alphabet plus proptest-generated noise names, validity oracle on the returned content against a scratch directory tree with canary files; safe_join additionally checked as a pure function",
   level="exploration",
   text="Every join of up to 5 segments of the 14-entry alphabet (579 194 names) and generated noise names are loaded through get_template, include, include-list, extends and import from a real directory tree whose files state their own relative path and whose surroundings hold OUTSIDE canaries; an Ok result must be the INSIDE file named by the non-empty, non-dot segments. safe_join (via the verif_hooks re-export) must return None or a path whose components are exactly those segments, for the scratch base and nine other spellings of a base (empty, relative, trailing separator, root). Names built from the scratch tree's own absolute path (the base, its parent, siblings whose name extends the base's name) are enumerated and generated as well. Files named like the base directory plus a suffix (.j2, .html, ~ ...) sit next to it.",
   note="Assumes Linux path semantics and no symlinks inside the base. Exhaustive only over the stated alphabet and length.",
   design="3/C17"),
 "C18": dict(
   technique="property-based testing: generated single-file templates rendered with a recording context object; one-directional inclusion oracle (keys the engine looked up, minus globals, must be contained in undeclared_variables)",
   level="exploration",
   text="A generator aimed at assignment shapes that read what they assign (set/with/set-block/macro defaults/loop targets/one-branch assignments/special names as plain variables), plus free-mode and tame programs, is rendered over random context subsets with an Object that logs every key requested (in 30 % of the cases after the template was loaded under custom delimiters and the environment syntax switched afterwards); the logged keys minus the environment's globals must be a subset of undeclared_variables(false) and of the first segments of undeclared_variables(true).",
   note="One direction only (over-approximation is allowed). Debug mode off. Three listed findings: a macro's own name is enclosed (looked up) at declaration; a block rendered through self.b() from a macro reads template-level names from the context; loop() recursion from inside a call block runs on the macro context.",
   design="3/C18"),
 "C19": dict(
   technique="fault injection with property-based program generation: for every generated program the output sink is made to fail at every write position (every k up to the number of writes) with several error kinds, short writes and interrupted writes; prefix/no-write-after-error/error-source oracle against the payload sequence of a never-failing sink",
   level="fault_enumeration",
   text="Each generated program (named .txt/.html/.json/.yaml: no, HTML and JSON auto-escaping; text, numeric fast paths, escaping, macros, call blocks, includes, captures, recursive loops, inheritance, self-failing programs) is first rendered into a recording sink; then the sink fails at the k-th write for every k (sampled beyond 96 writes) and the bytes received, the absence of later writes, the returned ErrorKind::WriteFailure and its io::Error source are checked; render_captured_to and State::render_block_to_write. Printed containers hold strings that need escape sequences, so that sink failures fall between the pieces of a quoted literal.",
   note="Assumes the write sequence of a render is deterministic (verified per case against render()).",
   design="3/C19"),
 "C20": dict(
   technique="schedule enumeration as property-based testing: every placement of up to 3 reload requests at the lock-granularity yield points of up to 3 acquire_env calls (through feature-guarded hooks) x option combinations, history invariant over a logical clock; proptest for longer schedules; real threads: a stress run as smoke test and 2-4 acquirers queued behind a held guard with 0-2 pending requests (at most one rebuild per request under any interleaving) and a request issued from a second thread while the first one sits in the freshness callback (never lost)",
   level="exploration",
   text="All schedules of up to 3 acquires and up to 3 requests (placed before the acquire, after the cache lock, between check and flag reset, between reset and creator, inside the creator, after the rebuild, before return, under the held guard) x fast reload x freshness callback x failing creator (returning an error, or panicking with the panic contained) are executed against the real AutoReloader; for every request that returned at logical time t the first successful acquire started after t must return an environment whose creator started (or whose cache was cleared) after t; the environment must not change under a held guard; no rebuild without a request.",
   note="Interleavings are produced deterministically on one thread through the yield-point callback (the notifier lock is not held at those points); preemption inside a critical section is not modelled. The thread stress part only samples.",
   design="3/C20"),
}

NOT_YET = "check not built yet in this session (work in progress; see DESIGN.md section 3 for the planned check)"
ALL = ["C%02d" % i for i in range(1, 21)]

def main():
    hooks_commits = subprocess.run(["git", "-C", "/repo", "log", "--format=%H %s"], capture_output=True, text=True).stdout.splitlines()
    hooks = [l.split()[0] for l in hooks_commits if " verif_hooks:" in l]
    m = {
      "version": 1,
      "setup_cmd": "./setup.sh",
      "hooks": {
        "guard": "verif_hooks (cargo feature on crates minijinja and minijinja-autoreload; off by default and not part of any default feature set)",
        "enable": "harness/Cargo.toml depends on /repo/minijinja and /repo/minijinja-autoreload by path with features = [..., \"verif_hooks\"]",
        "baseline_off_cmd": "cd /repo && cargo test --workspace --no-fail-fast --offline",
        "source_commits": hooks,
        "add_only": True,
      },
      "engines": [
        {"name": "mjv", "path": "harness/", "serves_properties": sorted(CHECKS),
         "kind_free_text": "Rust harness: proptest-driven generators + explicit oracles (reference models, differential, metamorphic), sharded over 16 threads, with shrinking to replay files"},
      ],
      "checks": [],
      "not_applicable": [],
      "notes": "All checks: ./check <id> quick|thorough, replay with ./check <id> --replay <file>. Exit 2 = inconclusive (build failure / harness trouble), never a verdict. Known findings live in known_findings.json.",
    }
    for pid in ALL:
        if pid in CHECKS:
            c = CHECKS[pid]
            m["checks"].append({
              "property_id": pid,
              "quick_cmd": f"./check {pid} quick",
              "thorough_cmd": f"./check {pid} thorough",
              "evidence_file": f"/verif/evidence/{pid}.json",
              "replay_cmd_template": f"./check {pid} --replay {{path}}",
              "engine": "mjv",
              "level_claimed": {"category": c["level"], "text": c["text"], "design_ref": c["design"]},
              "level_note": c["note"],
              "technique": c["technique"],
            })
        else:
            m["not_applicable"].append({"property_id": pid, "reason": NOT_YET})
    json.dump(m, open(os.path.join(ROOT, "MANIFEST.json"), "w"), indent=1)
    try:
        import jsonschema
        jsonschema.validate(m, json.load(open("/root/.vp/MANIFEST.schema.json")))
        print("MANIFEST.json valid;", len(m["checks"]), "checks")
    except ImportError:
        print("jsonschema not available; not validated")

main()
