#!/usr/bin/env python3
"""Runs every seeded change under /verif/seeded/<Cxx>/<n>/ against its property's quick check
(apply to /repo, ./check, revert), writes result.json next to each patch, seeded/RESULTS.md and
fills the table in DESIGN.md (between the SEEDED_TABLE markers).

usage: seeded_report.py [Cxx ...]
"""
import glob, json, os, re, subprocess, sys

ROOT = os.environ.get("VERIF_ROOT", "/verif")
REPO = os.environ.get("VERIF_REPO", "/repo")
# outcome of the checks as they were when the change was first tried (before any strengthening)
FIRST = {
    "C01/1": "missed", "C01/2": "missed", "C05/2": "missed", "C06/1": "missed", "C06/2": "missed",
    "C07/2": "missed", "C10/2": "missed", "C11/1": "missed", "C12/2": "missed", "C03/4": "missed", "C12/3": "missed", "C01/3": "missed", "C05/3": "missed",
    # round 4 (13 of 20 missed by the checks as they were when the change was made)
    "C01/4": "missed", "C03/5": "missed", "C05/4": "missed", "C06/4": "missed", "C07/4": "missed", "C09/4": "missed", "C10/4": "missed",
    "C11/4": "missed", "C12/4": "missed", "C16/4": "missed", "C17/4": "missed", "C18/4": "missed", "C19/4": "missed", "C20/4": "missed",
    # round 5 (12 of 20 missed)
    "C01/5": "missed", "C02/5": "missed", "C03/6": "missed", "C04/5": "missed", "C05/5": "missed", "C06/5": "missed", "C09/5": "missed",
    "C12/5": "missed", "C13/5": "missed", "C14/6": "missed", "C15/5": "missed", "C20/5": "missed",
    # round 6 (11 of 20 missed)
    "C02/6": "missed", "C03/7": "missed", "C06/6": "missed", "C09/6": "missed", "C11/6": "missed", "C12/6": "missed", "C13/6": "missed",
    "C15/6": "missed", "C16/6": "missed", "C18/6": "missed", "C20/6": "missed",
    # round 7 (9 changes, 6 missed)
    "C01/7": "missed", "C04/7": "missed", "C05/7": "missed", "C10/7": "missed", "C14/8": "missed", "C17/7": "missed",
    # round 8 (11 changes, 6 missed)
    "C02/7": "missed", "C03/8": "missed", "C11/7": "missed", "C12/7": "missed", "C13/7": "missed", "C15/7": "missed",
    # round 9 (8 changes, 2 missed)
    "C07/8": "missed", "C19/8": "missed",
    # round 10 (11 changes, 8 missed; 4 of them closed, 4 left open for lack of time)
    "C01/8": "missed", "C02/8": "missed", "C03/9": "missed", "C05/8": "missed", "C10/8": "missed", "C12/8": "missed", "C14/9": "missed", "C17/8": "missed",
}


def sh(*a, **k):
    return subprocess.run(list(a), capture_output=True, text=True, **k)


def main():
    want = set(sys.argv[1:])
    rows = []
    for d in sorted(glob.glob(f"{ROOT}/seeded/C*/*/")):
        item = "/".join(d.rstrip("/").split("/")[-2:])
        prop = item.split("/")[0]
        meta = json.load(open(d + "meta.json"))
        res_path = d + "result.json"
        if (not want or prop in want) and os.path.exists(d + "patch.diff"):
            if sh("git", "-C", REPO, "status", "--porcelain").stdout.strip():
                print("/repo not clean"); sys.exit(3)
            if sh("git", "-C", REPO, "apply", d + "patch.diff").returncode != 0:
                res = {"status": "patch does not apply"}
            else:
                try:
                    r = sh(f"{ROOT}/check", prop, "quick")
                finally:
                    sh("git", "-C", REPO, "checkout", "--", ".")
                lines = [l for l in (r.stdout + r.stderr).splitlines() if l.startswith(("signature", "VIOLATION"))]
                sigs = sorted({l.split(":", 1)[1].strip()[:90] for l in lines if l.startswith("signature")})
                res = {"status": {0: "missed", 1: "reported", 2: "inconclusive"}.get(r.returncode, str(r.returncode)),
                       "exit": r.returncode, "signatures": sigs[:4]}
            res["first_outcome"] = FIRST.get(item, "reported")
            json.dump(res, open(res_path, "w"), indent=1)
            print(item, res["status"], res.get("signatures", [])[:1])
        res = json.load(open(res_path)) if os.path.exists(res_path) else {"status": "not run", "first_outcome": FIRST.get(item, "?")}
        base = open(d + "baseline.txt").read().splitlines()[0] if os.path.exists(d + "baseline.txt") else "not confirmed"
        m = re.search(r"passed (\d+) failed (\d+)", base)
        valid = "yes" if m and m.group(2) == "0" else ("NO: fails existing tests (" + m.group(2) + ")" if m else "?")
        rows.append((item, meta.get("summary", "").replace("|", "/").replace("\n", " ")[:150], valid, res.get("first_outcome", "?"), res["status"],
                     "; ".join(res.get("signatures", [])[:2]).replace("|", "/")[:90]))
    table = ["| Change | What was changed | Passes the repository's tests | Checks as first committed | Now | Reported as |", "|---|---|---|---|---|---|"]
    for r in rows:
        table.append("| " + " | ".join(r) + " |")
    text = "\n".join(table)
    open(f"{ROOT}/seeded/RESULTS.md", "w").write("# Seeded changes: which check reports which change\n\n" + text + "\n")
    p = f"{ROOT}/DESIGN.md"
    s = open(p).read()
    if "SEEDED_TABLE" in s:
        s = s.replace("SEEDED_TABLE", "<!-- seeded-table-begin -->\n" + text + "\n<!-- seeded-table-end -->")
    else:
        s = re.sub(r"<!-- seeded-table-begin -->.*?<!-- seeded-table-end -->", lambda m: "<!-- seeded-table-begin -->\n" + text + "\n<!-- seeded-table-end -->", s, flags=re.S)
    open(p, "w").write(s)
    print("written", len(rows), "rows")


if __name__ == "__main__":
    main()
