#!/bin/bash
# allquick.sh [seed...] — every quick check with every given seed (default seed if none); prints one line per run
cd /verif
seeds=("$@"); [ ${#seeds[@]} -eq 0 ] && seeds=("")
for s in "${seeds[@]}"; do
  for i in 01 02 03 04 05 06 07 08 09 10 11 12 13 14 15 16 17 18 19 20; do
    if [ -n "$s" ]; then out=$(VERIF_SEED=$s ./check C$i quick 2>&1); else out=$(./check C$i quick 2>&1); fi
    rc=$?
    echo "C$i seed=${s:-default} exit=$rc $(echo "$out" | grep -E '^(OK|VIOLATION|INCONCLUSIVE)' | head -2 | tr '\n' ' ' | cut -c1-200)"
  done
done
