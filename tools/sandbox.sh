#!/bin/bash
# sandbox.sh <name>   — a private copy of /verif (without git metadata) plus a scratch worktree of /repo's HEAD
# under /tmp/sbx-<name>, with the harness' path dependencies pointed at that worktree, so that long
# runs which patch the repository (seeded report, sensitivity suite) do not occupy /repo itself.
# Prints the sandbox directory. Remove with: sandbox.sh --remove <name>
set -eu
if [ "${1:-}" = "--remove" ]; then
  d=/tmp/sbx-$2
  git -C /repo worktree remove --force "$d/repo" 2>/dev/null || true
  rm -rf "$d"
  exit 0
fi
d=/tmp/sbx-$1
mkdir -p "$d"
git -C /repo worktree add --detach "$d/repo" HEAD -q
rsync -a --exclude .git --exclude '/out/' --exclude '/harness/fuzz/target' /verif/ "$d/verif/"
sed -i "s#\"/repo/#\"$d/repo/#g" "$d/verif/harness/Cargo.toml" "$d/verif/harness/fuzz/Cargo.toml" "$d/verif/harness-min/Cargo.toml"
echo "$d"
