#!/usr/bin/env python3
"""Negative controls: changes to minijinja that do NOT break the listed properties (they change
behaviour the properties leave open). Every check named for a control must stay green (exit 0);
an alarm here would be a false alarm of the machinery. Results: /verif/seeded/negative_controls.json.

usage: negative_controls.py [name-substring ...]
"""
import json, os, subprocess, sys, time

M = "minijinja/src/"
CONTROLS = [
    # (name, [checks that must stay silent], file, old, new)
    ("fuel: the Iterate instruction costs 2 units instead of 1", ["C13"], M + "vm/fuel.rs",
     "        Instruction::ExportLocals => 0,", "        Instruction::ExportLocals => 0,\n        Instruction::Iterate(_) => 2,"),
    ("error wording: 'filter X is unknown' reworded", ["C01", "C12", "C14", "C19"], M + "vm/mod.rs",
     "format!(\"filter {} is unknown\", normalized_name.as_ref()),", "format!(\"no filter named {}\", normalized_name.as_ref()),"),
    ("undeclared_variables over-approximates (always also reports `extra_name`)", ["C18"], M + "template.rs",
     "            Ok(ast) => find_undeclared(&ast, nested),", "            Ok(ast) => {\n                let mut rv = find_undeclared(&ast, nested);\n                rv.insert(\"extra_name\".to_string());\n                rv\n            }"),
    ("path loader maps every I/O error to 'template missing'", ["C17"], M + "loader.rs",
     "            Err(err) if err.kind() == io::ErrorKind::NotFound => Ok(None),", "            Err(_) => Ok(None),\n            #[allow(unreachable_patterns)]\n            Err(err) if err.kind() == io::ErrorKind::NotFound => Ok(None),"),
    ("HTML escaper spells the apostrophe &#39; instead of &#x27;", ["C02", "C05"], M + "utils.rs",
     "                        b'\\'' => escaping_body!(\"&#x27;\"),", "                        b'\\'' => escaping_body!(\"&#39;\"),"),
    ("path loader additionally rejects names containing a double dot anywhere", ["C17"], M + "loader.rs",
     "if segment.starts_with('.') || segment.contains('\\\\') {", "if segment.starts_with('.') || segment.contains('\\\\') || segment.contains(\"..\") {"),
    ("recursion: a macro call costs 5 depth units instead of 4", ["C11"], M + "vm/mod.rs",
     "const MACRO_RECURSION_COST: usize = 4;", "const MACRO_RECURSION_COST: usize = 5;"),
    ("auto-reloader: request_reload() issued twice internally (idempotent flag)", ["C20"], "minijinja-autoreload/src/lib.rs",
     "                        self.notifier.request_reload();\n                        return Err(err);", "                        self.notifier.request_reload();\n                        self.notifier.request_reload();\n                        return Err(err);"),
]


def main():
    want = sys.argv[1:]
    out_path = "/verif/seeded/negative_controls.json"
    results = json.load(open(out_path)) if os.path.exists(out_path) else []
    for name, checks, rel, old, new in CONTROLS:
        if want and not any(w in name for w in want):
            continue
        if subprocess.run(["git", "-C", "/repo", "status", "--porcelain"], capture_output=True, text=True).stdout.strip():
            print("/repo not clean"); sys.exit(3)
        p = "/repo/" + rel
        s = open(p).read()
        if s.count(old) != 1:
            print(name, "SITE NOT FOUND", s.count(old)); continue
        open(p, "w").write(s.replace(old, new))
        row = {"control": name, "file": rel, "checks": {}}
        try:
            for c in checks:
                t0 = time.time()
                r = subprocess.run(["/verif/check", c, "quick"], capture_output=True, text=True)
                lines = [l for l in (r.stdout + r.stderr).splitlines() if l.startswith(("VIOLATION", "signature", "INCONCLUSIVE", "error"))]
                row["checks"][c] = {"status": {0: "silent", 1: "FALSE ALARM", 2: "inconclusive"}.get(r.returncode, str(r.returncode)), "lines": lines[:3], "wall_s": round(time.time() - t0)}
                print(name, "|", c, "|", row["checks"][c]["status"], "|", lines[:1])
        finally:
            subprocess.run(["git", "-C", "/repo", "checkout", "--", rel])
        results = [r for r in results if r["control"] != name] + [row]
        json.dump(results, open(out_path, "w"), indent=1)


if __name__ == "__main__":
    main()
