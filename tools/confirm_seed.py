#!/usr/bin/env python3
"""confirm_seed.py <Cxx> <worktree> [--keep]

Takes a seeding sub-agent's delivery (<worktree>/SEED/{patch.diff,demo.rs,meta.json}), confirms it
independently in that scratch worktree and files it as /verif/seeded/<Cxx>/<n>/:
  1. clean checkout + `git apply patch.diff`
  2. `cargo test --workspace --no-fail-fast --offline` with the change  -> baseline.txt (must be 0 failed)
  3. the demo with the change (must fail) and without it (must pass)      -> demo_check.txt
The worktree and its build output are removed afterwards (unless --keep).
Exit 0 = confirmed and filed, 1 = not confirmed (filed with status in confirm.json), 2 = usage/infrastructure.
"""
import json, os, re, shutil, subprocess, sys

def sh(cmd, cwd=None, env=None, timeout=3600):
    e = dict(os.environ); e["CARGO_NET_OFFLINE"] = "true"
    if env: e.update(env)
    return subprocess.run(cmd, shell=True, cwd=cwd, env=e, capture_output=True, text=True, timeout=timeout)

def main():
    if len(sys.argv) < 3:
        print(__doc__); sys.exit(2)
    prop, wt = sys.argv[1], sys.argv[2].rstrip("/")
    keep = "--keep" in sys.argv
    seed = f"{wt}/SEED"
    redo = None
    if "--from" in sys.argv:
        # re-confirm an already filed change in a fresh scratch worktree
        redo = sys.argv[sys.argv.index("--from") + 1].rstrip("/")
        sh(f"git -C /repo worktree add --detach {wt} HEAD -q")
        shutil.copytree(redo, seed)
    for f in ("patch.diff", "demo.rs", "meta.json"):
        if not os.path.exists(f"{seed}/{f}"):
            print(f"missing {seed}/{f}"); sys.exit(2)
    base = f"/verif/seeded/{prop}"
    os.makedirs(base, exist_ok=True)
    n = 1
    while os.path.exists(f"{base}/{n}"):
        n += 1
    dst = f"{base}/{n}"
    if redo:
        dst = redo
    tmp = f"/tmp/seedcopy-{prop}"
    shutil.rmtree(tmp, ignore_errors=True)
    shutil.copytree(seed, tmp)
    env = {"CARGO_TARGET_DIR": f"{wt}/target"}
    # 1. clean tree + patch
    sh("git checkout -q -- . && git clean -fdq -e target", cwd=wt)
    r = sh(f"git apply {tmp}/patch.diff", cwd=wt)
    status = {"property": prop, "applies": r.returncode == 0}
    if r.returncode != 0:
        status["error"] = r.stderr[-400:]
    else:
        # 2. the repository's own suite with the change
        t = sh("cargo test --workspace --no-fail-fast --offline", cwd=wt, env=env)
        out = t.stdout + t.stderr
        passed = sum(int(m.group(1)) for m in re.finditer(r"^test result: \w+\. (\d+) passed", out, re.M))
        failed = sum(int(m.group(1)) for m in re.finditer(r"^test result: .*?(\d+) failed", out, re.M))
        errs = len(re.findall(r"^error", out, re.M))
        status.update(tests_passed=passed, tests_failed=failed, compile_errors=errs, tests_exit=t.returncode)
        baseline = f"cargo test --workspace --no-fail-fast --offline with the patch applied: passed {passed} failed {failed}; compile errors: {errs}\n"
        baseline += "".join(l + "\n" for l in re.findall(r"^test .*FAILED$", out, re.M)[:5])
        # 3. the demo, both directions
        demo = open(f"{tmp}/demo.rs").read()
        # the build command from the demo's header comment (backslash continuations joined)
        flat = re.sub(r"\\\s*\n\s*(//[/!]?)?\s*", " ", demo)
        m = re.search(r"cargo run[^\n]*", flat)
        line = m.group(0) if m else ""
        pkg = (re.search(r"-p\s+(\S+)", line) or re.search(r"--package\s+(\S+)", line))
        pkg = pkg.group(1) if pkg else "minijinja"
        ex = re.search(r"--example\s+(\S+)", line)
        ex = ex.group(1) if ex else "seed_demo"
        feats = re.search(r"--features[= ]\s*(\"[^\"]*\"|'[^']*'|\S+)", line)
        feats = feats.group(1).strip("\"'") if feats else ""
        allf = "--all-features" in line
        nodef = "--no-default-features" in line
        os.makedirs(f"{wt}/{pkg}/examples", exist_ok=True)
        shutil.copy(f"{tmp}/demo.rs", f"{wt}/{pkg}/examples/{ex}.rs")
        cmd = f"cargo run -q --offline -p {pkg} --example {ex}" + (f" --features '{feats}'" if feats else "") + (" --all-features" if allf else "") + (" --no-default-features" if nodef else "")
        with_ = sh(cmd, cwd=wt, env=env, timeout=1800)
        sh(f"git apply -R {tmp}/patch.diff", cwd=wt)
        without = sh(cmd, cwd=wt, env=env, timeout=1800)
        def verdict(r):
            o = (r.stdout + r.stderr)
            return {"exit": r.returncode, "says_pass": "PASS" in o and "FAIL" not in o, "tail": o[-600:]}
        status["demo_cmd"] = cmd
        status["demo_with_change"] = verdict(with_)
        status["demo_without_change"] = verdict(without)
        status["confirmed"] = (failed == 0 and errs == 0 and passed > 300 and t.returncode == 0
                               and with_.returncode != 0 and without.returncode == 0)
        open(f"{tmp}/baseline.txt", "w").write(baseline)
        open(f"{tmp}/demo_check.txt", "w").write(
            f"{cmd}\nwith the change: exit {with_.returncode}\n{(with_.stdout + with_.stderr)[-800:]}\n\nwithout the change: exit {without.returncode}\n{(without.stdout + without.stderr)[-400:]}\n")
    json.dump(status, open(f"{tmp}/confirm.json", "w"), indent=1)
    for junk in ("test.log",):
        if os.path.exists(f"{tmp}/{junk}"):
            os.remove(f"{tmp}/{junk}")
    if redo:
        shutil.rmtree(dst)
    shutil.copytree(tmp, dst)
    shutil.rmtree(tmp, ignore_errors=True)
    if not keep:
        sh(f"git -C /repo worktree remove --force {wt}")
        shutil.rmtree(wt, ignore_errors=True)
    print(f"{prop}/{n}: " + json.dumps({k: v for k, v in status.items() if k in ("applies", "tests_passed", "tests_failed", "compile_errors", "confirmed")}),
          "demo with:", status.get("demo_with_change", {}).get("exit"), "without:", status.get("demo_without_change", {}).get("exit"))
    sys.exit(0 if status.get("confirmed") else 1)

main()
