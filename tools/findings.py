#!/usr/bin/env python3
"""Maintains /verif/known_findings.json (never touched at check run time).
usage:
  findings.py fixed <id> <property> <commit> <signature> <part> '<witness case json>' <what...>
  findings.py open  <id> <property> <signature> <part> '<witness case json>' <what...>
"""
import json, os, sys
ROOT = os.path.dirname(os.path.dirname(os.path.abspath(__file__)))
P = os.path.join(ROOT, "known_findings.json")
d = json.load(open(P)) if os.path.exists(P) else {"findings": [], "log": []}
kind = sys.argv[1]
if kind == "fixed":
    fid, prop, commit, sig, part, wit = sys.argv[2:8]; what = " ".join(sys.argv[8:])
    ent = {"id": fid, "property": prop, "status": "fixed", "signature": sig, "what": what, "part": part,
           "witness": json.loads(wit) if wit != "-" else None, "commit": commit}
    line = f"fixed: property={prop} {commit} {what}"
else:
    fid, prop, sig, part, wit = sys.argv[2:7]; what = " ".join(sys.argv[7:])
    ent = {"id": fid, "property": prop, "status": "open", "signature": sig, "what": what, "part": part,
           "witness": json.loads(wit) if wit != "-" else None, "commit": None}
    line = f"open: property={prop} {what}"
d["findings"] = [f for f in d["findings"] if f["id"] != fid] + [ent]
d["log"] = [l for l in d["log"] if f" {what}" not in l] + [line]
json.dump(d, open(P, "w"), indent=1)
print(line)
