#!/usr/bin/env python3
"""Sensitivity suite: deliberate breakages of the mechanisms each check claims to guard.

For every entry: apply the textual mutation to /repo's working tree, run the property's quick
check, revert, and record whether the check reported a violation. A check that stays green
against one of these is decoration. Results go to /verif/seeded/sensitivity.json.

usage: sensitivity.py [Cxx ...]      (default: all)
"""
import json, os, subprocess, sys, time

M = "minijinja/src/"
MUTATIONS = [
    # (property, name, file, old, new)
    ("C01", "string repeat limit removed", M + "value/ops.rs",
     "Some(len) if len <= MAX_REPEATED_STRING_LEN)", "Some(len) if len <= usize::MAX)"),
    ("C01", "divisibleby(0) panics again", M + "tests.rs", None, None),  # handled by reverting the fix commit
    ("C02", "string filters always return safe strings", M + "value/argtypes.rs",
     "        if self.safe {\n            Value::from_safe_string(value)", "        if true || self.safe {\n            Value::from_safe_string(value)"),
    ("C02", "apostrophe dropped from the escape pre-scan", M + "utils.rs",
     "matches!(b, b'<' | b'>' | b'&' | b'\"' | b'\\'' | b'/')", "matches!(b, b'<' | b'>' | b'&' | b'\"' | b'/')"),
    ("C03", "loop.revindex0 off by one", M + "vm/loop_object.rs",
     "len.saturating_sub(idx).saturating_sub(1)", "len.saturating_sub(idx)"),
    ("C03", "with evaluates all values before binding", M + "compiler/codegen.rs",
     "                for (target, expr) in &with_block.assignments {\n                    self.compile_expr(expr);\n                    self.compile_assignment(target);\n                }",
     "                for (_target, expr) in &with_block.assignments {\n                    self.compile_expr(expr);\n                }\n                for (target, _expr) in with_block.assignments.iter().rev() {\n                    self.compile_assignment(target);\n                }"),
    ("C04", "constant folder tests containment with swapped operands", M + "compiler/ast.rs",
     "        CompareOpKind::In => ops::contains(right, left).ok(),", "        CompareOpKind::In => ops::contains(left, right).ok(),"),
    ("C04", "constant folder subtracts with swapped operands when the left one is zero", M + "compiler/ast.rs",
     "        BinOpKind::Sub => ops::sub(left, right).ok(),", "        BinOpKind::Sub => if left == &Value::from(0) { ops::sub(right, left).ok() } else { ops::sub(left, right).ok() },"),
    ("C05", "PopFrame after with dropped", M + "compiler/codegen.rs",
     "                #[cfg(feature = \"loop_controls\")]\n                self.end_scope();\n                self.add(Instruction::PopFrame);\n            }\n            ast::Stmt::Set(set) => {",
     "                #[cfg(feature = \"loop_controls\")]\n                self.end_scope();\n            }\n            ast::Stmt::Set(set) => {"),
    ("C06", "include list stops at the first missing name", M + "vm/mod.rs",
     "                        templates_tried.push(choice);\n                    } else {\n                        return Err(err);\n                    }\n                    continue;",
     "                        templates_tried.push(choice);\n                    } else {\n                        return Err(err);\n                    }\n                    break;"),
    ("C06", "from-import assigns in source order", M + "compiler/codegen.rs",
     "for (name, alias) in from_import.names.iter().rev() {", "for (name, alias) in from_import.names.iter() {"),
    ("C06", "parent blocks inserted below the wrong level", M + "vm/state.rs",
     "        self.instructions.push(instructions);\n    }\n}",
     "        self.instructions.insert(self.instructions.len().saturating_sub(1), instructions);\n    }\n}"),
    ("C08", "float remainder truncates", M + "value/ops.rs",
     "Some(CoerceResult::F64(a, b)) => Ok(a.rem_euclid(b).into()),", "Some(CoerceResult::F64(a, b)) => Ok((a % b).into()),"),
    ("C08", "integer multiplication wraps", M + "value/ops.rs",
     "Some(CoerceResult::I128(a, b)) => match a.checked_mul(b) {", "Some(CoerceResult::I128(a, b)) => match Some(a.wrapping_mul(b)) {"),
    ("C09", "negative start clamps one too far", M + "value/ops.rs",
     "std::cmp::max(0, end as i64 + start) as usize", "std::cmp::max(0, end as i64 + start + 1) as usize"),
    ("C10", "trim_blocks eats two newlines", M + "compiler/lexer.rs",
     "            if self.rest_bytes().get(0) == Some(&b'\\n') {\n                self.advance(1);\n            }\n        }\n    }\n\n    fn handle_tail_ws",
     "            if self.rest_bytes().get(0) == Some(&b'\\n') {\n                self.advance(1);\n            }\n            if self.rest_bytes().get(0) == Some(&b'\\n') {\n                self.advance(1);\n            }\n        }\n    }\n\n    fn handle_tail_ws"),
    ("C11", "macro recursion cost 4 -> 1", M + "vm/mod.rs",
     "const MACRO_RECURSION_COST: usize = 4;", "const MACRO_RECURSION_COST: usize = 1;"),
    ("C11", "include recursion cost 10 -> 1", M + "vm/mod.rs",
     "const INCLUDE_RECURSION_COST: usize = 10;", "const INCLUDE_RECURSION_COST: usize = 1;"),
    ("C12", "chained access on undefined allowed in lenient mode", M + "utils.rs",
     "            | (UndefinedBehavior::Chainable, _) => Ok(Value::UNDEFINED),\n            (UndefinedBehavior::Lenient, true)\n            | (UndefinedBehavior::Strict, true)",
     "            | (UndefinedBehavior::Lenient, true)\n            | (UndefinedBehavior::Chainable, _) => Ok(Value::UNDEFINED),\n            (UndefinedBehavior::Strict, true)"),
    ("C13", "out-of-fuel only below zero (threshold no longer consumed + 1)", M + "vm/fuel.rs",
     "            if self.remaining <= 0 {", "            if self.remaining < 0 {"),
    ("C13", "remaining fuel reported one too high", M + "vm/fuel.rs",
     "        self.initial.saturating_sub(self.consumed())", "        self.initial.saturating_sub(self.consumed()).saturating_add(1)"),
    ("C14", "carriage returns counted as lines of their own", M + "compiler/lexer.rs",
     "                '\\n' => {\n                    self.current_line = self.current_line.saturating_add(1);",
     "                '\\n' | '\\r' => {\n                    self.current_line = self.current_line.saturating_add(1);"),
    ("C15", "remove_template only touches the borrowed store", M + "loader.rs",
     "        self.borrowed_templates.remove(name);\n        self.owned_templates.remove(name);", "        self.borrowed_templates.remove(name);"),
    ("C16", "tojson does not replace the apostrophe", M + "filters.rs",
     "                    '\\'' => rv.push_str(\"\\\\u0027\"),", ""),
    ("C17", "only `..` segments rejected", M + "loader.rs",
     "if segment.starts_with('.') || segment.contains('\\\\') {", "if segment == \"..\" || segment.contains('\\\\') {"),
    ("C18", "test arguments not visited", M + "compiler/meta.rs",
     "            tracker_visit_expr(&expr.expr, state);\n            expr.args\n                .iter()\n                .for_each(|x| tracker_visit_callarg(x, state));\n        }\n        ast::Expr::GetAttr(expr) => {",
     "            tracker_visit_expr(&expr.expr, state);\n        }\n        ast::Expr::GetAttr(expr) => {"),
    ("C19", "sink error replaced by the formatting error", M + "output.rs",
     "            .unwrap_or(original)\n    }", "            .map(|_| original)\n            .unwrap_or_else(|| Error::new(ErrorKind::WriteFailure, \"lost\"))\n    }"),
    ("C20", "reload flag not cleared before the rebuild (cleared never)", "minijinja-autoreload/src/lib.rs",
     "        handle.lock().unwrap().should_reload = false;\n        Ok(weak_notifier)", "        Ok(weak_notifier)"),
]


def run(prop):
    r = subprocess.run(["/verif/check", prop, "quick"], capture_output=True, text=True)
    lines = [l for l in (r.stdout + r.stderr).splitlines() if l.startswith(("VIOLATION", "signature", "INCONCLUSIVE", "error"))]
    return r.returncode, lines[:4]


def main():
    want = set(sys.argv[1:])
    out_path = "/verif/seeded/sensitivity.json"
    results = json.load(open(out_path)) if os.path.exists(out_path) and want else []
    for prop, name, rel, old, new in MUTATIONS:
        if want and prop not in want:
            continue
        if subprocess.run(["git", "-C", "/repo", "status", "--porcelain"], capture_output=True, text=True).stdout.strip():
            print("/repo not clean"); sys.exit(3)
        t0 = time.time()
        if old is None:
            # revert the fix commit that repaired this defect
            c = subprocess.run(["git", "-C", "/repo", "log", "--format=%h", "--grep=divisibleby"], capture_output=True, text=True).stdout.split()[0]
            d = subprocess.run(["git", "-C", "/repo", "diff", c + "~1", c, "--", "minijinja/src"], capture_output=True, text=True).stdout
            subprocess.run(["git", "-C", "/repo", "apply", "-R"], input=d, text=True, check=True)
            files = ["."]
        else:
            p = "/repo/" + rel
            s = open(p).read()
            if s.count(old) != 1:
                results.append({"property": prop, "mutation": name, "status": f"site not found ({s.count(old)} matches)"})
                print(prop, name, "SITE NOT FOUND", s.count(old)); continue
            open(p, "w").write(s.replace(old, new))
            files = [rel]
        try:
            rc, lines = run(prop)
        finally:
            subprocess.run(["git", "-C", "/repo", "checkout", "--"] + files)
        status = {1: "reported", 0: "MISSED", 2: "inconclusive"}.get(rc, str(rc))
        results = [r for r in results if not (r["property"] == prop and r["mutation"] == name)]
        results.append({"property": prop, "mutation": name, "file": rel, "status": status, "first_lines": lines, "wall_s": round(time.time() - t0)})
        print(prop, "|", name, "|", status, "|", lines[:1])
        json.dump(results, open(out_path, "w"), indent=1)


if __name__ == "__main__":
    main()
