#!/usr/bin/env python3
"""mkreg.py <property> <part> <name> <signature> '<case json>' [detail]
Writes /verif/replays/<property>/reg-<name>.json (a committed regression case)."""
import json, sys, os
prop, part, name, sig, case = sys.argv[1:6]
detail = sys.argv[6] if len(sys.argv) > 6 else ""
d = os.path.join(os.path.dirname(os.path.dirname(os.path.abspath(__file__))), "replays", prop)
os.makedirs(d, exist_ok=True)
p = os.path.join(d, f"reg-{name}.json")
json.dump({"property": prop, "part": part, "tier": "quick", "seed": 0,
           "case": json.loads(case), "signature": sig, "detail": detail},
          open(p, "w"), indent=1)
print(p)
