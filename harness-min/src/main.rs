//! mjv-min <shape> <limit> <stack_kib>: renders one recursive program shape with the engine built
//! with a reduced feature set and prints one line: `ok`, `limit`, `unsupported` or `err:<text>`.
//! A native stack overflow kills the process; the caller (the C11 part `reduced_feature_sets` of
//! the main harness) sees the signal.
use minijinja::{Environment, Value};

const MACROS: bool = cfg!(feature = "macros");
const MULTI: bool = cfg!(feature = "multi_template");

/// (needs macros, needs multi_template, main template "t", companion "u")
pub const SHAPES: [(bool, bool, &str, &str); 14] = [
    (true, false, "{% macro m(n) %}{{ m(n + 1) }}{% endmacro %}{{ m(0) }}", ""),
    (true, false, "{% macro a(n) %}{{ b(n) }}{% endmacro %}{% macro b(n) %}{{ a(n + 1) }}{% endmacro %}{{ a(0) }}", ""),
    (true, false, "{% macro w() %}{{ caller() }}{% endmacro %}{% macro m(n) %}{% call w() %}{{ m(n + 1) }}{% endcall %}{% endmacro %}{{ m(0) }}", ""),
    (true, false, "{% macro m(n) %}{% for q in [1] %}{% with z = n %}{{ m(z + 1) }}{% endwith %}{% endfor %}{% endmacro %}{{ m(0) }}", ""),
    (true, false, "{% macro m(n) %}{% set c %}{{ m(n + 1) }}{% endset %}{{ c }}{% endmacro %}{{ m(0) }}", ""),
    (true, false, "{% macro m(n) %}{% if n < 40 %}{{ m(n + 1) }}{% endif %}x{% endmacro %}{{ m(0) }}", ""),
    (true, false, "{% macro m(n) %}{{ m(n + 1) }}{% endmacro %}{% for q in [1, 2] %}{% if q == 2 %}{{ m(0) }}{% endif %}{% endfor %}", ""),
    (true, false, "{% macro w() %}{{ caller(1) }}{% endmacro %}{% macro m(n) %}{% call(v) w() %}{{ m(n + v) }}{% endcall %}{% endmacro %}{% set out = m(0) %}{{ out }}", ""),
    (false, false, "{% for x in data recursive %}[{{ loop(x) }}]{% endfor %}", ""),
    (false, false, "{% for x in data recursive %}{% with z = x %}{% if z is defined %}<{{ loop(z) }}>{% endif %}{% endwith %}{% endfor %}", ""),
    (false, true, "{% include 't' %}", ""),
    (false, true, "a{% include 'u' %}", "b{% for q in [1] %}{% include 't' %}{% endfor %}"),
    (true, true, "{% macro m(n) %}{% include 'u' %}{% endmacro %}{{ m(0) }}", "{% from 't' import m %}{{ m(1) }}"),
    (true, true, "{% import 'u' as um %}{% macro m(n) %}{{ um.k(n) }}{% endmacro %}", "{% import 't' as tm %}{% macro k(n) %}{{ tm.m(n + 1) }}{% endmacro %}{{ k(0) }}"),
];

/// shapes that stop by themselves (success is allowed)
const BOUNDED: [usize; 1] = [5];

fn nested(depth: usize) -> Value {
    let mut v = Value::from(Vec::<Value>::new());
    for _ in 0..depth {
        v = Value::from(vec![v]);
    }
    v
}

fn run(shape: usize, limit: usize) -> String {
    let (needs_macros, needs_multi, t, u) = SHAPES[shape];
    if (needs_macros && !MACROS) || (needs_multi && !MULTI) {
        return "unsupported".into();
    }
    let mut env = Environment::new();
    env.set_recursion_limit(limit);
    if let Err(e) = env.add_template("t", t) {
        return format!("err:load:{e}");
    }
    if !u.is_empty() {
        if let Err(e) = env.add_template("u", u) {
            return format!("err:load:{e}");
        }
    }
    let data = nested(1500);
    let ctx = Value::from_pairs([("data", data.clone())]);
    let res = env.get_template("t").and_then(|t| t.render(ctx));
    let out = match res {
        Ok(_) if BOUNDED.contains(&shape) || limit > 1500 => "ok".to_string(),
        Ok(s) => format!("err:rendered {} bytes although the shape recurses without end", s.len()),
        Err(e) => {
            let mut hit = e.to_string().contains("recursion limit exceeded");
            let mut src = std::error::Error::source(&e);
            while let Some(s) = src {
                hit = hit || s.to_string().contains("recursion limit exceeded");
                src = s.source();
            }
            if hit {
                "limit".to_string()
            } else {
                format!("err:{e}")
            }
        }
    };
    // the deep context value is taken apart iteratively (dropping it recursively is a listed
    // finding of C01, not this check's subject)
    let mut cur = data;
    loop {
        let next = cur.get_item_by_index(0).ok().filter(|v| !v.is_undefined());
        match next {
            Some(n) => cur = n,
            None => break,
        }
    }
    std::mem::forget(cur);
    out
}

fn main() {
    let args: Vec<String> = std::env::args().collect();
    if args.len() == 2 && args[1] == "shapes" {
        println!("{}", SHAPES.len());
        return;
    }
    let shape: usize = args[1].parse().expect("shape");
    let limit: usize = args[2].parse().expect("limit");
    let stack_kib: usize = args[3].parse().expect("stack_kib");
    let h = std::thread::Builder::new()
        .stack_size(stack_kib * 1024)
        .spawn(move || run(shape, limit))
        .expect("spawn");
    match h.join() {
        Ok(line) => println!("{line}"),
        Err(_) => println!("err:panic"),
    }
}
