//! lookups <template source>...: renders each source with a recording context and prints the
//! output, the context keys the engine asked for and undeclared_variables (a development probe)
use minijinja::Environment;
use mjv::gen::ctx::Recording;
fn main() {
    for src in std::env::args().skip(1) {
        let mut env = Environment::new();
        env.set_debug(false);
        env.add_template_owned("t.txt".to_string(), src.clone()).unwrap();
        let t = env.get_template("t.txt").unwrap();
        let rec = Recording::new(vec![("ctxonly".to_string(), minijinja::Value::from(1))]);
        let r = t.render(rec.value());
        println!("{src}\n  -> {r:?}\n  asked: {:?}\n  undeclared: {:?}", rec.requested(), t.undeclared_variables(false));
    }
}
