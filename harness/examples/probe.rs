use minijinja::{Environment, UndefinedBehavior, context};
fn main() {
    for src in std::env::args().skip(1) {
        let mut res = vec![];
        for mode in [UndefinedBehavior::Strict, UndefinedBehavior::SemiStrict, UndefinedBehavior::Lenient, UndefinedBehavior::Chainable] {
            let mut env = Environment::new();
            env.set_undefined_behavior(mode);
            let r = env.render_str(&src, context!{ s => "abcdef", l => vec![1,2,3] });
            res.push(match r { Ok(s) => format!("ok({s})"), Err(e) => format!("ERR({:?})", e.kind()) });
        }
        println!("{src:40} => {}", res.join("  "));
    }
}
