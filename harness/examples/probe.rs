use minijinja::{context, Environment};
// usage: probe [name=source ...] <main source>   — companions are given as name=source
fn main() {
    let mut env = Environment::new();
    let args: Vec<String> = std::env::args().skip(1).collect();
    for a in &args[..args.len().saturating_sub(1)] {
        if let Some((n, s)) = a.split_once('=') {
            env.add_template_owned(n.to_string(), s.to_string()).unwrap();
        }
    }
    let src = args.last().cloned().unwrap_or_default();
    let r = env.render_str(
        &src,
        context! { s => "abcdef", l => vec![1,2,3], m => context!{k => 5}, ll => vec![vec![1, 2], vec![3]] },
    );
    println!("{src} => {:?}", r.map_err(|e| format!("{e:#}").replace(char::from(10), " ")));
}
