use minijinja::{Environment, context};
fn main() {
    let env = Environment::new();
    for src in std::env::args().skip(1) {
        let r = env.render_str(&src, context!{ s => "abcdef", l => vec![1,2,3], m => context!{k => 5} });
        println!("{src:40} => {r:?}");
    }
}
