use mjv::props::c10;
use mjv::runner::{Ctx, Tier, install_panic_hook};
fn main() {
    install_panic_hook();
    let which = std::env::args().nth(1).unwrap();
    let mut ctx = Ctx::new("C10", Tier::Quick, 1);
    let t0 = std::time::Instant::now();
    match which.as_str() {
        "enum" => { let e = c10::ws_enumeration(); println!("{} cases", e.len()); ctx.run_enumerated::<c10::WsModel>(e, true); }
        "ws" => ctx.run_part::<c10::WsModel>(20000),
        "delim" => ctx.run_part::<c10::Delimiters>(2000),
        _ => ctx.run_part::<c10::PlainText>(2000),
    }
    println!("{which} done in {:?}; violations {}", t0.elapsed(), ctx.violations.len());
    for v in ctx.violations.iter().take(3) { println!("{} {}", v.failure.signature, &v.failure.detail[..v.failure.detail.len().min(600)]); }
}
