use minijinja::{Environment, Value};
fn main() {
    let env = Environment::new();
    for e in ["x|select('string')", "x|reverse", "x|chain([])", "x|chain(x|reverse)", "x|map('string')", "x[1:]", "x|reject('number')", "x|chain(x|select('string'))", "x|chain(x|map('string')|reject('string'))", "x|reverse|reject('number')"] {
        let v = env.compile_expression(e).unwrap().eval(Value::from_pairs([("x", Value::from(vec![1, 2]))])).unwrap();
        println!("{e:45} kind={:?} len={:?} items={:?}", v.kind(), v.len(), v.try_iter().map(|i| i.count()).ok());
    }
}
