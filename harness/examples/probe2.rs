use minijinja::Environment;
use mjv::gen::ctx::Recording;
fn main() {
    for src in std::env::args().skip(1) {
        let mut env = Environment::new();
        env.set_debug(false);
        env.add_template_owned("t.txt".to_string(), src.clone()).unwrap();
        let t = env.get_template("t.txt").unwrap();
        let rec = Recording::new(vec![("caller".to_string(), minijinja::Value::from("CTX"))]);
        let r = t.render(rec.value());
        println!("{src}\n  => {r:?}\n  requested {:?}\n  undeclared {:?}", rec.requested(), t.undeclared_variables(false));
    }
}
