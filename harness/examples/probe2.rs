use minijinja::Environment;
fn main() {
    let mut env = Environment::new();
    env.add_template("selfimp.txt", "{% import 'selfimp.txt' as m %}x").unwrap();
    env.add_template("main.txt", "a\n{% import 'selfimp.txt' as si %}").unwrap();
    let err = env.get_template("main.txt").unwrap().render(()).unwrap_err();
    let mut e: Option<&dyn std::error::Error> = Some(&err);
    let mut n = 0;
    while let Some(x) = e {
        if let Some(me) = x.downcast_ref::<minijinja::Error>() {
            if n < 3 || x.source().is_none() { println!("{n}: kind={:?} name={:?} line={:?}", me.kind(), me.name(), me.line()); }
        }
        n += 1;
        e = x.source();
    }
}
