use mjv::props::c02;
use mjv::runner::{Part, Tier};
use proptest::strategy::{Strategy, ValueTree};
use proptest::test_runner::{Config, RngSeed, TestRunner};
fn main() {
    mjv::isolate::limit_address_space(3 << 30);
    let seed: u64 = std::env::args().nth(1).and_then(|s| s.parse().ok()).unwrap_or(7);
    let mut runner = TestRunner::new(Config { rng_seed: RngSeed::Fixed(seed), failure_persistence: None, ..Config::default() });
    let strat = c02::Soundness::strategy(Tier::Quick);
    for i in 0..20000 {
        let c = strat.new_tree(&mut runner).unwrap().current();
        let js = serde_json::to_string(&<c02::Soundness as Part>::show(&c)).unwrap();
        std::fs::write("/tmp/p5.case", &js).unwrap();
        let t0 = std::time::Instant::now();
        let _ = c02::Soundness::check(&c);
        if t0.elapsed().as_millis() > 1000 { eprintln!("SLOW {i} {:?} {js}", t0.elapsed()); }
    }
}
