use mjv::props::c10;
use mjv::runner::{Part, Tier};
use proptest::strategy::{Strategy, ValueTree};
use proptest::test_runner::{Config, RngSeed, TestRunner};
fn main() {
    let mut runner = TestRunner::new(Config { rng_seed: RngSeed::Fixed(7), failure_persistence: None, ..Config::default() });
    eprintln!("building strategy");
    let strat = c10::Delimiters::strategy(Tier::Quick);
    eprintln!("built");
    for i in 0..3000 {
        eprintln!("gen {i}");
        let c = strat.new_tree(&mut runner).unwrap().current();
        eprintln!("generated");
        let js = serde_json::to_string(&<c10::Delimiters as Part>::show(&c)).unwrap();
        eprintln!("CASE {i} {js}");
        let v = c10::Delimiters::check(&c);
        if let Some(f) = v.fail { eprintln!("FAIL {} {}", f.signature, &f.detail[..f.detail.len().min(500)]); }
    }
}
