use minijinja::Environment;
fn main() {
    let env = Environment::new();
    for src in ["{% call unknown_fn() %}\n a\n {{ 1 }}\n b\n{% endcall %}", "x\n{{ foo(\n\n\n   \"bad \\x escape\") }}"] {
        match env.render_str(src, ()) { Ok(o) => println!("ok {o:?}"), Err(e) => println!("{:?} line={:?} range={:?}", e.kind(), e.line(), e.range()) }
    }
}
