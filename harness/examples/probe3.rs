use minijinja::{Environment, context};
fn main() {
    let mut env = Environment::new();
    env.set_debug(true);
    for src in ["{% do nosuch7777() %}\nnext {{ i }}\n{{ s }}", "line1\n\n{% set a7777, b = [1] %}\n\n{{ i }}", "{{ 1 }}\n{{ (7777 // 0) }}\n{{ 2 }}"] {
        let r = env.render_str(src, context!{ i => 1, s => "x" });
        match r { Ok(s) => println!("ok {s:?}"), Err(e) => println!("{:?} line {:?} range {:?}", e.kind(), e.line(), e.range()) }
    }
}
