//! Common driver: proptest runner (sharded over threads), enumerated runs,
//! evidence collection, known findings, replay files.
use std::cell::{Cell, RefCell};
use std::collections::{BTreeMap, HashSet};
use std::fmt::Debug;
use std::hash::{Hash, Hasher};
use std::panic::{catch_unwind, AssertUnwindSafe};
use std::path::PathBuf;
use std::time::Instant;

use proptest::strategy::{BoxedStrategy, Strategy};
use proptest::test_runner::{Config, RngSeed, TestCaseError, TestError, TestRunner};
use serde::{de::DeserializeOwned, Deserialize, Serialize};

#[derive(Clone, Copy, Debug, PartialEq, Eq)]
pub enum Tier {
    Quick,
    Thorough,
}

impl Tier {
    pub fn name(self) -> &'static str {
        match self {
            Tier::Quick => "quick",
            Tier::Thorough => "thorough",
        }
    }
    /// pick a size by tier
    pub fn pick<T>(self, quick: T, thorough: T) -> T {
        match self {
            Tier::Quick => quick,
            Tier::Thorough => thorough,
        }
    }
}

#[derive(Clone, Debug)]
pub struct Failure {
    /// stable, specific identification of *what* failed (matched against known findings)
    pub signature: String,
    /// human readable expected/observed
    pub detail: String,
}

#[derive(Clone, Debug, Default)]
pub struct Verdict {
    pub nontrivial: bool,
    pub labels: Vec<&'static str>,
    pub fail: Option<Failure>,
}

impl Verdict {
    pub fn pass(nontrivial: bool) -> Verdict {
        Verdict {
            nontrivial,
            labels: vec![],
            fail: None,
        }
    }
    pub fn fail(sig: impl Into<String>, detail: impl Into<String>) -> Verdict {
        Verdict {
            nontrivial: true,
            labels: vec![],
            fail: Some(Failure {
                signature: sig.into(),
                detail: detail.into(),
            }),
        }
    }
    pub fn label(mut self, l: &'static str) -> Verdict {
        self.labels.push(l);
        self
    }
    pub fn set_fail(&mut self, sig: impl Into<String>, detail: impl Into<String>) {
        if self.fail.is_none() {
            self.fail = Some(Failure {
                signature: sig.into(),
                detail: detail.into(),
            });
        }
    }
}

/// One generated-check of a property ("part").
pub trait Part: 'static {
    type Case: Debug + Clone + Serialize + DeserializeOwned + Send + 'static;
    /// name of the part (used in replay files)
    const NAME: &'static str;
    fn strategy(tier: Tier) -> BoxedStrategy<Self::Case>;
    fn check(case: &Self::Case) -> Verdict;
    /// how the case is shown in evidence samples
    fn show(case: &Self::Case) -> serde_json::Value {
        serde_json::to_value(case).unwrap_or(serde_json::Value::Null)
    }
    /// lets a part attach case-specific detail to the signature of a process death (used to
    /// key known findings on the shape that crashed instead of on "stack overflow" alone)
    fn refine_crash(_case: &Self::Case, signature: &str) -> String {
        signature.to_string()
    }
    /// a finite list of cases to run completely (used by enumerated isolated runs)
    fn enumeration(_tier: Tier) -> Vec<Self::Case> {
        vec![]
    }
    /// smaller variants of a case, tried by the parent-side shrinker of isolated runs
    /// (needed only for failures that kill the worker process)
    fn shrink_candidates(_case: &Self::Case) -> Vec<Self::Case> {
        vec![]
    }
}

/// resident set size of this process
pub fn rss_bytes() -> u64 {
    std::fs::read_to_string("/proc/self/statm")
        .ok()
        .and_then(|s| s.split_whitespace().nth(1).and_then(|x| x.parse::<u64>().ok()))
        .map_or(0, |pages| pages * 4096)
}

// ---------------------------------------------------------------------------
// panic capture

thread_local! {
    static LAST_PANIC: RefCell<Option<String>> = const { RefCell::new(None) };
    static QUIET: Cell<bool> = const { Cell::new(false) };
}

pub fn install_panic_hook() {
    let default = std::panic::take_hook();
    std::panic::set_hook(Box::new(move |info| {
        let msg = if let Some(s) = info.payload().downcast_ref::<&str>() {
            s.to_string()
        } else if let Some(s) = info.payload().downcast_ref::<String>() {
            s.clone()
        } else {
            "<non-string panic>".to_string()
        };
        let loc = info
            .location()
            .map(|l| format!("{}:{}", l.file(), l.line()))
            .unwrap_or_default();
        LAST_PANIC.with(|p| *p.borrow_mut() = Some(format!("{msg} @ {loc}")));
        if !QUIET.with(|q| q.get()) {
            default(info);
        }
    }));
}

/// Strips digits from a panic message so that the signature is stable across
/// inputs ("index out of bounds: the len is 0 but the index is 0").
pub fn normalize_panic(msg: &str) -> String {
    // message @ path:line -> keep message without numbers and the file name (not line)
    let (m, loc) = msg.rsplit_once(" @ ").unwrap_or((msg, ""));
    let file = loc.rsplit_once(':').map(|x| x.0).unwrap_or(loc);
    let file = file
        .rsplit_once("/src/")
        .map(|x| x.1)
        .unwrap_or(file)
        .to_string();
    let mut out = String::new();
    let mut last_digit = false;
    for c in m.chars() {
        if c.is_ascii_digit() {
            if !last_digit {
                out.push('N');
            }
            last_digit = true;
        } else {
            last_digit = false;
            out.push(c);
        }
    }
    if out.len() > 120 {
        let mut cut = 120;
        while !out.is_char_boundary(cut) {
            cut -= 1;
        }
        out.truncate(cut);
    }
    format!("panic:{out}@{file}")
}

/// Runs `f`, turning a panic into `Err(normalized signature, raw message)`.
pub fn guarded<R>(f: impl FnOnce() -> R) -> Result<R, (String, String)> {
    QUIET.with(|q| q.set(true));
    LAST_PANIC.with(|p| *p.borrow_mut() = None);
    let r = catch_unwind(AssertUnwindSafe(f));
    QUIET.with(|q| q.set(false));
    match r {
        Ok(v) => Ok(v),
        Err(_) => {
            let raw = LAST_PANIC
                .with(|p| p.borrow_mut().take())
                .unwrap_or_else(|| "<unknown panic>".into());
            Err((normalize_panic(&raw), raw))
        }
    }
}

// ---------------------------------------------------------------------------
// known findings

#[derive(Clone, Debug, Serialize, Deserialize)]
pub struct Finding {
    pub id: String,
    pub property: String,
    /// "open" or "fixed"
    pub status: String,
    pub signature: String,
    pub what: String,
    #[serde(default)]
    pub part: Option<String>,
    #[serde(default)]
    pub witness: Option<serde_json::Value>,
    #[serde(default)]
    pub commit: Option<String>,
    /// build variant the witness belongs to (None = default build)
    #[serde(default)]
    pub variant: Option<String>,
    /// false: the signature is too generic to be tolerated during a search (e.g. a native
    /// stack overflow); the finding is excluded by construction in the generator instead and
    /// only its own witness is matched against it
    #[serde(default = "default_true")]
    pub tolerate: bool,
}

fn default_true() -> bool {
    true
}

pub fn verif_root() -> PathBuf {
    if let Ok(p) = std::env::var("VERIF_ROOT") {
        return PathBuf::from(p);
    }
    PathBuf::from("/verif")
}

pub fn load_findings() -> Vec<Finding> {
    let p = verif_root().join("known_findings.json");
    match std::fs::read_to_string(&p) {
        Ok(s) => {
            #[derive(Deserialize)]
            struct File {
                findings: Vec<Finding>,
            }
            serde_json::from_str::<File>(&s)
                .unwrap_or_else(|e| {
                    eprintln!("cannot parse {}: {e}", p.display());
                    std::process::exit(2)
                })
                .findings
        }
        Err(_) => vec![],
    }
}

/// Signature patterns of the open findings. A pattern is matched literally,
/// or as a suffix when it starts with `*`, or as a prefix when it ends with `*`.
#[derive(Clone, Debug, Default)]
pub struct OpenSet(pub Vec<String>);

impl OpenSet {
    /// returns the pattern that matches
    pub fn find(&self, sig: &str) -> Option<&str> {
        self.0
            .iter()
            .find(|p| {
                if let Some(suffix) = p.strip_prefix('*') {
                    sig.ends_with(suffix)
                } else if let Some(prefix) = p.strip_suffix('*') {
                    sig.starts_with(prefix)
                } else {
                    p.as_str() == sig
                }
            })
            .map(|x| x.as_str())
    }
    pub fn contains(&self, sig: &str) -> bool {
        self.find(sig).is_some()
    }
}

// ---------------------------------------------------------------------------
// run context

#[derive(Clone, Debug, Serialize, Deserialize)]
pub struct ReplayFile {
    pub property: String,
    /// build variant the case was found with ("alt" = preserve_order/unicode/speedups build)
    #[serde(default)]
    pub variant: Option<String>,
    pub part: String,
    pub tier: String,
    pub seed: u64,
    pub case: serde_json::Value,
    pub signature: String,
    pub detail: String,
}

pub struct Violation {
    pub variant: Option<String>,
    pub part: String,
    pub case: serde_json::Value,
    pub failure: Failure,
}

#[derive(Default)]
struct PartStats {
    evaluations: u64,
    nontrivial: HashSet<u64>,
    labels: BTreeMap<&'static str, u64>,
    samples: Vec<serde_json::Value>,
    known_hits: BTreeMap<String, u64>,
    exhaustive: Option<bool>,
}

pub struct Ctx {
    pub property: &'static str,
    pub tier: Tier,
    pub seed: u64,
    pub level: &'static str,
    pub rule: String,
    pub assumptions: Vec<String>,
    pub extra: serde_json::Map<String, serde_json::Value>,
    findings: Vec<Finding>,
    parts: BTreeMap<String, PartStats>,
    part_order: Vec<String>,
    pub violations: Vec<Violation>,
    known_hits: BTreeMap<String, u64>,
    start: Instant,
    pub threads: usize,
    /// running as a sub-process variant: results are exported, no evidence is written
    pub sub: bool,
}

/// development aid: `VERIF_ONLY_PART=<name>` runs only that part (never set by a registered command)
fn skip_part(name: &str) -> bool {
    matches!(std::env::var("VERIF_ONLY_PART"), Ok(p) if !p.is_empty() && p != name)
}

fn hash_case<T: Serialize>(case: &T) -> u64 {
    let s = serde_json::to_string(case).unwrap_or_default();
    let mut h = std::collections::hash_map::DefaultHasher::new();
    s.hash(&mut h);
    h.finish()
}

struct ShardOut<C> {
    stats: PartStats,
    failure: Option<(C, Failure)>,
}

impl Ctx {
    pub fn new(property: &'static str, tier: Tier, seed: u64) -> Ctx {
        let findings = load_findings()
            .into_iter()
            .filter(|f| f.property == property)
            .collect();
        let threads = std::env::var("VERIF_THREADS")
            .ok()
            .and_then(|x| x.parse().ok())
            .unwrap_or_else(|| {
                std::thread::available_parallelism()
                    .map(|x| x.get())
                    .unwrap_or(4)
                    .min(16)
            });
        Ctx {
            property,
            tier,
            seed,
            level: "exploration",
            rule: String::new(),
            assumptions: vec![],
            extra: Default::default(),
            findings,
            parts: Default::default(),
            part_order: vec![],
            violations: vec![],
            known_hits: Default::default(),
            start: Instant::now(),
            threads,
            sub: false,
        }
    }

    pub fn open_signatures(&self) -> OpenSet {
        OpenSet(
            self.findings
                .iter()
                .filter(|f| f.status == "open" && f.tolerate)
                .map(|f| f.signature.clone())
                .collect(),
        )
    }

    fn part_stats(&mut self, name: &str) -> &mut PartStats {
        if !self.parts.contains_key(name) {
            self.part_order.push(name.to_string());
        }
        self.parts.entry(name.to_string()).or_default()
    }

    fn merge(&mut self, name: &str, st: PartStats) {
        for (k, v) in &st.known_hits {
            *self.known_hits.entry(k.clone()).or_default() += v;
        }
        let dst = self.part_stats(name);
        dst.evaluations += st.evaluations;
        dst.nontrivial.extend(st.nontrivial);
        for (k, v) in st.labels {
            *dst.labels.entry(k).or_default() += v;
        }
        for s in st.samples {
            if dst.samples.len() < 12 {
                dst.samples.push(s);
            }
        }
        for (k, v) in st.known_hits {
            *dst.known_hits.entry(k).or_default() += v;
        }
        if let Some(e) = st.exhaustive {
            dst.exhaustive = Some(dst.exhaustive.unwrap_or(true) && e);
        }
    }

    /// Evaluates one case with panic capture and known-finding tolerance.
    /// Returns Some(failure) for an *unlisted* failure.
    fn eval_case<P: Part>(
        case: &P::Case,
        open: &OpenSet,
        stats: Option<&mut PartStats>,
    ) -> Option<Failure> {
        let verdict = match guarded(|| P::check(case)) {
            Ok(v) => v,
            Err((sig, raw)) => Verdict::fail(sig, format!("panicked: {raw}")),
        };
        let mut known = None;
        let fail = match verdict.fail {
            Some(f) if open.contains(&f.signature) => {
                known = open.find(&f.signature).map(|x| x.to_string());
                None
            }
            other => other,
        };
        if let Some(st) = stats {
            st.evaluations += 1;
            if verdict.nontrivial {
                st.nontrivial.insert(hash_case(case));
            }
            for l in verdict.labels {
                *st.labels.entry(l).or_default() += 1;
            }
            if let Some(k) = known {
                *st.known_hits.entry(k).or_default() += 1;
            }
            // sample: a few first ones and then sparse ones, preferring non-trivial
            let n = st.evaluations;
            if st.samples.len() < 4 && (verdict.nontrivial || n > 50)
                || (st.samples.len() < 8 && verdict.nontrivial && n.is_power_of_two())
            {
                st.samples.push(P::show(case));
            }
        }
        fail
    }

    /// Generated search with proptest, sharded over threads.
    pub fn run_part<P: Part>(&mut self, cases: u32) {
        self.run_part_with::<P>(cases, 4096)
    }

    pub fn run_part_with<P: Part>(&mut self, cases: u32, max_shrink_iters: u32) {
        if skip_part(P::NAME) {
            return;
        }
        // fallback mode of ./check: the in-process run died of a signal (an abort or a stack
        // overflow inside the engine cannot be caught in-process), so the generated search is
        // repeated in isolated worker processes, which attribute a death to the case that ran
        if std::env::var_os("MJV_ISOLATE").is_some() {
            let _ = max_shrink_iters;
            self.run_part_isolated::<P>("MJV_DEV", "isolated", cases, 180);
            return;
        }
        let shards = self.threads.max(1).min(cases.max(1) as usize);
        let per = cases.div_ceil(shards as u32);
        let open = self.open_signatures();
        let tier = self.tier;
        let seed = self.seed;
        let part_salt = {
            let mut h = std::collections::hash_map::DefaultHasher::new();
            P::NAME.hash(&mut h);
            self.property.hash(&mut h);
            h.finish() % 1_000_003
        };
        // what every shard is evaluating right now, for the memory watchdog below
        let slots: Vec<std::sync::Mutex<Option<P::Case>>> = (0..shards).map(|_| std::sync::Mutex::new(None)).collect();
        let done = std::sync::atomic::AtomicBool::new(false);
        let outs: Vec<ShardOut<P::Case>> = std::thread::scope(|scope| {
            // A generated program can ask the engine for unbounded memory (doubling a string in a
            // recursion, printing a huge lazy sequence). That is the harness's problem, not a
            // verdict: stop with exit 2 and say which cases were running instead of being killed.
            let slots_ref = &slots;
            let done_ref = &done;
            scope.spawn(move || {
                let limit_gib: u64 = std::env::var("MJV_RSS_LIMIT_GIB").ok().and_then(|v| v.parse().ok()).unwrap_or(24);
                while !done_ref.load(std::sync::atomic::Ordering::SeqCst) {
                    std::thread::sleep(std::time::Duration::from_millis(100));
                    if rss_bytes() > limit_gib << 30 {
                        eprintln!("INCONCLUSIVE: the harness process grew beyond {limit_gib} GiB in part {}; cases being evaluated:", P::NAME);
                        for slot in slots_ref.iter() {
                            if let Ok(g) = slot.try_lock() {
                                if let Some(c) = g.as_ref() {
                                    let mut text = P::show(c).to_string();
                                    text.truncate(3000);
                                    eprintln!("  running: {text}");
                                }
                            }
                        }
                        std::process::exit(2);
                    }
                }
            });
            let handles: Vec<_> = (0..shards)
                .map(|shard| {
                    let open = &open;
                    let slots = &slots;
                    std::thread::Builder::new()
                        .stack_size(256 << 20)
                        .spawn_scoped(scope, move || {
                            let cfg = Config {
                                cases: per,
                                failure_persistence: None,
                                rng_seed: RngSeed::Fixed(
                                    seed.wrapping_mul(1_000_003)
                                        .wrapping_add(part_salt)
                                        .wrapping_mul(64)
                                        .wrapping_add(shard as u64),
                                ),
                                max_shrink_iters,
                                max_global_rejects: 1 << 20,
                                ..Config::default()
                            };
                            let mut runner = TestRunner::new(cfg);
                            let stats = RefCell::new(PartStats::default());
                            let failed = Cell::new(false);
                            let last_fail: RefCell<Option<Failure>> = RefCell::new(None);
                            let strat = P::strategy(tier);
                            let res = runner.run(&strat, |case| {
                                if let Ok(mut g) = slots[shard].lock() {
                                    *g = Some(case.clone());
                                }
                                let mut st = stats.borrow_mut();
                                let f = Self::eval_case::<P>(
                                    &case,
                                    open,
                                    if failed.get() { None } else { Some(&mut st) },
                                );
                                match f {
                                    Some(f) => {
                                        failed.set(true);
                                        let msg = f.signature.clone();
                                        *last_fail.borrow_mut() = Some(f);
                                        Err(TestCaseError::fail(msg))
                                    }
                                    None => Ok(()),
                                }
                            });
                            let failure = match res {
                                Ok(()) => None,
                                Err(TestError::Fail(_, case)) => {
                                    // re-evaluate the shrunk case to get its own failure text
                                    let f = Self::eval_case::<P>(&case, open, None)
                                        .or_else(|| last_fail.borrow().clone())
                                        .unwrap_or(Failure {
                                            signature: "unknown".into(),
                                            detail: String::new(),
                                        });
                                    Some((case, f))
                                }
                                Err(TestError::Abort(why)) => {
                                    eprintln!(
                                        "proptest aborted in part {} shard {shard}: {why}",
                                        P::NAME
                                    );
                                    std::process::exit(2);
                                }
                            };
                            ShardOut {
                                stats: stats.into_inner(),
                                failure,
                            }
                        })
                        .expect("spawn")
                })
                .collect();
            let outs = handles
                .into_iter()
                .map(|h| match h.join() {
                    Ok(o) => o,
                    Err(_) => {
                        eprintln!("worker thread died");
                        std::process::exit(2)
                    }
                })
                .collect();
            done.store(true, std::sync::atomic::Ordering::SeqCst);
            outs
        });
        for out in outs {
            self.merge(P::NAME, out.stats);
            if let Some((case, failure)) = out.failure {
                // report one violation per distinct signature
                if !self
                    .violations
                    .iter()
                    .any(|v| v.failure.signature == failure.signature && v.part == P::NAME)
                {
                    self.violations.push(Violation {
                        variant: variant_name(),
                        part: P::NAME.to_string(),
                        case: serde_json::to_value(&case).unwrap_or_default(),
                        failure,
                    });
                }
            }
        }
    }

    /// Enumerated (non-random) run over an explicit list of cases, sharded.
    /// `complete` says whether the list is the whole finite space.
    pub fn run_enumerated<P: Part>(&mut self, cases: Vec<P::Case>, complete: bool)
    where
        P::Case: Sync,
    {
        if skip_part(P::NAME) {
            return;
        }
        let shards = self.threads.max(1);
        let open = self.open_signatures();
        let chunk = cases.len().div_ceil(shards).max(1);
        let outs: Vec<(PartStats, Vec<(P::Case, Failure)>)> = std::thread::scope(|scope| {
            let handles: Vec<_> = cases
                .chunks(chunk)
                .map(|chunk| {
                    let open = &open;
                    std::thread::Builder::new()
                        .stack_size(256 << 20)
                        .spawn_scoped(scope, move || {
                            let mut stats = PartStats::default();
                            let mut fails: Vec<(P::Case, Failure)> = vec![];
                            for case in chunk {
                                if let Some(f) = Self::eval_case::<P>(case, open, Some(&mut stats))
                                {
                                    if !fails.iter().any(|x| x.1.signature == f.signature) {
                                        fails.push((case.clone(), f));
                                    }
                                }
                            }
                            (stats, fails)
                        })
                        .expect("spawn")
                })
                .collect();
            handles
                .into_iter()
                .map(|h| match h.join() {
                    Ok(o) => o,
                    Err(_) => {
                        eprintln!("worker thread died");
                        std::process::exit(2)
                    }
                })
                .collect()
        });
        for (mut stats, fails) in outs {
            stats.exhaustive = Some(complete);
            self.merge(P::NAME, stats);
            for (case, failure) in fails {
                if !self
                    .violations
                    .iter()
                    .any(|v| v.failure.signature == failure.signature && v.part == P::NAME)
                {
                    self.violations.push(Violation {
                        variant: variant_name(),
                        part: P::NAME.to_string(),
                        case: serde_json::to_value(&case).unwrap_or_default(),
                        failure,
                    });
                }
            }
        }
    }

    /// Replays the committed regression cases of this property for the given part.
    pub fn run_regressions<P: Part>(&mut self) {
        let dir = verif_root().join("replays").join(self.property);
        let mut files: Vec<PathBuf> = std::fs::read_dir(&dir)
            .map(|rd| {
                rd.filter_map(|e| e.ok())
                    .map(|e| e.path())
                    .filter(|p| {
                        p.file_name()
                            .and_then(|n| n.to_str())
                            .map_or(false, |n| n.starts_with("reg-") && n.ends_with(".json"))
                    })
                    .collect()
            })
            .unwrap_or_default();
        files.sort();
        let open = self.open_signatures();
        let mut stats = PartStats::default();
        for f in files {
            let Ok(text) = std::fs::read_to_string(&f) else {
                continue;
            };
            let Ok(rf) = serde_json::from_str::<ReplayFile>(&text) else {
                eprintln!("unreadable regression file {}", f.display());
                std::process::exit(2);
            };
            if rf.part != P::NAME {
                continue;
            }
            let case: P::Case = match serde_json::from_value(rf.case.clone()) {
                Ok(c) => c,
                Err(e) => {
                    eprintln!("regression file {} does not decode: {e}", f.display());
                    std::process::exit(2);
                }
            };
            if let Some(failure) = Self::eval_case::<P>(&case, &open, Some(&mut stats)) {
                self.violations.push(Violation {
                    variant: variant_name(),
                    part: P::NAME.to_string(),
                    case: rf.case,
                    failure,
                });
            }
        }
        *stats.labels.entry("regression_replays").or_default() += stats.evaluations;
        self.merge(P::NAME, stats);
    }

    /// Replays a single file (decodes `case`, no generator involved).
    pub fn replay_one<P: Part>(&mut self, rf: &ReplayFile) -> bool {
        if rf.part != P::NAME {
            return false;
        }
        let case: P::Case = match serde_json::from_value(rf.case.clone()) {
            Ok(c) => c,
            Err(e) => {
                eprintln!("replay case does not decode for part {}: {e}", P::NAME);
                std::process::exit(2);
            }
        };
        let open = self.open_signatures();
        let mut stats = PartStats::default();
        if let Some(failure) = Self::eval_case::<P>(&case, &open, Some(&mut stats)) {
            self.violations.push(Violation {
                variant: variant_name(),
                part: P::NAME.to_string(),
                case: rf.case.clone(),
                failure,
            });
        }
        // a replayed case counts as non-trivial evidence twice over (so the file validates)
        self.merge(P::NAME, stats);
        true
    }

    /// Runs the witnesses of the listed known findings: an open finding that
    /// still reproduces prints `KNOWN-FINDING`, one that no longer reproduces is
    /// noted; fixed ones must pass (a failure is a violation like any other).
    pub fn run_finding_witnesses<P: Part>(&mut self) {
        let findings = self.findings.clone();
        for f in findings {
            if f.part.as_deref() != Some(P::NAME) || f.variant != variant_name() {
                continue;
            }
            let Some(w) = f.witness.clone() else { continue };
            let case: P::Case = match serde_json::from_value(w.clone()) {
                Ok(c) => c,
                Err(e) => {
                    eprintln!("witness of finding {} does not decode: {e}", f.id);
                    std::process::exit(2);
                }
            };
            let none = OpenSet::default();
            let mut stats = PartStats::default();
            let res = Self::eval_case::<P>(&case, &none, Some(&mut stats));
            *stats.labels.entry("finding_witnesses").or_default() += 1;
            self.merge(P::NAME, stats);
            match (f.status.as_str(), res) {
                ("open", Some(fail)) if OpenSet(vec![f.signature.clone()]).contains(&fail.signature) => {
                    *self.known_hits.entry(f.signature.clone()).or_default() += 1;
                }
                ("open", Some(fail)) if self.open_signatures().contains(&fail.signature) => {
                    let p = self.open_signatures().find(&fail.signature).unwrap().to_string();
                    *self.known_hits.entry(p).or_default() += 1;
                }
                ("open", Some(fail)) => {
                    // the witness fails differently now: that is a new violation
                    self.violations.push(Violation {
                        variant: variant_name(),
                        part: P::NAME.to_string(),
                        case: w,
                        failure: fail,
                    });
                }
                ("open", None) => {
                    println!(
                        "NOTE: property={} finding {} no longer reproduces on its witness",
                        self.property, f.id
                    );
                }
                (_, Some(fail)) => {
                    // the witness of a fixed finding may still run into another, open one
                    if let Some(p) = self.open_signatures().find(&fail.signature).map(|s| s.to_string()) {
                        *self.known_hits.entry(p).or_default() += 1;
                    } else {
                        self.violations.push(Violation {
                            variant: variant_name(),
                            part: P::NAME.to_string(),
                            case: w,
                            failure: fail,
                        });
                    }
                }
                (_, None) => {}
            }
        }
    }

    pub fn add_violation(&mut self, part: &str, case: serde_json::Value, failure: Failure) {
        if let Some(p) = self.open_signatures().find(&failure.signature) {
            *self.known_hits.entry(p.to_string()).or_default() += 1;
            return;
        }
        self.violations.push(Violation {
            variant: variant_name(),
            part: part.to_string(),
            case,
            failure,
        });
    }

    pub fn findings_for_part(&self, part: &str) -> Vec<Finding> {
        self.findings
            .iter()
            .filter(|f| f.part.as_deref() == Some(part))
            .cloned()
            .collect()
    }

    pub fn note_known(&mut self, pattern: &str, n: u64) {
        *self.known_hits.entry(pattern.to_string()).or_default() += n;
    }

    /// Records a violation found by an isolated run. `part` may carry a `label:` prefix.
    pub fn push_violation(&mut self, part: &str, case: serde_json::Value, failure: Failure) {
        if self
            .violations
            .iter()
            .any(|v| v.part == part && v.failure.signature == failure.signature)
        {
            return;
        }
        self.violations.push(Violation {
            variant: variant_name(),
            part: part.to_string(),
            case,
            failure,
        });
    }

    /// Adds externally counted coverage (used by child-process driven parts).
    pub fn add_counts(
        &mut self,
        part: &str,
        evaluations: u64,
        nontrivial_hashes: impl IntoIterator<Item = u64>,
        labels: impl IntoIterator<Item = (&'static str, u64)>,
        samples: Vec<serde_json::Value>,
        exhaustive: Option<bool>,
    ) {
        let mut st = PartStats::default();
        st.evaluations = evaluations;
        st.nontrivial.extend(nontrivial_hashes);
        for (k, v) in labels {
            *st.labels.entry(k).or_default() += v;
        }
        st.samples = samples;
        st.exhaustive = exhaustive;
        self.merge(part, st);
    }

    /// Verdict of a replay run: does not touch the evidence file.
    pub fn finish_replay(self, path: &str) -> i32 {
        for f in self.findings.iter().filter(|f| f.status == "open") {
            if let Some(n) = self.known_hits.get(&f.signature) {
                println!(
                    "KNOWN-FINDING: property={} {} [{}; seen {} time(s) in this run]",
                    self.property, f.what, f.id, n
                );
            }
        }
        if self.violations.is_empty() {
            println!("OK property={} replay={} holds", self.property, path);
            return 0;
        }
        for v in &self.violations {
            println!("signature: {}", v.failure.signature);
            println!("detail: {}", v.failure.detail);
            println!("VIOLATION property={} replay={}", self.property, path);
        }
        1
    }

    /// Writes the evidence file, prints the verdict lines and returns the exit code.
    pub fn finish(self) -> i32 {
        let root = verif_root();
        let wall = self.start.elapsed().as_secs_f64();
        let mut evaluations = 0u64;
        let mut distinct = 0u64;
        let mut samples = vec![];
        let mut parts_json = serde_json::Map::new();
        let mut exhaustive_all = !self.parts.is_empty();
        for name in &self.part_order {
            let st = &self.parts[name];
            evaluations += st.evaluations;
            distinct += st.nontrivial.len() as u64;
            for s in st.samples.iter().take(6) {
                samples.push(serde_json::json!({"part": name, "case": s}));
            }
            if st.exhaustive != Some(true) {
                exhaustive_all = false;
            }
            parts_json.insert(
                name.clone(),
                serde_json::json!({
                    "evaluations": st.evaluations,
                    "distinct_nontrivial": st.nontrivial.len(),
                    "labels": st.labels,
                    "known_finding_hits": st.known_hits,
                    "exhaustive": st.exhaustive.unwrap_or(false),
                }),
            );
        }
        let mut coverage = serde_json::Map::new();
        coverage.insert("evaluations".into(), evaluations.into());
        coverage.insert("distinct_nontrivial".into(), distinct.into());
        coverage.insert("rule".into(), self.rule.clone().into());
        coverage.insert("samples".into(), samples.into());
        coverage.insert("exhaustive".into(), exhaustive_all.into());
        coverage.insert("parts".into(), parts_json.into());
        coverage.insert(
            "known_finding_hits".into(),
            serde_json::to_value(&self.known_hits).unwrap(),
        );
        for (k, v) in self.extra.clone() {
            coverage.insert(k, v);
        }
        let evidence = serde_json::json!({
            "property_id": self.property,
            "tier": self.tier.name(),
            "seed": self.seed,
            "level": self.level,
            "coverage": coverage,
            "assumptions": self.assumptions,
            "wall_s": (wall * 1000.0).round() / 1000.0,
            "violations": self.violations.len(),
        });
        let ev_dir = root.join("evidence");
        let _ = std::fs::create_dir_all(&ev_dir);
        let ev_path = ev_dir.join(format!("{}.json", self.property));
        if let Err(e) = std::fs::write(&ev_path, serde_json::to_string_pretty(&evidence).unwrap()) {
            eprintln!("cannot write evidence {}: {e}", ev_path.display());
            return 2;
        }

        // known findings that showed up
        for f in self.findings.iter().filter(|f| f.status == "open") {
            if let Some(n) = self.known_hits.get(&f.signature) {
                println!(
                    "KNOWN-FINDING: property={} {} [{}; seen {} time(s) in this run]",
                    self.property, f.what, f.id, n
                );
            }
        }

        if self.violations.is_empty() {
            println!(
                "OK property={} tier={} seed={} evaluations={} distinct_nontrivial={} wall_s={:.1}",
                self.property,
                self.tier.name(),
                self.seed,
                evaluations,
                distinct,
                wall
            );
            return 0;
        }
        let dir = root.join("replays").join(self.property);
        let _ = std::fs::create_dir_all(&dir);
        for v in &self.violations {
            let rf = ReplayFile {
                property: self.property.to_string(),
                variant: v.variant.clone(),
                part: v.part.clone(),
                tier: self.tier.name().to_string(),
                seed: self.seed,
                case: v.case.clone(),
                signature: v.failure.signature.clone(),
                detail: v.failure.detail.clone(),
            };
            let h = hash_case(&(&rf.part, &rf.case));
            let path = dir.join(format!("found-{:016x}.json", h));
            let _ = std::fs::write(&path, serde_json::to_string_pretty(&rf).unwrap());
            println!("--- violation of {} (part {}) ---", self.property, v.part);
            println!("signature: {}", v.failure.signature);
            println!("detail: {}", v.failure.detail);
            let case_text = serde_json::to_string(&v.case).unwrap_or_default();
            let mut cut = case_text.len().min(2000);
            while !case_text.is_char_boundary(cut) {
                cut -= 1;
            }
            println!("case: {}", &case_text[..cut]);
            println!(
                "VIOLATION property={} replay={}",
                self.property,
                path.display()
            );
        }
        1
    }
}

/// name of the build variant of this binary
pub fn variant_name() -> Option<String> {
    if cfg!(feature = "alt") {
        Some("alt".to_string())
    } else {
        None
    }
}

#[derive(Serialize, Deserialize)]
struct ExportedPart {
    name: String,
    evaluations: u64,
    nontrivial: Vec<u64>,
    labels: BTreeMap<String, u64>,
    samples: Vec<serde_json::Value>,
    known_hits: BTreeMap<String, u64>,
    exhaustive: Option<bool>,
}

#[derive(Serialize, Deserialize)]
struct ExportedViolation {
    variant: Option<String>,
    part: String,
    case: serde_json::Value,
    signature: String,
    detail: String,
}

#[derive(Serialize, Deserialize)]
struct Exported {
    parts: Vec<ExportedPart>,
    violations: Vec<ExportedViolation>,
    known_hits: BTreeMap<String, u64>,
}

fn leak(s: &str) -> &'static str {
    Box::leak(s.to_string().into_boxed_str())
}

impl Ctx {
    /// Serialises everything this run collected (used by sub-process variants).
    pub fn export(&self) -> String {
        let parts = self
            .part_order
            .iter()
            .map(|name| {
                let st = &self.parts[name];
                ExportedPart {
                    name: name.clone(),
                    evaluations: st.evaluations,
                    nontrivial: st.nontrivial.iter().copied().collect(),
                    labels: st.labels.iter().map(|(k, v)| (k.to_string(), *v)).collect(),
                    samples: st.samples.clone(),
                    known_hits: st.known_hits.clone(),
                    exhaustive: st.exhaustive,
                }
            })
            .collect();
        let violations = self
            .violations
            .iter()
            .map(|v| ExportedViolation {
                variant: v.variant.clone(),
                part: v.part.clone(),
                case: v.case.clone(),
                signature: v.failure.signature.clone(),
                detail: v.failure.detail.clone(),
            })
            .collect();
        serde_json::to_string(&Exported {
            parts,
            violations,
            known_hits: self.known_hits.clone(),
        })
        .unwrap()
    }

    /// Runs the same property in another build variant (binary path in env `var`) and merges
    /// its counts, violations and known-finding hits under the part prefix `<label>:`.
    pub fn run_variant(&mut self, var: &str, label: &str) {
        let Ok(bin) = std::env::var(var) else {
            self.extra.insert(
                format!("variant_{label}"),
                format!("not run: {var} is not set (use ./check)").into(),
            );
            return;
        };
        let out = std::process::Command::new(&bin)
            .arg(self.property)
            .arg(self.tier.name())
            .arg("--sub")
            .env("VERIF_SEED", self.seed.to_string())
            .output();
        let out = match out {
            Ok(o) => o,
            Err(e) => {
                eprintln!("cannot run variant {label} ({bin}): {e}");
                std::process::exit(2);
            }
        };
        let text = String::from_utf8_lossy(&out.stdout);
        let Some(line) = text.lines().find_map(|l| l.strip_prefix("EXPORT ")) else {
            eprintln!(
                "variant {label} did not report (status {:?}): {}",
                out.status,
                String::from_utf8_lossy(&out.stderr)
            );
            std::process::exit(2);
        };
        let exp: Exported = serde_json::from_str(line).expect("export json");
        for p in exp.parts {
            let mut st = PartStats::default();
            st.evaluations = p.evaluations;
            st.nontrivial = p.nontrivial.into_iter().collect();
            st.labels = p.labels.iter().map(|(k, v)| (leak(k), *v)).collect();
            st.samples = p.samples;
            st.known_hits = p.known_hits;
            st.exhaustive = p.exhaustive;
            let name = format!("{label}:{}", p.name);
            // known hits are merged below from the export's total
            let hits = std::mem::take(&mut st.known_hits);
            self.merge(&name, st);
            self.part_stats(&name).known_hits = hits;
        }
        for (k, v) in exp.known_hits {
            *self.known_hits.entry(k).or_default() += v;
        }
        for v in exp.violations {
            self.violations.push(Violation {
                variant: v.variant,
                part: v.part,
                case: v.case,
                failure: Failure {
                    signature: v.signature,
                    detail: v.detail,
                },
            });
        }
    }
}

/// Monotone index mapping for shrinking-friendly selection.
pub fn pick_idx(i: u16, len: usize) -> usize {
    ((i as usize) * len) >> 16
}

/// strategy selecting one element of a static slice (shrinks towards the first)
pub fn one_of<T: Clone + Debug + 'static>(items: &'static [T]) -> BoxedStrategy<T> {
    (0..items.len()).prop_map(move |i| items[i].clone()).boxed()
}

pub fn one_of_vec<T: Clone + Debug + 'static>(items: Vec<T>) -> BoxedStrategy<T> {
    (0..items.len()).prop_map(move |i| items[i].clone()).boxed()
}

/// Declares `replay` and `preamble` (finding witnesses + committed regressions) for a property's parts.
#[macro_export]
macro_rules! declare_parts {
    ($($p:ty),+ $(,)?) => {
        pub fn replay(ctx: &mut $crate::runner::Ctx, rf: &$crate::runner::ReplayFile) -> bool {
            false $(|| ctx.replay_one::<$p>(rf))+
        }
        #[allow(dead_code)]
        fn preamble(ctx: &mut $crate::runner::Ctx) {
            $(ctx.run_finding_witnesses::<$p>(); ctx.run_regressions::<$p>();)+
        }
        /// worker / single-case entry points of isolated (child process) runs
        pub fn worker(part: &str, args: &[String]) -> bool {
            $(if part == <$p as $crate::runner::Part>::NAME {
                $crate::isolate::worker_main::<$p>(args);
                return true;
            })+
            false
        }
    };
}
