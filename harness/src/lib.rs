pub mod model;
pub mod props;
pub mod runner;
