pub mod gen;
pub mod isolate;
pub mod model;
pub mod props;
pub mod refint;
pub mod runner;
