pub mod gen;
pub mod model;
pub mod props;
pub mod runner;
