//! The whitespace rules as the property words them, over (text, tag, marker) sequences.
//! Written from the documentation of trim_blocks / lstrip_blocks / keep_trailing_newline
//! and the `-` / `+` markers; it never looks at the engine's lexer.
use serde::{Deserialize, Serialize};

#[derive(Clone, Copy, Debug, Serialize, Deserialize, PartialEq, Eq)]
pub enum Marker {
    None,
    Minus,
    Plus,
}

impl Marker {
    pub fn text(self) -> &'static str {
        match self {
            Marker::None => "",
            Marker::Minus => "-",
            Marker::Plus => "+",
        }
    }
}

#[derive(Clone, Debug, Serialize, Deserialize, PartialEq)]
pub enum Seg {
    Text(String),
    /// `{{ "V" }}` -> V
    Var(Marker, Marker),
    /// `{% set q = 1 %}` -> nothing
    Block(Marker, Marker),
    /// `{# c #}` -> nothing
    Comment(Marker, Marker),
    /// `{% raw %}content{% endraw %}`: markers of the raw tag (left, right) and of the endraw tag
    Raw(Marker, Marker, String, Marker, Marker),
}

#[derive(Clone, Copy, Debug, Serialize, Deserialize, PartialEq, Eq)]
pub struct Settings {
    pub trim_blocks: bool,
    pub lstrip_blocks: bool,
    pub keep_trailing_newline: bool,
}

fn is_horizontal(c: char) -> bool {
    c.is_whitespace() && c != '\n' && c != '\r'
}

/// removes one line ending (LF or CRLF) from the start
fn strip_one_newline(s: &str) -> &str {
    if let Some(r) = s.strip_prefix("\r\n") {
        r
    } else if let Some(r) = s.strip_prefix('\n') {
        r
    } else {
        s
    }
}

/// removes the horizontal whitespace at the end of `s`
fn strip_trailing_horizontal(s: &str) -> &str {
    s.trim_end_matches(is_horizontal)
}

/// is the position `pos` of `source` separated from the start of its line only by
/// horizontal whitespace?
fn at_line_start(source: &str, pos: usize) -> bool {
    for c in source[..pos].chars().rev() {
        if c == '\n' {
            return true;
        }
        if !is_horizontal(c) {
            return false;
        }
    }
    true
}

impl Seg {
    fn left(&self) -> Marker {
        match self {
            Seg::Var(l, _) | Seg::Block(l, _) | Seg::Comment(l, _) | Seg::Raw(l, _, _, _, _) => *l,
            Seg::Text(_) => Marker::None,
        }
    }
    fn right(&self) -> Marker {
        match self {
            Seg::Var(_, r) | Seg::Block(_, r) | Seg::Comment(_, r) | Seg::Raw(_, _, _, _, r) => *r,
            Seg::Text(_) => Marker::None,
        }
    }
    /// block-like tags take part in trim_blocks / lstrip_blocks
    fn block_like(&self) -> bool {
        matches!(self, Seg::Block(..) | Seg::Comment(..) | Seg::Raw(..))
    }

    pub fn source(&self) -> String {
        match self {
            Seg::Text(t) => t.clone(),
            Seg::Var(l, r) => format!("{{{{{} \"V\" {}}}}}", l.text(), r.text()),
            Seg::Block(l, r) => format!("{{%{} set q = 1 {}%}}", l.text(), r.text()),
            Seg::Comment(l, r) => format!("{{#{} c {}#}}", l.text(), r.text()),
            Seg::Raw(l1, r1, c, l2, r2) => format!(
                "{{%{} raw {}%}}{}{{%{} endraw {}%}}",
                l1.text(),
                r1.text(),
                c,
                l2.text(),
                r2.text()
            ),
        }
    }
}

/// merges adjacent text segments (the rules are stated over maximal text runs)
pub fn normalize(segs: &[Seg]) -> Vec<Seg> {
    let mut out: Vec<Seg> = vec![];
    for s in segs {
        match (out.last_mut(), s) {
            (Some(Seg::Text(a)), Seg::Text(b)) => a.push_str(b),
            _ => out.push(s.clone()),
        }
    }
    out.retain(|s| !matches!(s, Seg::Text(t) if t.is_empty()));
    out
}

pub fn source(segs: &[Seg]) -> String {
    segs.iter().map(|s| s.source()).collect()
}

/// the same sequence written with other delimiters: (block start/end, variable start/end,
/// comment start/end)
pub fn source_with(segs: &[Seg], d: &[&str; 6]) -> String {
    let [bs, be, vs, ve, cs, ce] = *d;
    segs.iter()
        .map(|s| match s {
            Seg::Text(t) => t.clone(),
            Seg::Var(l, r) => format!("{vs}{} \"V\" {}{ve}", l.text(), r.text()),
            Seg::Block(l, r) => format!("{bs}{} set q = 1 {}{be}", l.text(), r.text()),
            Seg::Comment(l, r) => format!("{cs}{} c {}{ce}", l.text(), r.text()),
            Seg::Raw(l1, r1, c, l2, r2) => {
                format!("{bs}{} raw {}{be}{}{bs}{} endraw {}{be}", l1.text(), r1.text(), c, l2.text(), r2.text())
            }
        })
        .collect()
}

pub fn expected(segs: &[Seg], cfg: Settings) -> String {
    let mut segs = normalize(segs);
    // one trailing line ending of the template is removed unless keep_trailing_newline
    if !cfg.keep_trailing_newline {
        if let Some(Seg::Text(t)) = segs.last_mut() {
            if t.ends_with('\n') {
                t.pop();
            }
            if t.ends_with('\r') {
                t.pop();
            }
        }
    }
    let full: String = source(&segs);
    let mut out = String::new();
    let mut pos = 0usize; // byte position of the current segment in `full`
    for i in 0..segs.len() {
        let seg_src_len = segs[i].source().len();
        match &segs[i] {
            Seg::Text(t) => {
                let mut s: &str = t;
                if i > 0 {
                    let prev = &segs[i - 1];
                    match prev.right() {
                        Marker::Minus => s = s.trim_start(),
                        Marker::None if cfg.trim_blocks && prev.block_like() => s = strip_one_newline(s),
                        _ => {}
                    }
                }
                if let Some(next) = segs.get(i + 1) {
                    match next.left() {
                        Marker::Minus => s = s.trim_end(),
                        Marker::None if cfg.lstrip_blocks && next.block_like() => {
                            if at_line_start(&full, pos + t.len()) {
                                s = strip_trailing_horizontal(s);
                            }
                        }
                        _ => {}
                    }
                }
                out.push_str(s);
            }
            Seg::Var(..) => out.push('V'),
            Seg::Block(..) | Seg::Comment(..) => {}
            Seg::Raw(_, r1, content, l2, _) => {
                let mut c: &str = content;
                // both rules speak about positions in the source, so the end of the content is
                // judged on the content as written
                match l2 {
                    Marker::Minus => c = c.trim_end(),
                    Marker::None if cfg.lstrip_blocks => {
                        // the endraw tag is at the start of a line iff only horizontal whitespace
                        // separates it from a line ending inside the content
                        let run_start = strip_trailing_horizontal(c).len();
                        if c[..run_start].ends_with('\n') {
                            c = &c[..run_start];
                        }
                    }
                    _ => {}
                }
                match r1 {
                    Marker::Minus => c = c.trim_start(),
                    Marker::None if cfg.trim_blocks => c = strip_one_newline(c),
                    _ => {}
                }
                out.push_str(c);
            }
        }
        pos += seg_src_len;
    }
    out
}

/// One lexical piece of a printed program: a run of text, or a tag with its whitespace markers.
/// `block_like` tags (block tags, comments, raw/endraw) take part in trim_blocks / lstrip_blocks;
/// `inert` tags (line statements and whole-line comments, which own their complete line) touch
/// neither neighbour.
#[derive(Clone, Debug, Serialize, Deserialize, PartialEq)]
pub enum Piece {
    Text(String),
    Tag { block_like: bool, inert: bool, left: Marker, right: Marker, src: String },
}

impl Piece {
    pub fn src(&self) -> &str {
        match self {
            Piece::Text(t) => t,
            Piece::Tag { src, .. } => src,
        }
    }
}

/// The rules of `expected`, stated per text run of an arbitrary printed program: for every
/// `Piece::Text` the characters of it that reach the output (`None` for tags). Text runs must be
/// maximal (no two adjacent, none empty).
pub fn effective_texts(pieces: &[Piece], cfg: Settings) -> Vec<Option<String>> {
    let full: String = pieces.iter().map(|p| p.src()).collect();
    let last_text = pieces.len().checked_sub(1).filter(|i| matches!(pieces[*i], Piece::Text(_)));
    let mut out = vec![];
    let mut pos = 0usize;
    for (i, p) in pieces.iter().enumerate() {
        match p {
            Piece::Tag { src, .. } => {
                out.push(None);
                pos += src.len();
            }
            Piece::Text(t) => {
                let mut t: &str = t;
                let whole_len = t.len();
                // one trailing line ending of the template is removed unless keep_trailing_newline
                if !cfg.keep_trailing_newline && last_text == Some(i) {
                    // (LF, CRLF or a lone CR, as in `expected`)
                    if let Some(r) = t.strip_suffix('\n') {
                        t = r;
                    }
                    if let Some(r) = t.strip_suffix('\r') {
                        t = r;
                    }
                }
                let visible_len = t.len();
                let mut s: &str = t;
                if i > 0 {
                    if let Piece::Tag { block_like, inert, right, .. } = &pieces[i - 1] {
                        match right {
                            _ if *inert => {}
                            Marker::Minus => s = s.trim_start(),
                            Marker::None if cfg.trim_blocks && *block_like => s = strip_one_newline(s),
                            _ => {}
                        }
                    }
                }
                if let Some(Piece::Tag { block_like, inert, left, .. }) = pieces.get(i + 1) {
                    match left {
                        _ if *inert => {}
                        Marker::Minus => s = s.trim_end(),
                        Marker::None if cfg.lstrip_blocks && *block_like => {
                            if at_line_start(&full, pos + visible_len) {
                                s = strip_trailing_horizontal(s);
                            }
                        }
                        _ => {}
                    }
                }
                out.push(Some(s.to_string()));
                pos += whole_len;
            }
        }
    }
    out
}

#[cfg(test)]
mod tests {
    use super::*;
    use Marker::*;
    #[test]
    fn documented_examples() {
        let all_off = Settings { trim_blocks: false, lstrip_blocks: false, keep_trailing_newline: false };
        let tl = Settings { trim_blocks: true, lstrip_blocks: true, keep_trailing_newline: false };
        let segs = vec![Seg::Text("<div>\n    ".into()), Seg::Block(None, None), Seg::Text("\n        yay\n    ".into()), Seg::Block(None, None), Seg::Text("\n</div>\n".into())];
        assert_eq!(expected(&segs, all_off), "<div>\n    \n        yay\n    \n</div>");
        assert_eq!(expected(&segs, tl), "<div>\n        yay\n</div>");
        let segs = vec![Seg::Text("a  \n ".into()), Seg::Var(Minus, Minus), Seg::Text(" \n b".into())];
        assert_eq!(expected(&segs, all_off), "aVb");
        let segs = vec![Seg::Text("a\n  ".into()), Seg::Block(Plus, Plus), Seg::Text("\nb".into())];
        assert_eq!(expected(&segs, tl), "a\n  \nb");
    }

    #[test]
    fn pieces_agree_with_sequences() {
        let tl = Settings { trim_blocks: true, lstrip_blocks: true, keep_trailing_newline: false };
        let segs = vec![Seg::Text("<div>\n    ".into()), Seg::Block(None, None), Seg::Text("\n        yay\n    ".into()), Seg::Block(Minus, None), Seg::Text("\n</div>\n".into())];
        let pieces: Vec<Piece> = segs
            .iter()
            .map(|s| match s {
                Seg::Text(t) => Piece::Text(t.clone()),
                other => Piece::Tag { block_like: true, inert: false, left: other.left(), right: other.right(), src: other.source() },
            })
            .collect();
        let joined: String = effective_texts(&pieces, tl).into_iter().flatten().collect();
        assert_eq!(joined, expected(&segs, tl));
    }
}
