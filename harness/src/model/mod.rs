pub mod bigint;
