pub mod bigint;
pub mod pyslice;
