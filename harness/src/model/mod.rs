pub mod bigint;
pub mod pyslice;
pub mod json;
pub mod ws;
