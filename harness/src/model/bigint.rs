//! Minimal sign+magnitude big integer, used as the exact oracle for C08.
//! Independent of the engine; limbs are base 2^32, little endian.
use std::cmp::Ordering;

#[derive(Clone, Debug, PartialEq, Eq)]
pub struct BigInt {
    pub neg: bool,
    pub mag: Vec<u32>, // no trailing zeros; empty = 0
}

fn trim(v: &mut Vec<u32>) {
    while v.last() == Some(&0) {
        v.pop();
    }
}

fn cmp_mag(a: &[u32], b: &[u32]) -> Ordering {
    if a.len() != b.len() {
        return a.len().cmp(&b.len());
    }
    for i in (0..a.len()).rev() {
        if a[i] != b[i] {
            return a[i].cmp(&b[i]);
        }
    }
    Ordering::Equal
}

fn add_mag(a: &[u32], b: &[u32]) -> Vec<u32> {
    let mut out = Vec::with_capacity(a.len().max(b.len()) + 1);
    let mut carry = 0u64;
    for i in 0..a.len().max(b.len()) {
        let s = carry + *a.get(i).unwrap_or(&0) as u64 + *b.get(i).unwrap_or(&0) as u64;
        out.push(s as u32);
        carry = s >> 32;
    }
    if carry > 0 {
        out.push(carry as u32);
    }
    trim(&mut out);
    out
}

// a >= b required
fn sub_mag(a: &[u32], b: &[u32]) -> Vec<u32> {
    let mut out = Vec::with_capacity(a.len());
    let mut borrow = 0i64;
    for i in 0..a.len() {
        let mut d = a[i] as i64 - borrow - *b.get(i).unwrap_or(&0) as i64;
        if d < 0 {
            d += 1 << 32;
            borrow = 1;
        } else {
            borrow = 0;
        }
        out.push(d as u32);
    }
    assert_eq!(borrow, 0);
    trim(&mut out);
    out
}

fn mul_mag(a: &[u32], b: &[u32]) -> Vec<u32> {
    if a.is_empty() || b.is_empty() {
        return vec![];
    }
    let mut out = vec![0u32; a.len() + b.len()];
    for (i, &x) in a.iter().enumerate() {
        let mut carry = 0u64;
        for (j, &y) in b.iter().enumerate() {
            let cur = out[i + j] as u64 + (x as u64) * (y as u64) + carry;
            out[i + j] = cur as u32;
            carry = cur >> 32;
        }
        let mut k = i + b.len();
        while carry > 0 {
            let cur = out[k] as u64 + carry;
            out[k] = cur as u32;
            carry = cur >> 32;
            k += 1;
        }
    }
    trim(&mut out);
    out
}

impl BigInt {
    pub fn zero() -> BigInt {
        BigInt {
            neg: false,
            mag: vec![],
        }
    }
    pub fn from_u128(mut v: u128) -> BigInt {
        let mut mag = vec![];
        while v > 0 {
            mag.push(v as u32);
            v >>= 32;
        }
        BigInt { neg: false, mag }
    }
    pub fn from_i128(v: i128) -> BigInt {
        let mut r = BigInt::from_u128(v.unsigned_abs());
        r.neg = v < 0;
        r
    }
    pub fn is_zero(&self) -> bool {
        self.mag.is_empty()
    }
    fn norm(mut self) -> BigInt {
        trim(&mut self.mag);
        if self.mag.is_empty() {
            self.neg = false;
        }
        self
    }
    pub fn negate(&self) -> BigInt {
        BigInt {
            neg: !self.neg,
            mag: self.mag.clone(),
        }
        .norm()
    }
    pub fn add(&self, o: &BigInt) -> BigInt {
        if self.neg == o.neg {
            return BigInt {
                neg: self.neg,
                mag: add_mag(&self.mag, &o.mag),
            }
            .norm();
        }
        match cmp_mag(&self.mag, &o.mag) {
            Ordering::Equal => BigInt::zero(),
            Ordering::Greater => BigInt {
                neg: self.neg,
                mag: sub_mag(&self.mag, &o.mag),
            }
            .norm(),
            Ordering::Less => BigInt {
                neg: o.neg,
                mag: sub_mag(&o.mag, &self.mag),
            }
            .norm(),
        }
    }
    pub fn sub(&self, o: &BigInt) -> BigInt {
        self.add(&o.negate())
    }
    pub fn mul(&self, o: &BigInt) -> BigInt {
        BigInt {
            neg: self.neg != o.neg,
            mag: mul_mag(&self.mag, &o.mag),
        }
        .norm()
    }
    pub fn bits(&self) -> usize {
        match self.mag.last() {
            None => 0,
            Some(top) => (self.mag.len() - 1) * 32 + (32 - top.leading_zeros() as usize),
        }
    }
    /// self ** e; returns None when the magnitude would exceed `max_bits` bits
    /// (the caller only needs to know the result is outside every machine range).
    pub fn pow(&self, e: u128, max_bits: usize) -> Option<BigInt> {
        if e == 0 {
            return Some(BigInt::from_u128(1));
        }
        if self.is_zero() {
            return Some(BigInt::zero());
        }
        if self.mag == [1] {
            return Some(BigInt {
                neg: self.neg && e % 2 == 1,
                mag: vec![1],
            });
        }
        // |self| >= 2: result has at least e+1 bits
        if e > max_bits as u128 {
            return None;
        }
        let mut result = BigInt::from_u128(1);
        for _ in 0..e {
            result = result.mul(self);
            if result.bits() > max_bits {
                return None;
            }
        }
        Some(result)
    }
    pub fn shl(&self, n: usize) -> BigInt {
        let mut r = self.clone();
        for _ in 0..n / 16 {
            r = r.mul(&BigInt::from_u128(1 << 16));
        }
        r.mul(&BigInt::from_u128(1u128 << (n % 16)))
    }
    pub fn to_u128_mag(&self) -> Option<u128> {
        if self.mag.len() > 4 {
            return None;
        }
        let mut v = 0u128;
        for (i, &l) in self.mag.iter().enumerate() {
            v |= (l as u128) << (32 * i);
        }
        Some(v)
    }
    pub fn fits_i128(&self) -> bool {
        match self.to_u128_mag() {
            None => false,
            Some(m) => {
                if self.neg {
                    m <= 1u128 << 127
                } else {
                    m < 1u128 << 127
                }
            }
        }
    }
    /// Euclidean division: self = q*d + r with 0 <= r < |d|. Both magnitudes must fit in u128.
    pub fn div_rem_euclid(&self, d: &BigInt) -> Option<(BigInt, BigInt)> {
        let a = self.to_u128_mag()?;
        let b = d.to_u128_mag()?;
        if b == 0 {
            return None;
        }
        let qm = a / b;
        let rm = a % b;
        let (q_mag, r) = if !self.neg || rm == 0 {
            (BigInt::from_u128(qm), BigInt::from_u128(rm))
        } else {
            (
                BigInt::from_u128(qm).add(&BigInt::from_u128(1)),
                BigInt::from_u128(b - rm),
            )
        };
        // sign of q: a>=0: sign(b); a<0: -sign(b)
        let q_neg = self.neg != d.neg;
        let q = BigInt {
            neg: q_neg,
            mag: q_mag.mag,
        }
        .norm();
        Some((q, r))
    }
    pub fn parse(s: &str) -> Option<BigInt> {
        let (neg, digits) = match s.strip_prefix('-') {
            Some(d) => (true, d),
            None => (false, s),
        };
        if digits.is_empty() || !digits.bytes().all(|b| b.is_ascii_digit()) {
            return None;
        }
        let ten = BigInt::from_u128(10);
        let mut r = BigInt::zero();
        for b in digits.bytes() {
            r = r.mul(&ten).add(&BigInt::from_u128((b - b'0') as u128));
        }
        r.neg = neg;
        Some(r.norm())
    }
    pub fn cmp(&self, o: &BigInt) -> Ordering {
        match (self.neg, o.neg) {
            (false, true) => Ordering::Greater,
            (true, false) => Ordering::Less,
            (false, false) => cmp_mag(&self.mag, &o.mag),
            (true, true) => cmp_mag(&o.mag, &self.mag),
        }
    }
}

impl std::fmt::Display for BigInt {
    fn fmt(&self, f: &mut std::fmt::Formatter<'_>) -> std::fmt::Result {
        if self.is_zero() {
            return f.write_str("0");
        }
        let mut digits = vec![];
        let mut mag = self.mag.clone();
        while !mag.is_empty() {
            // divide by 10^9
            let mut rem = 0u64;
            for i in (0..mag.len()).rev() {
                let cur = (rem << 32) | mag[i] as u64;
                mag[i] = (cur / 1_000_000_000) as u32;
                rem = cur % 1_000_000_000;
            }
            trim(&mut mag);
            digits.push(rem as u32);
        }
        let mut s = String::new();
        if self.neg {
            s.push('-');
        }
        s.push_str(&format!("{}", digits.last().unwrap()));
        for d in digits.iter().rev().skip(1) {
            s.push_str(&format!("{:09}", d));
        }
        f.write_str(&s)
    }
}

#[cfg(test)]
mod tests {
    use super::*;
    #[test]
    fn basics() {
        let a = BigInt::parse("340282366920938463463374607431768211455").unwrap();
        assert_eq!(a.to_u128_mag(), Some(u128::MAX));
        assert_eq!(a.add(&a).to_string(), "680564733841876926926749214863536422910");
        assert_eq!(BigInt::from_i128(i128::MIN).to_string(), i128::MIN.to_string());
        let (q, r) = BigInt::from_i128(-7).div_rem_euclid(&BigInt::from_i128(2)).unwrap();
        assert_eq!((q.to_string(), r.to_string()), ("-4".into(), "1".into()));
        let (q, r) = BigInt::from_i128(-7).div_rem_euclid(&BigInt::from_i128(-2)).unwrap();
        assert_eq!((q.to_string(), r.to_string()), ("4".into(), "1".into()));
        let (q, r) = BigInt::from_i128(7).div_rem_euclid(&BigInt::from_i128(-2)).unwrap();
        assert_eq!((q.to_string(), r.to_string()), ("-3".into(), "1".into()));
        assert_eq!(BigInt::from_i128(-3).pow(3, 300).unwrap().to_string(), "-27");
        assert_eq!(BigInt::from_i128(2).pow(200, 300).unwrap().bits(), 201);
        assert!(BigInt::from_i128(2).pow(400, 300).is_none());
        assert!(BigInt::from_i128(i128::MIN).fits_i128());
        assert!(!BigInt::from_u128(1 << 127).fits_i128());
    }
}
