//! Python's slice.indices + element selection, written from the language reference.
//! Bounds are i128 so that callers can pass anything a template can write.

/// Returns the selected indices for a sequence of length `len`, or None for step == 0.
pub fn slice_indices(
    len: usize,
    start: Option<i128>,
    stop: Option<i128>,
    step: Option<i128>,
) -> Option<Vec<usize>> {
    let len = len as i128;
    let step = step.unwrap_or(1);
    if step == 0 {
        return None;
    }
    let (lower, upper) = if step > 0 { (0, len) } else { (-1, len - 1) };
    let norm = |v: Option<i128>, default: i128| -> i128 {
        match v {
            None => default,
            Some(mut v) => {
                if v < 0 {
                    v += len;
                    if v < lower {
                        v = lower;
                    }
                } else if v > upper {
                    v = upper;
                }
                v
            }
        }
    };
    let start = norm(start, if step > 0 { lower } else { upper });
    let stop = norm(stop, if step > 0 { upper } else { lower });
    let mut out = vec![];
    let mut i = start;
    if step > 0 {
        while i < stop {
            out.push(i as usize);
            i = i.saturating_add(step);
        }
    } else {
        while i > stop {
            out.push(i as usize);
            i = i.saturating_add(step);
        }
    }
    Some(out)
}

/// Python's subscript: the index selected, or None when out of range.
pub fn subscript(len: usize, idx: i128) -> Option<usize> {
    let len = len as i128;
    let i = if idx < 0 { idx + len } else { idx };
    if i < 0 || i >= len {
        None
    } else {
        Some(i as usize)
    }
}

#[cfg(test)]
mod tests {
    use super::*;
    #[test]
    fn python_examples() {
        // 'abcdef'
        assert_eq!(slice_indices(6, Some(3), Some(0), Some(-1)).unwrap(), vec![3, 2, 1]);
        assert_eq!(slice_indices(6, Some(-9), None, Some(-1)).unwrap(), Vec::<usize>::new());
        assert_eq!(slice_indices(0, None, None, Some(-1)).unwrap(), Vec::<usize>::new());
        assert_eq!(slice_indices(6, Some(1), Some(4), Some(-1)).unwrap(), Vec::<usize>::new());
        assert_eq!(slice_indices(6, None, None, Some(-2)).unwrap(), vec![5, 3, 1]);
        assert_eq!(slice_indices(6, Some(-2), None, None).unwrap(), vec![4, 5]);
        assert_eq!(slice_indices(6, None, Some(-7), Some(-1)).unwrap(), vec![5, 4, 3, 2, 1, 0]);
        assert_eq!(slice_indices(6, Some(100), Some(-100), Some(-3)).unwrap(), vec![5, 2]);
        assert!(slice_indices(6, None, None, Some(0)).is_none());
        assert_eq!(subscript(3, -3), Some(0));
        assert_eq!(subscript(3, -4), None);
        assert_eq!(subscript(3, 3), None);
    }
}
