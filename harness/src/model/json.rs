//! Strict RFC 8259 parser to a tree that keeps number text. Independent of serde_json.

#[derive(Clone, Debug, PartialEq)]
pub enum J {
    Null,
    Bool(bool),
    /// number text exactly as written
    Num(String),
    Str(String),
    Arr(Vec<J>),
    /// entries in document order (duplicates kept)
    Obj(Vec<(String, J)>),
}

pub fn parse(text: &str) -> Result<J, String> {
    let mut p = P {
        b: text.as_bytes(),
        i: 0,
        depth: 0,
    };
    p.ws();
    let v = p.value()?;
    p.ws();
    if p.i != p.b.len() {
        return Err(format!("trailing data at byte {}", p.i));
    }
    Ok(v)
}

struct P<'a> {
    b: &'a [u8],
    i: usize,
    depth: usize,
}

impl P<'_> {
    fn ws(&mut self) {
        while let Some(c) = self.b.get(self.i) {
            if matches!(c, b' ' | b'\t' | b'\n' | b'\r') {
                self.i += 1;
            } else {
                break;
            }
        }
    }
    fn eat(&mut self, lit: &str) -> bool {
        if self.b[self.i..].starts_with(lit.as_bytes()) {
            self.i += lit.len();
            true
        } else {
            false
        }
    }
    fn value(&mut self) -> Result<J, String> {
        self.depth += 1;
        if self.depth > 512 {
            return Err("too deep".into());
        }
        let r = match self.b.get(self.i) {
            None => Err("unexpected end".to_string()),
            Some(b'n') => self.eat("null").then_some(J::Null).ok_or_else(|| "bad literal".to_string()),
            Some(b't') => self.eat("true").then_some(J::Bool(true)).ok_or_else(|| "bad literal".to_string()),
            Some(b'f') => self.eat("false").then_some(J::Bool(false)).ok_or_else(|| "bad literal".to_string()),
            Some(b'"') => self.string().map(J::Str),
            Some(b'[') => {
                self.i += 1;
                let mut items = vec![];
                self.ws();
                if self.b.get(self.i) == Some(&b']') {
                    self.i += 1;
                    Ok(J::Arr(items))
                } else {
                    loop {
                        self.ws();
                        items.push(self.value()?);
                        self.ws();
                        match self.b.get(self.i) {
                            Some(b',') => self.i += 1,
                            Some(b']') => {
                                self.i += 1;
                                break Ok(J::Arr(items));
                            }
                            _ => break Err(format!("expected , or ] at byte {}", self.i)),
                        }
                    }
                }
            }
            Some(b'{') => {
                self.i += 1;
                let mut items = vec![];
                self.ws();
                if self.b.get(self.i) == Some(&b'}') {
                    self.i += 1;
                    Ok(J::Obj(items))
                } else {
                    loop {
                        self.ws();
                        if self.b.get(self.i) != Some(&b'"') {
                            break Err(format!("expected string key at byte {}", self.i));
                        }
                        let k = self.string()?;
                        self.ws();
                        if self.b.get(self.i) != Some(&b':') {
                            break Err(format!("expected : at byte {}", self.i));
                        }
                        self.i += 1;
                        self.ws();
                        let v = self.value()?;
                        items.push((k, v));
                        self.ws();
                        match self.b.get(self.i) {
                            Some(b',') => self.i += 1,
                            Some(b'}') => {
                                self.i += 1;
                                break Ok(J::Obj(items));
                            }
                            _ => break Err(format!("expected , or }} at byte {}", self.i)),
                        }
                    }
                }
            }
            Some(b'-' | b'0'..=b'9') => self.number(),
            Some(c) => Err(format!("unexpected byte {c:#x} at {}", self.i)),
        };
        self.depth -= 1;
        r
    }
    fn number(&mut self) -> Result<J, String> {
        let start = self.i;
        if self.b.get(self.i) == Some(&b'-') {
            self.i += 1;
        }
        match self.b.get(self.i) {
            Some(b'0') => self.i += 1,
            Some(b'1'..=b'9') => {
                while matches!(self.b.get(self.i), Some(b'0'..=b'9')) {
                    self.i += 1;
                }
            }
            _ => return Err(format!("bad number at byte {start}")),
        }
        if self.b.get(self.i) == Some(&b'.') {
            self.i += 1;
            if !matches!(self.b.get(self.i), Some(b'0'..=b'9')) {
                return Err(format!("bad fraction at byte {start}"));
            }
            while matches!(self.b.get(self.i), Some(b'0'..=b'9')) {
                self.i += 1;
            }
        }
        if matches!(self.b.get(self.i), Some(b'e' | b'E')) {
            self.i += 1;
            if matches!(self.b.get(self.i), Some(b'+' | b'-')) {
                self.i += 1;
            }
            if !matches!(self.b.get(self.i), Some(b'0'..=b'9')) {
                return Err(format!("bad exponent at byte {start}"));
            }
            while matches!(self.b.get(self.i), Some(b'0'..=b'9')) {
                self.i += 1;
            }
        }
        Ok(J::Num(String::from_utf8(self.b[start..self.i].to_vec()).unwrap()))
    }
    fn hex4(&mut self) -> Result<u32, String> {
        let s = self.b.get(self.i..self.i + 4).ok_or("short \\u escape")?;
        let s = std::str::from_utf8(s).map_err(|_| "bad \\u escape")?;
        if !s.bytes().all(|c| c.is_ascii_hexdigit()) {
            return Err("bad \\u escape".into());
        }
        self.i += 4;
        u32::from_str_radix(s, 16).map_err(|_| "bad \\u escape".to_string())
    }
    fn string(&mut self) -> Result<String, String> {
        self.i += 1; // opening quote
        let mut out: Vec<u8> = vec![];
        loop {
            match self.b.get(self.i) {
                None => return Err("unterminated string".into()),
                Some(b'"') => {
                    self.i += 1;
                    break;
                }
                Some(c) if *c < 0x20 => return Err(format!("raw control character {c:#x} in string")),
                Some(b'\\') => {
                    self.i += 1;
                    let c = *self.b.get(self.i).ok_or("dangling backslash")?;
                    self.i += 1;
                    match c {
                        b'"' => out.push(b'"'),
                        b'\\' => out.push(b'\\'),
                        b'/' => out.push(b'/'),
                        b'b' => out.push(8),
                        b'f' => out.push(12),
                        b'n' => out.push(b'\n'),
                        b'r' => out.push(b'\r'),
                        b't' => out.push(b'\t'),
                        b'u' => {
                            let mut cp = self.hex4()?;
                            if (0xD800..0xDC00).contains(&cp) {
                                if self.eat("\\u") {
                                    let lo = self.hex4()?;
                                    if !(0xDC00..0xE000).contains(&lo) {
                                        return Err("high surrogate not followed by low surrogate".into());
                                    }
                                    cp = 0x10000 + ((cp - 0xD800) << 10) + (lo - 0xDC00);
                                } else {
                                    return Err("lone high surrogate".into());
                                }
                            } else if (0xDC00..0xE000).contains(&cp) {
                                return Err("lone low surrogate".into());
                            }
                            let ch = char::from_u32(cp).ok_or("bad code point")?;
                            let mut buf = [0u8; 4];
                            out.extend_from_slice(ch.encode_utf8(&mut buf).as_bytes());
                        }
                        other => return Err(format!("bad escape \\{}", other as char)),
                    }
                }
                Some(c) => {
                    out.push(*c);
                    self.i += 1;
                }
            }
        }
        String::from_utf8(out).map_err(|_| "invalid utf-8 in string".to_string())
    }
}

#[cfg(test)]
mod tests {
    use super::*;
    #[test]
    fn basics() {
        assert_eq!(parse(" [1, -2.5e+3, \"a\\u00e9\\ud83d\\ude00\", null, {\"k\": true}] ").unwrap(),
            J::Arr(vec![J::Num("1".into()), J::Num("-2.5e+3".into()), J::Str("aé😀".into()), J::Null, J::Obj(vec![("k".into(), J::Bool(true))])]));
        assert!(parse("[1,]").is_err());
        assert!(parse("01").is_err());
        assert!(parse("\"\\ud800\"").is_err());
        assert!(parse("\"a\nb\"").is_err());
        assert!(parse("NaN").is_err());
        assert!(parse("{1: 2}").is_err());
        assert!(parse("'a'").is_err());
    }
}
