//! Reference interpreter of the core fragment, written from the documentation
//! (minijinja/src/syntax.rs, the Jinja template designer docs). It never calls the engine.
//!
//! Scoping as documented: template-level `set` and `set` inside if-branches, set-blocks,
//! filter blocks persist in the enclosing scope; `for` bodies (per iteration), `with`,
//! macro and call bodies and blocks have their own scope. Look-ups go from the innermost
//! scope outwards, then to the context.
use std::cell::RefCell;
use std::collections::BTreeMap;
use std::rc::Rc;

use crate::gen::ast::*;

#[derive(Clone, Debug)]
pub enum V {
    Undef,
    None,
    Bool(bool),
    Int(i128),
    Str(String),
    List(Vec<V>),
    /// string keyed, insertion ordered
    Map(Vec<(String, V)>),
    Macro(Rc<MacroDef>),
    Caller(Rc<CallerDef>),
    Loop(Rc<RefCell<LoopState>>),
    /// imported module: exported names
    Module(Rc<BTreeMap<String, V>>),
}

#[derive(Debug)]
pub struct MacroDef {
    pub name: String,
    pub params: Vec<(String, Option<Expr>)>,
    pub body: Vec<Stmt>,
    /// variables visible at declaration (by value) plus the macro itself
    pub closure: RefCell<BTreeMap<String, V>>,
    /// template the macro was declared in (for blocks / self): index into Interp::chain is not needed
    pub template: String,
}

#[derive(Debug)]
pub struct CallerDef {
    pub params: Vec<(String, Option<Expr>)>,
    pub body: Vec<Stmt>,
    pub closure: BTreeMap<String, V>,
}

#[derive(Debug)]
pub struct LoopState {
    pub items: Vec<V>,
    pub idx: usize,
    pub depth0: usize,
    pub last_changed: Option<Vec<V>>,
    /// for recursive loops: target, body
    pub recursive: Option<(Target, Vec<Stmt>)>,
}

#[derive(Debug, Clone, PartialEq)]
pub enum RErr {
    /// kinds the documentation fixes
    CannotUnpack,
    TooManyArguments,
    UnknownKwarg,
    UndefinedAccess,
    TemplateNotFound(String),
    InheritanceCycle,
    IncludeCycle,
    DoubleExtends,
    SuperOutsideBlock,
    NoParentBlock,
    RequiredBlock,
    RecursionLimit,
    /// anything the generator should not have produced (a harness problem, not a verdict)
    Unsupported(String),
}

type R<T> = Result<T, RErr>;

enum Flow {
    Normal,
    Break,
    Continue,
}

pub fn is_true(v: &V) -> bool {
    match v {
        V::Undef | V::None => false,
        V::Bool(b) => *b,
        V::Int(i) => *i != 0,
        V::Str(s) => !s.is_empty(),
        V::List(l) => !l.is_empty(),
        V::Map(m) => !m.is_empty(),
        _ => true,
    }
}

fn repr(v: &V) -> String {
    match v {
        V::Str(s) => format!("'{s}'"),
        other => display(other),
    }
}

pub fn display(v: &V) -> String {
    match v {
        V::Undef => String::new(),
        V::None => "None".into(),
        V::Bool(true) => "True".into(),
        V::Bool(false) => "False".into(),
        V::Int(i) => i.to_string(),
        V::Str(s) => s.clone(),
        V::List(l) => format!("[{}]", l.iter().map(repr).collect::<Vec<_>>().join(", ")),
        V::Map(m) => format!(
            "{{{}}}",
            m.iter().map(|(k, v)| format!("'{k}': {}", repr(v))).collect::<Vec<_>>().join(", ")
        ),
        _ => "<object>".into(),
    }
}

fn veq(a: &V, b: &V) -> bool {
    match (a, b) {
        (V::Undef, V::Undef) | (V::None, V::None) => true,
        (V::Bool(x), V::Bool(y)) => x == y,
        (V::Int(x), V::Int(y)) => x == y,
        (V::Bool(x), V::Int(y)) | (V::Int(y), V::Bool(x)) => (*x as i128) == *y,
        (V::Str(x), V::Str(y)) => x == y,
        (V::List(x), V::List(y)) => x.len() == y.len() && x.iter().zip(y).all(|(p, q)| veq(p, q)),
        (V::Map(x), V::Map(y)) => {
            x.len() == y.len() && x.iter().all(|(k, v)| y.iter().any(|(k2, v2)| k == k2 && veq(v, v2)))
        }
        _ => false,
    }
}

fn vcmp(a: &V, b: &V) -> R<std::cmp::Ordering> {
    match (a, b) {
        (V::Int(x), V::Int(y)) => Ok(x.cmp(y)),
        (V::Str(x), V::Str(y)) => Ok(x.cmp(y)),
        (V::List(x), V::List(y)) => {
            for (p, q) in x.iter().zip(y) {
                let o = vcmp(p, q)?;
                if o != std::cmp::Ordering::Equal {
                    return Ok(o);
                }
            }
            Ok(x.len().cmp(&y.len()))
        }
        _ => Err(RErr::Unsupported(format!("ordering of {a:?} and {b:?}"))),
    }
}

struct Frame {
    vars: BTreeMap<String, V>,
    looping: Option<Rc<RefCell<LoopState>>>,
}

pub struct Interp<'a> {
    pub templates: &'a BTreeMap<String, Vec<Stmt>>,
    pub ctx: BTreeMap<String, V>,
    frames: Vec<Frame>,
    out: Vec<String>,
    /// block table of the current render: name -> definitions, most derived first, with the
    /// template each comes from
    blocks: BTreeMap<String, Vec<(String, Vec<Stmt>)>>,
    /// (template, block) pairs declared `required`
    required: std::collections::BTreeSet<(String, String)>,
    /// every macro declared during the render (each holds itself in its closure)
    all_macros: Vec<Rc<MacroDef>>,
    /// (block name, level) of the block being rendered
    current_block: Vec<(String, usize)>,
    depth: usize,
    include_stack: Vec<String>,
    pub steps: usize,
}

const MAX_DEPTH: usize = 120;

impl Drop for Interp<'_> {
    fn drop(&mut self) {
        // cut the macro <-> closure reference cycles, otherwise every program with a macro leaks
        for m in self.all_macros.drain(..) {
            m.closure.borrow_mut().clear();
        }
    }
}

impl<'a> Interp<'a> {
    pub fn new(templates: &'a BTreeMap<String, Vec<Stmt>>, ctx: BTreeMap<String, V>) -> Interp<'a> {
        Interp {
            templates,
            ctx,
            frames: vec![],
            out: vec![String::new()],
            blocks: BTreeMap::new(),
            required: Default::default(),
            all_macros: vec![],
            current_block: vec![],
            depth: 0,
            include_stack: vec![],
            steps: 0,
        }
    }

    pub fn render(mut self, name: &str) -> R<String> {
        self.frames.push(Frame {
            vars: BTreeMap::new(),
            looping: None,
        });
        self.render_template(name)?;
        Ok(self.out.pop().unwrap())
    }

    fn emit(&mut self, s: &str) {
        self.out.last_mut().unwrap().push_str(s);
    }

    fn lookup(&self, name: &str) -> V {
        for f in self.frames.iter().rev() {
            if let Some(v) = f.vars.get(name) {
                return v.clone();
            }
            if name == "loop" {
                if let Some(l) = &f.looping {
                    return V::Loop(l.clone());
                }
            }
        }
        self.ctx.get(name).cloned().unwrap_or(V::Undef)
    }

    fn assign(&mut self, name: &str, v: V) {
        self.frames.last_mut().unwrap().vars.insert(name.to_string(), v);
    }

    fn assign_target(&mut self, t: &Target, v: V) -> R<()> {
        match t {
            Target::Name(n) => {
                self.assign(n, v);
                Ok(())
            }
            Target::Tuple(ts) => {
                let items = match v {
                    V::List(l) => l,
                    _ => return Err(RErr::CannotUnpack),
                };
                if items.len() != ts.len() {
                    return Err(RErr::CannotUnpack);
                }
                for (t, i) in ts.iter().zip(items) {
                    self.assign_target(t, i)?;
                }
                Ok(())
            }
            Target::Attr(..) => Err(RErr::Unsupported("namespace assignment".into())),
        }
    }

    /// everything visible right now, by value (macro closures)
    fn snapshot(&self) -> BTreeMap<String, V> {
        let mut m = BTreeMap::new();
        for f in &self.frames {
            for (k, v) in &f.vars {
                m.insert(k.clone(), v.clone());
            }
            if let Some(l) = &f.looping {
                m.insert("loop".into(), V::Loop(l.clone()));
            }
        }
        m
    }

    // ------------------------------------------------------------------ templates

    /// Runs a template: its own statements with output discarded once it extends, then the parent.
    fn render_template(&mut self, name: &str) -> R<()> {
        // collect the inheritance chain lazily: extends is a statement that may be conditional
        let mut current = name.to_string();
        let mut seen = vec![current.clone()];
        // block tables are built while walking up: most derived first
        let saved_blocks = std::mem::take(&mut self.blocks);
        let result = (|| -> R<()> {
            loop {
                let body = self
                    .templates
                    .get(&current)
                    .ok_or_else(|| RErr::TemplateNotFound(current.clone()))?
                    .clone();
                // register this template's blocks below the more derived ones
                let mut found = vec![];
                collect_blocks(&body, &mut found);
                for (bname, bbody, req) in found {
                    if req {
                        self.required.insert((current.clone(), bname.clone()));
                    }
                    self.blocks.entry(bname).or_default().push((current.clone(), bbody));
                }
                let mut parent: Option<String> = None;
                let flow = self.exec_template_body(&body, &current, &mut parent)?;
                let _ = flow;
                match parent {
                    None => return Ok(()),
                    Some(p) => {
                        if seen.contains(&p) {
                            return Err(RErr::InheritanceCycle);
                        }
                        seen.push(p.clone());
                        current = p;
                    }
                }
            }
        })();
        self.blocks = saved_blocks;
        result
    }

    /// top-level statements of a template; after an `extends` executed, output is discarded
    /// (but set / macro / import statements still run) and the parent is rendered afterwards
    fn exec_template_body(&mut self, body: &[Stmt], tname: &str, parent: &mut Option<String>) -> R<()> {
        let mut discarding = false;
        for s in body {
            if let Stmt::Extends(e) = s {
                let v = self.eval(e)?;
                let V::Str(p) = v else {
                    return Err(RErr::Unsupported("extends of non-string".into()));
                };
                if parent.is_some() {
                    return Err(RErr::DoubleExtends);
                }
                if !self.templates.contains_key(&p) {
                    return Err(RErr::TemplateNotFound(p));
                }
                *parent = Some(p);
                if !discarding {
                    discarding = true;
                    self.out.push(String::new());
                }
                continue;
            }
            // extends inside an if at top level
            if let Stmt::If { branches, else_ } = s {
                if contains_extends(s) {
                    let mut taken: Option<&Vec<Stmt>> = None;
                    for (c, b) in branches {
                        if is_true(&self.eval(c)?) {
                            taken = Some(b);
                            break;
                        }
                    }
                    if taken.is_none() {
                        taken = else_.as_ref();
                    }
                    if let Some(b) = taken {
                        let was = parent.is_some();
                        self.exec_template_body_nested(b, tname, parent)?;
                        if parent.is_some() && !was && !discarding {
                            discarding = true;
                            self.out.push(String::new());
                        }
                    }
                    continue;
                }
            }
            if let Stmt::Block { name, .. } = s {
                // a block tag renders the most derived definition in place — unless this
                // template extends another one (then blocks are only definitions)
                if parent.is_none() {
                    self.render_block(name, 0, tname)?;
                }
                continue;
            }
            match self.exec(s, tname)? {
                Flow::Normal => {}
                _ => return Err(RErr::Unsupported("break outside loop".into())),
            }
        }
        if discarding {
            self.out.pop();
        }
        Ok(())
    }

    fn exec_template_body_nested(&mut self, body: &[Stmt], tname: &str, parent: &mut Option<String>) -> R<()> {
        for s in body {
            if let Stmt::Extends(e) = s {
                let V::Str(p) = self.eval(e)? else {
                    return Err(RErr::Unsupported("extends of non-string".into()));
                };
                if parent.is_some() {
                    return Err(RErr::DoubleExtends);
                }
                if !self.templates.contains_key(&p) {
                    return Err(RErr::TemplateNotFound(p));
                }
                *parent = Some(p);
                continue;
            }
            if parent.is_some() {
                // output after the extends is discarded
                self.out.push(String::new());
                let r = self.exec(s, tname);
                self.out.pop();
                r?;
            } else {
                self.exec(s, tname)?;
            }
        }
        Ok(())
    }

    fn render_block(&mut self, name: &str, level: usize, _tname: &str) -> R<()> {
        let defs = self.blocks.get(name).cloned().unwrap_or_default();
        let Some((from, body)) = defs.get(level).cloned() else {
            return Err(RErr::NoParentBlock);
        };
        // a required block has to be overridden before it can render
        if self.required.contains(&(from.clone(), name.to_string())) {
            return Err(RErr::RequiredBlock);
        }
        self.depth += 1;
        if self.depth > MAX_DEPTH {
            return Err(RErr::RecursionLimit);
        }
        self.frames.push(Frame {
            vars: BTreeMap::new(),
            looping: None,
        });
        self.current_block.push((name.to_string(), level));
        let r = self.exec_body(&body, &from);
        self.current_block.pop();
        self.frames.pop();
        self.depth -= 1;
        match r? {
            Flow::Normal => Ok(()),
            _ => Err(RErr::Unsupported("break out of block".into())),
        }
    }

    // ------------------------------------------------------------------ statements

    fn exec_body(&mut self, body: &[Stmt], tname: &str) -> R<Flow> {
        for s in body {
            match self.exec(s, tname)? {
                Flow::Normal => {}
                other => return Ok(other),
            }
        }
        Ok(Flow::Normal)
    }

    fn capture(&mut self, body: &[Stmt], tname: &str) -> R<(String, Flow)> {
        self.out.push(String::new());
        let r = self.exec_body(body, tname);
        let s = self.out.pop().unwrap();
        Ok((s, r?))
    }

    fn exec(&mut self, s: &Stmt, tname: &str) -> R<Flow> {
        self.steps += 1;
        if self.steps > 200_000 {
            return Err(RErr::Unsupported("step budget".into()));
        }
        match s {
            Stmt::Text(t) | Stmt::Raw(t) => self.emit(t),
            Stmt::Comment(_) => {}
            Stmt::Emit(e) => {
                let v = self.eval(e)?;
                let text = display(&v);
                self.emit(&text);
            }
            Stmt::If { branches, else_ } => {
                for (c, b) in branches {
                    if is_true(&self.eval(c)?) {
                        return self.exec_body(b, tname);
                    }
                }
                if let Some(e) = else_ {
                    return self.exec_body(e, tname);
                }
            }
            Stmt::For { target, iter, filter, recursive, body, else_ } => {
                let it = self.eval(iter)?;
                let items = self.to_items(&it)?;
                let depth0 = 0;
                let text = self.run_loop(target, items, filter.as_ref(), *recursive, body, else_.as_deref(), depth0, tname)?;
                self.emit(&text);
            }
            Stmt::Set { target, value } => {
                let v = self.eval(value)?;
                self.assign_target(target, v)?;
            }
            Stmt::SetBlock { name, filter, body } => {
                let (text, flow) = self.capture(body, tname)?;
                if !matches!(flow, Flow::Normal) {
                    return Ok(flow);
                }
                let mut v = V::Str(text);
                if let Some((f, args)) = filter {
                    let a = self.eval_args(args)?;
                    v = self.apply_filter(f, v, a)?;
                }
                self.assign(name, v);
            }
            Stmt::With { bindings, body } => {
                self.frames.push(Frame {
                    vars: BTreeMap::new(),
                    looping: None,
                });
                let r = (|| -> R<Flow> {
                    for (t, e) in bindings {
                        let v = self.eval(e)?;
                        self.assign_target(t, v)?;
                    }
                    self.exec_body(body, tname)
                })();
                self.frames.pop();
                return r;
            }
            Stmt::FilterBlock { name, args, body } => {
                let (text, flow) = self.capture(body, tname)?;
                if !matches!(flow, Flow::Normal) {
                    // the text written before the break is dropped with the construct
                    return Ok(flow);
                }
                let a = self.eval_args(args)?;
                let v = self.apply_filter(name, V::Str(text), a)?;
                let t = display(&v);
                self.emit(&t);
            }
            Stmt::AutoEscape { body, .. } => return self.exec_body(body, tname),
            Stmt::Macro { name, params, body } => {
                let def = Rc::new(MacroDef {
                    name: name.clone(),
                    params: params.clone(),
                    body: body.clone(),
                    closure: RefCell::new(self.snapshot()),
                    template: tname.to_string(),
                });
                def.closure.borrow_mut().insert(name.clone(), V::Macro(def.clone()));
                // the macro is in its own closure: remembered so that the cycle can be cut when
                // the interpreter goes away
                self.all_macros.push(def.clone());
                self.assign(name, V::Macro(def));
            }
            Stmt::CallBlock { params, call, body } => {
                let Expr::Call(callee, args) = call else {
                    return Err(RErr::Unsupported("call block without call".into()));
                };
                let f = self.eval(callee)?;
                let caller = V::Caller(Rc::new(CallerDef {
                    params: params.clone(),
                    body: body.clone(),
                    closure: self.snapshot(),
                }));
                let (pos, kw) = self.eval_call_args(args)?;
                let v = self.call_value(&f, pos, kw, Some(caller), tname)?;
                let t = display(&v);
                self.emit(&t);
            }
            Stmt::Do(e) => {
                self.eval(e)?;
            }
            Stmt::Break => return Ok(Flow::Break),
            Stmt::Continue => return Ok(Flow::Continue),
            Stmt::Block { name, .. } => {
                // a block nested in another construct renders in place
                self.render_block(name, 0, tname)?;
            }
            Stmt::Extends(_) => return Err(RErr::Unsupported("extends in nested position".into())),
            Stmt::Include { name, ignore_missing } => {
                let v = self.eval(name)?;
                let choices: Vec<String> = match v {
                    V::Str(s) => vec![s],
                    V::List(l) => l
                        .into_iter()
                        .map(|x| match x {
                            V::Str(s) => Ok(s),
                            _ => Err(RErr::Unsupported("include of non-string".into())),
                        })
                        .collect::<R<Vec<_>>>()?,
                    _ => return Err(RErr::Unsupported("include of non-string".into())),
                };
                let found = choices.iter().find(|c| self.templates.contains_key(*c)).cloned();
                match found {
                    None => {
                        if !*ignore_missing {
                            return Err(RErr::TemplateNotFound(choices.join(",")));
                        }
                    }
                    Some(t) => {
                        self.depth += 10;
                        if self.depth > MAX_DEPTH || self.include_stack.len() > 12 {
                            return Err(RErr::IncludeCycle);
                        }
                        self.include_stack.push(t.clone());
                        // the included template sees the includer's current variables; it renders
                        // with its own inheritance chain and block table
                        let saved_block = std::mem::take(&mut self.current_block);
                        let r = self.render_template(&t);
                        self.current_block = saved_block;
                        self.include_stack.pop();
                        self.depth -= 10;
                        r?;
                    }
                }
            }
            Stmt::Import { name, alias } => {
                let m = self.load_module(name)?;
                self.assign(alias, V::Module(Rc::new(m)));
            }
            Stmt::FromImport { name, names } => {
                let m = self.load_module(name)?;
                for (n, alias) in names {
                    let v = m.get(n).cloned().unwrap_or(V::Undef);
                    self.assign(alias.as_ref().unwrap_or(n), v);
                }
            }
        }
        Ok(Flow::Normal)
    }

    /// a module exposes exactly the imported template's top-level macros and variables
    fn load_module(&mut self, name: &Expr) -> R<BTreeMap<String, V>> {
        let V::Str(t) = self.eval(name)? else {
            return Err(RErr::Unsupported("import of non-string".into()));
        };
        if !self.templates.contains_key(&t) {
            return Err(RErr::TemplateNotFound(t));
        }
        self.depth += 10;
        if self.depth > MAX_DEPTH {
            return Err(RErr::IncludeCycle);
        }
        // the module body runs in its own top-level scope (it still sees the importer's variables)
        self.frames.push(Frame {
            vars: BTreeMap::new(),
            looping: None,
        });
        self.out.push(String::new());
        let saved_block = std::mem::take(&mut self.current_block);
        let r = self.render_template(&t);
        self.current_block = saved_block;
        self.out.pop();
        let frame = self.frames.pop().unwrap();
        self.depth -= 10;
        r?;
        Ok(frame.vars)
    }

    fn to_items(&self, v: &V) -> R<Vec<V>> {
        match v {
            V::List(l) => Ok(l.clone()),
            V::Str(s) => Ok(s.chars().map(|c| V::Str(c.to_string())).collect()),
            V::Map(m) => Ok(m.iter().map(|(k, _)| V::Str(k.clone())).collect()),
            V::Undef | V::None => Ok(vec![]),
            _ => Err(RErr::Unsupported(format!("iteration over {v:?}"))),
        }
    }

    #[allow(clippy::too_many_arguments)]
    fn run_loop(
        &mut self,
        target: &Target,
        items: Vec<V>,
        filter: Option<&Expr>,
        recursive: bool,
        body: &[Stmt],
        else_: Option<&[Stmt]>,
        depth0: usize,
        tname: &str,
    ) -> R<String> {
        self.depth += 1;
        if self.depth > MAX_DEPTH {
            return Err(RErr::RecursionLimit);
        }
        // the loop filter selects the items first; loop.* describe the filtered sequence
        let mut selected = vec![];
        if let Some(f) = filter {
            for it in items {
                self.frames.push(Frame {
                    vars: BTreeMap::new(),
                    looping: None,
                });
                let r = (|| -> R<bool> {
                    self.assign_target(target, it.clone())?;
                    Ok(is_true(&self.eval(f)?))
                })();
                self.frames.pop();
                if r? {
                    selected.push(it);
                }
            }
        } else {
            selected = items;
        }
        let state = Rc::new(RefCell::new(LoopState {
            items: selected.clone(),
            idx: 0,
            depth0,
            last_changed: None,
            recursive: if recursive { Some((target.clone(), body.to_vec())) } else { None },
        }));
        self.out.push(String::new());
        let mut result: R<()> = Ok(());
        'outer: for (i, it) in selected.iter().enumerate() {
            state.borrow_mut().idx = i;
            self.frames.push(Frame {
                vars: BTreeMap::new(),
                looping: Some(state.clone()),
            });
            let r = (|| -> R<Flow> {
                self.assign_target(target, it.clone())?;
                self.exec_body(body, tname)
            })();
            self.frames.pop();
            match r {
                Ok(Flow::Break) => break 'outer,
                Ok(_) => {}
                Err(e) => {
                    result = Err(e);
                    break 'outer;
                }
            }
        }
        let text = self.out.pop().unwrap();
        result?;
        let mut text = text;
        if selected.is_empty() {
            if let Some(e) = else_ {
                let (t, flow) = self.capture(e, tname)?;
                if !matches!(flow, Flow::Normal) {
                    return Err(RErr::Unsupported("break in else".into()));
                }
                text.push_str(&t);
            }
        }
        self.depth -= 1;
        Ok(text)
    }

    // ------------------------------------------------------------------ expressions

    fn eval_args(&mut self, args: &[Arg]) -> R<Vec<V>> {
        let (pos, kw) = self.eval_call_args(args)?;
        if !kw.is_empty() {
            return Err(RErr::Unsupported("keyword arguments to a filter".into()));
        }
        Ok(pos)
    }

    fn eval_call_args(&mut self, args: &[Arg]) -> R<(Vec<V>, Vec<(String, V)>)> {
        let mut pos = vec![];
        let mut kw = vec![];
        for a in args {
            match a {
                Arg::Pos(e) => pos.push(self.eval(e)?),
                Arg::Kw(k, e) => kw.push((k.clone(), self.eval(e)?)),
                _ => return Err(RErr::Unsupported("splat".into())),
            }
        }
        Ok((pos, kw))
    }

    pub fn eval(&mut self, e: &Expr) -> R<V> {
        Ok(match e {
            Expr::Int(s) => V::Int(s.parse().map_err(|_| RErr::Unsupported("int".into()))?),
            Expr::Float(_) => return Err(RErr::Unsupported("float".into())),
            Expr::Str(s) => V::Str(s.clone()),
            Expr::Bool(b) => V::Bool(*b),
            Expr::None => V::None,
            Expr::Var(n) => self.lookup(n),
            Expr::Paren(e) => self.eval(e)?,
            Expr::List(items) | Expr::Tuple(items) => {
                let mut out = vec![];
                for i in items {
                    out.push(self.eval(i)?);
                }
                V::List(out)
            }
            Expr::Map(entries) => {
                let mut out: Vec<(String, V)> = vec![];
                for (k, v) in entries {
                    let V::Str(k) = self.eval(k)? else {
                        return Err(RErr::Unsupported("non-string key".into()));
                    };
                    let v = self.eval(v)?;
                    out.retain(|(k2, _)| *k2 != k);
                    out.push((k, v));
                }
                V::Map(out)
            }
            Expr::Not(e) => V::Bool(!is_true(&self.eval(e)?)),
            Expr::Neg(e) => match self.eval(e)? {
                V::Int(i) => V::Int(-i),
                other => return Err(RErr::Unsupported(format!("neg of {other:?}"))),
            },
            Expr::Bin(op, a, b) => {
                match op {
                    BinOp::And => {
                        let l = self.eval(a)?;
                        return if is_true(&l) { self.eval(b) } else { Ok(l) };
                    }
                    BinOp::Or => {
                        let l = self.eval(a)?;
                        return if is_true(&l) { Ok(l) } else { self.eval(b) };
                    }
                    _ => {}
                }
                let l = self.eval(a)?;
                let r = self.eval(b)?;
                match (op, &l, &r) {
                    (BinOp::Concat, _, _) => V::Str(format!("{}{}", display(&l), display(&r))),
                    (BinOp::Add, V::Int(x), V::Int(y)) => V::Int(x + y),
                    (BinOp::Add, V::Str(x), V::Str(y)) => V::Str(format!("{x}{y}")),
                    (BinOp::Add, V::List(x), V::List(y)) => V::List(x.iter().chain(y.iter()).cloned().collect()),
                    (BinOp::Sub, V::Int(x), V::Int(y)) => V::Int(x - y),
                    (BinOp::Mul, V::Int(x), V::Int(y)) => V::Int(x * y),
                    (BinOp::FloorDiv, V::Int(x), V::Int(y)) if *y != 0 => V::Int(x.div_euclid(*y)),
                    (BinOp::Rem, V::Int(x), V::Int(y)) if *y != 0 => V::Int(x.rem_euclid(*y)),
                    _ => return Err(RErr::Unsupported(format!("{op:?} on {l:?} and {r:?}"))),
                }
            }
            Expr::Cmp(first, rest) => {
                let mut left = self.eval(first)?;
                for (op, e) in rest {
                    let right = self.eval(e)?;
                    let ok = match op {
                        CmpOp::Eq => veq(&left, &right),
                        CmpOp::Ne => !veq(&left, &right),
                        CmpOp::Lt => vcmp(&left, &right)? == std::cmp::Ordering::Less,
                        CmpOp::Le => vcmp(&left, &right)? != std::cmp::Ordering::Greater,
                        CmpOp::Gt => vcmp(&left, &right)? == std::cmp::Ordering::Greater,
                        CmpOp::Ge => vcmp(&left, &right)? != std::cmp::Ordering::Less,
                        CmpOp::In | CmpOp::NotIn => {
                            let found = match &right {
                                V::List(l) => l.iter().any(|x| veq(x, &left)),
                                V::Str(s) => matches!(&left, V::Str(n) if s.contains(n.as_str())),
                                V::Map(m) => matches!(&left, V::Str(n) if m.iter().any(|(k, _)| k == n)),
                                _ => return Err(RErr::Unsupported("in".into())),
                            };
                            found == matches!(op, CmpOp::In)
                        }
                    };
                    if !ok {
                        return Ok(V::Bool(false));
                    }
                    left = right;
                }
                V::Bool(true)
            }
            Expr::IfExpr(c, t, el) => {
                if is_true(&self.eval(c)?) {
                    self.eval(t)?
                } else {
                    match el {
                        Some(e) => self.eval(e)?,
                        None => V::Undef,
                    }
                }
            }
            Expr::Attr(base, name) => {
                let b = self.eval(base)?;
                self.get_attr(&b, name)?
            }
            Expr::Item(base, idx) => {
                let b = self.eval(base)?;
                let i = self.eval(idx)?;
                match (&b, &i) {
                    (V::List(l), V::Int(n)) => {
                        let len = l.len() as i128;
                        let k = if *n < 0 { n + len } else { *n };
                        if k < 0 || k >= len {
                            V::Undef
                        } else {
                            l[k as usize].clone()
                        }
                    }
                    (V::Str(s), V::Int(n)) => {
                        let cs: Vec<char> = s.chars().collect();
                        let len = cs.len() as i128;
                        let k = if *n < 0 { n + len } else { *n };
                        if k < 0 || k >= len {
                            V::Undef
                        } else {
                            V::Str(cs[k as usize].to_string())
                        }
                    }
                    (V::Map(_), V::Str(k)) => self.get_attr(&b, k)?,
                    (V::Undef, _) => return Err(RErr::UndefinedAccess),
                    _ => return Err(RErr::Unsupported(format!("subscript {b:?}[{i:?}]"))),
                }
            }
            Expr::Slice(..) => return Err(RErr::Unsupported("slice".into())),
            Expr::Filter(base, name, args) => {
                let v = self.eval(base)?;
                let a = self.eval_args(args)?;
                self.apply_filter(name, v, a)?
            }
            Expr::Test(base, name, args, negated) => {
                let v = self.eval(base)?;
                let a = self.eval_args(args)?;
                let r = match (name.as_str(), &v) {
                    ("defined", _) => !matches!(v, V::Undef),
                    ("undefined", _) => matches!(v, V::Undef),
                    ("none", _) => matches!(v, V::None),
                    ("odd", V::Int(i)) => i.rem_euclid(2) == 1,
                    ("even", V::Int(i)) => i.rem_euclid(2) == 0,
                    ("string", _) => matches!(v, V::Str(_)),
                    ("number", _) => matches!(v, V::Int(_)),
                    ("sequence", _) => matches!(v, V::List(_) | V::Str(_)),
                    ("mapping", _) => matches!(v, V::Map(_)),
                    ("true", _) => matches!(v, V::Bool(true)),
                    ("false", _) => matches!(v, V::Bool(false)),
                    ("eq" | "equalto", _) => a.first().map_or(false, |x| veq(&v, x)),
                    ("ne", _) => a.first().map_or(false, |x| !veq(&v, x)),
                    ("divisibleby", V::Int(i)) => match a.first() {
                        Some(V::Int(d)) if *d != 0 => i.rem_euclid(*d) == 0,
                        _ => return Err(RErr::Unsupported("divisibleby".into())),
                    },
                    ("in", _) => match a.first() {
                        Some(V::List(l)) => l.iter().any(|x| veq(x, &v)),
                        _ => return Err(RErr::Unsupported("in test".into())),
                    },
                    _ => return Err(RErr::Unsupported(format!("test {name} on {v:?}"))),
                };
                V::Bool(r != *negated)
            }
            Expr::Call(callee, args) => {
                // engine-level calls: loop(...), super(), self.block(), caller(...)
                if let Expr::Var(n) = &**callee {
                    if n == "super" {
                        let Some((bname, level)) = self.current_block.last().cloned() else {
                            return Err(RErr::SuperOutsideBlock);
                        };
                        self.out.push(String::new());
                        let r = self.render_block(&bname, level + 1, "");
                        let text = self.out.pop().unwrap();
                        r?;
                        return Ok(V::Str(text));
                    }
                    if n == "range" {
                        let (pos, _) = self.eval_call_args(args)?;
                        let ints: Vec<i128> = pos
                            .iter()
                            .map(|p| match p {
                                V::Int(i) => Ok(*i),
                                _ => Err(RErr::Unsupported("range".into())),
                            })
                            .collect::<R<_>>()?;
                        let (lo, hi, step) = match ints.as_slice() {
                            [n] => (0, *n, 1),
                            [a, b] => (*a, *b, 1),
                            [a, b, c] if *c > 0 => (*a, *b, *c),
                            _ => return Err(RErr::Unsupported("range".into())),
                        };
                        let mut out = vec![];
                        let mut i = lo;
                        while i < hi && out.len() < 10_000 {
                            out.push(V::Int(i));
                            i += step;
                        }
                        return Ok(V::List(out));
                    }
                }
                if let Expr::Attr(base, method) = &**callee {
                    if **base == Expr::Var("self".into()) {
                        if !self.blocks.contains_key(method) {
                            return Err(RErr::Unsupported("unknown block".into()));
                        }
                        self.out.push(String::new());
                        let r = self.render_block(method, 0, "");
                        let text = self.out.pop().unwrap();
                        r?;
                        return Ok(V::Str(text));
                    }
                    let b = self.eval(base)?;
                    if let V::Loop(l) = &b {
                        let (pos, _) = self.eval_call_args(args)?;
                        match method.as_str() {
                            "cycle" => {
                                if pos.is_empty() {
                                    return Err(RErr::Unsupported("cycle()".into()));
                                }
                                let i = l.borrow().idx;
                                return Ok(pos[i % pos.len()].clone());
                            }
                            "changed" => {
                                let mut st = l.borrow_mut();
                                let same = st
                                    .last_changed
                                    .as_ref()
                                    .map_or(false, |p| p.len() == pos.len() && p.iter().zip(&pos).all(|(a, b)| veq(a, b)));
                                if !same {
                                    st.last_changed = Some(pos);
                                }
                                return Ok(V::Bool(!same));
                            }
                            _ => return Err(RErr::Unsupported(format!("loop.{method}"))),
                        }
                    }
                }
                let f = self.eval(callee)?;
                let (pos, kw) = self.eval_call_args(args)?;
                if let V::Loop(l) = &f {
                    // loop(x): render the recursive loop's body for the new sequence
                    let (target, body, depth0) = {
                        let st = l.borrow();
                        let Some((t, b)) = st.recursive.clone() else {
                            return Err(RErr::Unsupported("loop() outside recursive loop".into()));
                        };
                        (t, b, st.depth0 + 1)
                    };
                    let [arg] = pos.as_slice() else {
                        return Err(RErr::Unsupported("loop() arity".into()));
                    };
                    let items = self.to_items(arg)?;
                    let text = self.run_loop(&target, items, None, true, &body, None, depth0, "")?;
                    return Ok(V::Str(text));
                }
                self.call_value(&f, pos, kw, None, "")?
            }
        })
    }

    fn get_attr(&mut self, b: &V, name: &str) -> R<V> {
        Ok(match b {
            V::Map(m) => m.iter().find(|(k, _)| k == name).map(|(_, v)| v.clone()).unwrap_or(V::Undef),
            V::Module(m) => m.get(name).cloned().unwrap_or(V::Undef),
            V::Loop(l) => {
                let st = l.borrow();
                let n = st.items.len();
                let i = st.idx;
                match name {
                    "index" => V::Int(i as i128 + 1),
                    "index0" => V::Int(i as i128),
                    "revindex" => V::Int((n - i) as i128),
                    "revindex0" => V::Int((n - i - 1) as i128),
                    "first" => V::Bool(i == 0),
                    "last" => V::Bool(i + 1 == n),
                    "length" => V::Int(n as i128),
                    "depth" => V::Int(st.depth0 as i128 + 1),
                    "depth0" => V::Int(st.depth0 as i128),
                    "previtem" => {
                        if i == 0 {
                            V::Undef
                        } else {
                            st.items[i - 1].clone()
                        }
                    }
                    "nextitem" => st.items.get(i + 1).cloned().unwrap_or(V::Undef),
                    _ => return Err(RErr::Unsupported(format!("loop.{name}"))),
                }
            }
            V::Undef => return Err(RErr::UndefinedAccess),
            _ => V::Undef,
        })
    }

    fn call_value(&mut self, f: &V, pos: Vec<V>, kw: Vec<(String, V)>, caller: Option<V>, _tname: &str) -> R<V> {
        self.depth += 4;
        if self.depth > MAX_DEPTH {
            return Err(RErr::RecursionLimit);
        }
        let r = match f {
            V::Macro(def) => self.call_body(&def.params, &def.body, def.closure.borrow().clone(), pos, kw, caller, &def.template.clone()),
            V::Caller(def) => self.call_body(&def.params, &def.body, def.closure.clone(), pos, kw, None, ""),
            other => Err(RErr::Unsupported(format!("call of {other:?}"))),
        };
        self.depth -= 4;
        r
    }

    #[allow(clippy::too_many_arguments)]
    fn call_body(
        &mut self,
        params: &[(String, Option<Expr>)],
        body: &[Stmt],
        closure: BTreeMap<String, V>,
        pos: Vec<V>,
        kw: Vec<(String, V)>,
        caller: Option<V>,
        tname: &str,
    ) -> R<V> {
        if pos.len() > params.len() {
            return Err(RErr::TooManyArguments);
        }
        for (k, _) in &kw {
            if !params.iter().any(|(p, _)| p == k) && k != "caller" {
                return Err(RErr::UnknownKwarg);
            }
        }
        // a macro body runs in its own scope stack: closure, then arguments
        let saved = std::mem::take(&mut self.frames);
        let saved_block = std::mem::take(&mut self.current_block);
        self.frames.push(Frame {
            vars: closure,
            looping: None,
        });
        self.frames.push(Frame {
            vars: BTreeMap::new(),
            looping: None,
        });
        self.out.push(String::new());
        let r = (|| -> R<()> {
            if let Some(c) = caller {
                self.assign("caller", c);
            }
            for (i, (name, default)) in params.iter().enumerate() {
                let v = if let Some(v) = pos.get(i) {
                    v.clone()
                } else if let Some((_, v)) = kw.iter().find(|(k, _)| k == name) {
                    v.clone()
                } else if let Some(d) = default {
                    self.eval(d)?
                } else {
                    V::Undef
                };
                self.assign(name, v);
            }
            match self.exec_body(body, tname)? {
                Flow::Normal => Ok(()),
                _ => Err(RErr::Unsupported("break out of macro".into())),
            }
        })();
        let text = self.out.pop().unwrap();
        self.frames = saved;
        self.current_block = saved_block;
        r?;
        Ok(V::Str(text))
    }

    fn apply_filter(&mut self, name: &str, v: V, args: Vec<V>) -> R<V> {
        let unsupported = || RErr::Unsupported(format!("filter {name} on {v:?} with {args:?}"));
        Ok(match (name, &v) {
            ("upper", V::Str(s)) => V::Str(s.to_uppercase()),
            ("lower", V::Str(s)) => V::Str(s.to_lowercase()),
            ("trim", V::Str(s)) => V::Str(s.trim().to_string()),
            ("string", _) => V::Str(display(&v)),
            ("length" | "count", V::Str(s)) => V::Int(s.chars().count() as i128),
            ("length" | "count", V::List(l)) => V::Int(l.len() as i128),
            ("length" | "count", V::Map(m)) => V::Int(m.len() as i128),
            ("first", V::List(l)) => l.first().cloned().unwrap_or(V::Undef),
            ("last", V::List(l)) => l.last().cloned().unwrap_or(V::Undef),
            ("first", V::Str(s)) => s.chars().next().map(|c| V::Str(c.to_string())).unwrap_or(V::Undef),
            ("last", V::Str(s)) => s.chars().last().map(|c| V::Str(c.to_string())).unwrap_or(V::Undef),
            ("join", V::List(l)) => {
                let sep = match args.first() {
                    Some(V::Str(s)) => s.clone(),
                    None => String::new(),
                    _ => return Err(unsupported()),
                };
                V::Str(l.iter().map(display).collect::<Vec<_>>().join(&sep))
            }
            ("default" | "d", _) => {
                if matches!(v, V::Undef) {
                    args.first().cloned().unwrap_or(V::Str(String::new()))
                } else {
                    v.clone()
                }
            }
            ("abs", V::Int(i)) => V::Int(i.abs()),
            ("int", V::Int(i)) => V::Int(*i),
            ("int", V::Str(s)) => V::Int(s.trim().parse().map_err(|_| unsupported())?),
            ("list", V::List(l)) => V::List(l.clone()),
            ("list", V::Str(s)) => V::List(s.chars().map(|c| V::Str(c.to_string())).collect()),
            ("reverse", V::List(l)) => V::List(l.iter().rev().cloned().collect()),
            ("reverse", V::Str(s)) => V::Str(s.chars().rev().collect()),
            ("sort", V::List(l)) => {
                let mut out = l.clone();
                let mut err = None;
                out.sort_by(|a, b| match (a, b) {
                    // sort is case insensitive by default
                    (V::Str(x), V::Str(y)) => x.to_lowercase().cmp(&y.to_lowercase()),
                    _ => vcmp(a, b).unwrap_or_else(|e| {
                        err = Some(e);
                        std::cmp::Ordering::Equal
                    }),
                });
                if let Some(e) = err {
                    return Err(e);
                }
                V::List(out)
            }
            ("sum", V::List(l)) => {
                let mut s = 0i128;
                for x in l {
                    match x {
                        V::Int(i) => s += i,
                        _ => return Err(unsupported()),
                    }
                }
                V::Int(s)
            }
            ("min", V::List(l)) | ("max", V::List(l)) => {
                let mut best: Option<V> = None;
                for x in l {
                    best = Some(match best {
                        None => x.clone(),
                        Some(b) => {
                            let o = vcmp(x, &b)?;
                            if (name == "min" && o == std::cmp::Ordering::Less) || (name == "max" && o == std::cmp::Ordering::Greater) {
                                x.clone()
                            } else {
                                b
                            }
                        }
                    });
                }
                best.unwrap_or(V::Undef)
            }
            ("replace", V::Str(s)) => match (args.first(), args.get(1)) {
                (Some(V::Str(a)), Some(V::Str(b))) if !a.is_empty() => V::Str(s.replace(a.as_str(), b)),
                _ => return Err(unsupported()),
            },
            _ => return Err(unsupported()),
        })
    }
}

fn contains_extends(s: &Stmt) -> bool {
    let mut found = false;
    walk_stmts(std::slice::from_ref(s), &mut |x| {
        if matches!(x, Stmt::Extends(_)) {
            found = true;
        }
    });
    found
}

/// all block definitions of a template (blocks may nest)
pub fn collect_blocks(body: &[Stmt], out: &mut Vec<(String, Vec<Stmt>, bool)>) {
    walk_stmts(body, &mut |s| {
        if let Stmt::Block { name, body, required, .. } = s {
            out.push((name.clone(), body.clone(), *required));
        }
    });
}
