//! "Tame" template sources: mostly well-typed, terminating, with possibly-undefined operands.
use proptest::prelude::*;

/// Mostly well-typed templates in which operand positions are, with some probability,
/// undefined: outcomes then depend on the undefined behaviour rather than on type errors.
pub fn source() -> BoxedStrategy<String> {
    fn undef() -> BoxedStrategy<String> {
        crate::runner::one_of(&["u", "m.nokey", "l[99]", "m['nokey']", "u.a", "m.nokey.b", "ns2.x", "(u if false)"])
            .prop_map(|s| s.to_string())
            .boxed()
    }
    fn sv(d: u32) -> BoxedStrategy<String> {
        // string valued
        let base = prop_oneof![
            4 => crate::runner::one_of(&["s", "'lit'", "y", "ls[0]", "m.id", "'<x>'"]).prop_map(|s| s.to_string()),
            2 => undef(),
        ];
        if d == 0 {
            return base.boxed();
        }
        let inner = sv(d - 1);
        prop_oneof![
            3 => base,
            1 => (inner.clone(), inner.clone()).prop_map(|(a, b)| format!("({a} ~ {b})")),
            1 => (inner.clone(), crate::runner::one_of(&["upper", "lower", "trim", "string", "title", "e", "default('dflt')", "d('')", "default('x', true)", "replace('a', 'b')", "first", "indent(1)"]))
                .prop_map(|(a, f)| format!("{a}|{f}")),
            1 => (bv(d - 1), inner.clone(), inner.clone()).prop_map(|(c, a, b)| format!("({a} if {c} else {b})")),
            1 => (lv(d - 1), inner.clone()).prop_map(|(l, j)| format!("{l}|join({j})")),
            1 => (inner.clone(), iv(d - 1)).prop_map(|(a, i)| format!("{a}[{i}:]")),
            1 => (bv(d - 1), inner.clone()).prop_map(|(c, a)| format!("({a} if {c})")),
        ]
        .boxed()
    }
    fn iv(d: u32) -> BoxedStrategy<String> {
        let base = prop_oneof![
            4 => crate::runner::one_of(&["i", "1", "2", "x", "l[0]", "m.k", "l|length"]).prop_map(|s| s.to_string()),
            1 => undef(),
        ];
        if d == 0 {
            return base.boxed();
        }
        let inner = iv(d - 1);
        prop_oneof![
            3 => base,
            1 => (inner.clone(), inner.clone(), crate::runner::one_of(&["+", "-", "*"])).prop_map(|(a, b, o)| format!("({a} {o} {b})")),
            1 => (inner.clone(), crate::runner::one_of(&["int", "abs", "default(7)", "d(0)", "float|int"])).prop_map(|(a, f)| format!("{a}|{f}")),
            1 => lv(d - 1).prop_map(|l| format!("{l}|length")),
        ]
        .boxed()
    }
    fn lv(d: u32) -> BoxedStrategy<String> {
        let base = prop_oneof![
            4 => crate::runner::one_of(&["l", "ls", "[1, 2]", "ll[0]", "m.a", "range(3)", "[]"]).prop_map(|s| s.to_string()),
            1 => undef(),
        ];
        if d == 0 {
            return base.boxed();
        }
        let inner = lv(d - 1);
        prop_oneof![
            3 => base,
            1 => (inner.clone(), crate::runner::one_of(&["list", "sort", "reverse|list", "unique|list", "default([])", "batch(2)|list", "map('string')|list", "select|list"]))
                .prop_map(|(a, f)| format!("{a}|{f}")),
            1 => (inner.clone(), inner.clone()).prop_map(|(a, b)| format!("({a} + {b})")),
            1 => (sv(d - 1), sv(d - 1)).prop_map(|(a, b)| format!("[{a}, {b}]")),
        ]
        .boxed()
    }
    fn bv(d: u32) -> BoxedStrategy<String> {
        let base = prop_oneof![
            3 => crate::runner::one_of(&["b", "true", "false", "x", "e", "l"]).prop_map(|s| s.to_string()),
            2 => undef(),
        ];
        if d == 0 {
            return base.boxed();
        }
        let inner = bv(d - 1);
        prop_oneof![
            3 => base,
            1 => inner.clone().prop_map(|a| format!("(not {a})")),
            1 => (inner.clone(), inner.clone(), crate::runner::one_of(&["and", "or"])).prop_map(|(a, b, o)| format!("({a} {o} {b})")),
            1 => (iv(d - 1), iv(d - 1), crate::runner::one_of(&["==", "<", ">=", "!="])).prop_map(|(a, b, o)| format!("({a} {o} {b})")),
            1 => (sv(d - 1), crate::runner::one_of(&["defined", "undefined", "none", "string", "not defined", "sequence", "mapping"])).prop_map(|(a, t)| format!("({a} is {t})")),
            1 => (iv(d - 1), lv(d - 1)).prop_map(|(a, l)| format!("({a} in {l})")),
            1 => (sv(d - 1), sv(d - 1)).prop_map(|(a, b)| format!("({a} in {b})")),
        ]
        .boxed()
    }
    fn stmt(d: u32) -> BoxedStrategy<String> {
        let simple = prop_oneof![
            3 => sv(2).prop_map(|e| format!("[{{{{ {e} }}}}]")),
            1 => iv(2).prop_map(|e| format!("[{{{{ {e} }}}}]")),
            1 => bv(2).prop_map(|e| format!("[{{{{ {e} }}}}]")),
            1 => lv(1).prop_map(|e| format!("[{{{{ {e}|join('-') }}}}]")),
            1 => (crate::runner::one_of(&["x", "y", "v"]), sv(1)).prop_map(|(n, e)| format!("{{% set {n} = {e} %}}")),
            1 => sv(1).prop_map(|e| format!("{{% include [{e}, 'a.txt'] ignore missing %}}")),
            1 => (sv(1), iv(1)).prop_map(|(a, b)| format!("{{{{ mac({a}, {b}) }}}}")),
            1 => sv(1).prop_map(|a| format!("{{{{ mac(b={a}) }}}}")),
        ];
        if d == 0 {
            return simple.boxed();
        }
        let body = prop::collection::vec(stmt(d - 1), 0..3).prop_map(|v| v.concat());
        prop_oneof![
            4 => simple,
            1 => (bv(2), body.clone(), body.clone()).prop_map(|(c, a, b)| format!("{{% if {c} %}}{a}{{% else %}}{b}{{% endif %}}")),
            2 => (lv(1), body.clone(), prop_oneof![Just(None), bv(1).prop_map(Some)]).prop_map(|(l, a, f)| match f {
                Some(f) => format!("{{% for q in {l} if {f} %}}{{{{ q }}}}{a}{{% else %}}E{{% endfor %}}"),
                None => format!("{{% for q in {l} %}}{{{{ loop.index }}}}{a}{{% endfor %}}"),
            }),
            1 => (sv(1), body.clone()).prop_map(|(e, a)| format!("{{% with v = {e} %}}{a}[{{{{ v is defined }}}}]{{% endwith %}}")),
            1 => body.clone().prop_map(|a| format!("{{% set cap %}}{a}{{% endset %}}[{{{{ cap }}}}]")),
            1 => body.prop_map(|a| format!("{{% filter upper %}}{a}{{% endfilter %}}")),
        ]
        .boxed()
    }
    prop::collection::vec(stmt(2), 1..4)
        .prop_map(|v| {
            format!(
                "{{% macro mac(a='A', b=u) %}}<{{{{ a }}}}{{{{ b if b is defined }}}}>{{% endmacro %}}{{% set ns2 = namespace() %}}{}",
                v.concat()
            )
        })
        .boxed()
}

