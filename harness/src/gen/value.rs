//! Serializable description of template values (all representations) and strategies.
use std::sync::Arc;

use minijinja::value::{Object, ObjectRepr, Tuple};
use minijinja::Value;
use proptest::prelude::*;
use serde::{Deserialize, Serialize};

#[derive(Clone, Debug, Serialize, Deserialize, PartialEq)]
pub enum Val {
    None,
    Undefined,
    Bool(bool),
    I64(i64),
    U64(u64),
    /// decimal text
    I128(String),
    /// decimal text
    U128(String),
    /// bit pattern
    F64(u64),
    Str(String),
    ArcStr(String),
    SafeStr(String),
    Bytes(Vec<u8>),
    List(Vec<Val>),
    Tuple(Vec<Val>),
    SizedIter(Vec<Val>),
    UnsizedIter(Vec<Val>),
    /// entries in insertion order
    Map(Vec<(Val, Val)>),
    /// plain object rendering as the given text
    Plain(String),
    /// an invalid value (carries an error with the given detail)
    Invalid(String),
}

#[derive(Debug)]
pub struct PlainObj(pub String);

impl Object for PlainObj {
    fn repr(self: &Arc<Self>) -> ObjectRepr {
        ObjectRepr::Plain
    }
    fn render(self: &Arc<Self>, f: &mut std::fmt::Formatter<'_>) -> std::fmt::Result {
        f.write_str(&self.0)
    }
}

impl Val {
    pub fn f(x: f64) -> Val {
        Val::F64(x.to_bits())
    }

    pub fn to_value(&self) -> Value {
        match self {
            Val::None => Value::from(()),
            Val::Undefined => Value::UNDEFINED,
            Val::Bool(b) => Value::from(*b),
            Val::I64(v) => Value::from(*v),
            Val::U64(v) => Value::from(*v),
            Val::I128(s) => Value::from(s.parse::<i128>().expect("i128")),
            Val::U128(s) => Value::from(s.parse::<u128>().expect("u128")),
            Val::F64(bits) => Value::from(f64::from_bits(*bits)),
            Val::Str(s) => Value::from(s.as_str()),
            Val::ArcStr(s) => Value::from(Arc::<str>::from(s.as_str())),
            Val::SafeStr(s) => Value::from_safe_string(s.clone()),
            Val::Bytes(b) => Value::from_bytes(b.clone()),
            Val::List(items) => Value::from(items.iter().map(|x| x.to_value()).collect::<Vec<_>>()),
            Val::Tuple(items) => {
                Value::from(Tuple::new(items.iter().map(|x| x.to_value()).collect()))
            }
            Val::SizedIter(items) => {
                let vals: Vec<Value> = items.iter().map(|x| x.to_value()).collect();
                Value::make_iterable(move || vals.clone().into_iter())
            }
            Val::UnsizedIter(items) => {
                let vals: Vec<Value> = items.iter().map(|x| x.to_value()).collect();
                Value::make_iterable(move || vals.clone().into_iter().filter(|_| true))
            }
            Val::Map(entries) => {
                Value::from_pairs(entries.iter().map(|(k, v)| (k.to_value(), v.to_value())))
            }
            Val::Plain(s) => Value::from_object(PlainObj(s.clone())),
            Val::Invalid(s) => Value::from(minijinja::Error::new(
                if s.len() % 2 == 0 {
                    minijinja::ErrorKind::InvalidOperation
                } else {
                    minijinja::ErrorKind::CannotUnpack
                },
                s.clone(),
            )),
        }
    }

    pub fn contains_invalid(&self) -> bool {
        match self {
            Val::Invalid(_) => true,
            Val::List(x) | Val::Tuple(x) | Val::SizedIter(x) | Val::UnsizedIter(x) => {
                x.iter().any(|v| v.contains_invalid())
            }
            Val::Map(e) => e.iter().any(|(k, v)| k.contains_invalid() || v.contains_invalid()),
            _ => false,
        }
    }

    /// coarse class used in signatures and labels
    pub fn class(&self) -> &'static str {
        match self {
            Val::None => "none",
            Val::Undefined => "undefined",
            Val::Bool(_) => "bool",
            Val::I64(_) | Val::U64(_) | Val::I128(_) | Val::U128(_) => "int",
            Val::F64(_) => "float",
            Val::Str(_) | Val::ArcStr(_) | Val::SafeStr(_) => "string",
            Val::Bytes(_) => "bytes",
            Val::List(_) => "list",
            Val::Tuple(_) => "tuple",
            Val::SizedIter(_) | Val::UnsizedIter(_) => "iter",
            Val::Map(_) => "map",
            Val::Plain(_) => "plain",
            Val::Invalid(_) => "invalid",
        }
    }

    pub fn repr_name(&self) -> &'static str {
        match self {
            Val::None => "None",
            Val::Undefined => "Undefined",
            Val::Bool(_) => "Bool",
            Val::I64(_) => "I64",
            Val::U64(_) => "U64",
            Val::I128(_) => "I128",
            Val::U128(_) => "U128",
            Val::F64(_) => "F64",
            Val::Str(_) => "Str",
            Val::ArcStr(_) => "ArcStr",
            Val::SafeStr(_) => "SafeStr",
            Val::Bytes(_) => "Bytes",
            Val::List(_) => "List",
            Val::Tuple(_) => "Tuple",
            Val::SizedIter(_) => "SizedIter",
            Val::UnsizedIter(_) => "UnsizedIter",
            Val::Map(_) => "Map",
            Val::Plain(_) => "Plain",
            Val::Invalid(_) => "Invalid",
        }
    }

    pub fn contains_nan(&self) -> bool {
        match self {
            Val::F64(b) => f64::from_bits(*b).is_nan(),
            Val::List(x) | Val::Tuple(x) | Val::SizedIter(x) | Val::UnsizedIter(x) => {
                x.iter().any(|v| v.contains_nan())
            }
            Val::Map(e) => e.iter().any(|(k, v)| k.contains_nan() || v.contains_nan()),
            _ => false,
        }
    }

    pub fn depth(&self) -> usize {
        match self {
            Val::List(x) | Val::Tuple(x) | Val::SizedIter(x) | Val::UnsizedIter(x) => {
                1 + x.iter().map(|v| v.depth()).max().unwrap_or(0)
            }
            Val::Map(e) => 1 + e.iter().map(|(k, v)| k.depth().max(v.depth())).max().unwrap_or(0),
            _ => 0,
        }
    }
}

/// every representation able to hold the integer `v`
pub fn int_reprs(v: i128) -> Vec<Val> {
    let mut out = vec![];
    if let Ok(x) = i64::try_from(v) {
        out.push(Val::I64(x));
    }
    if let Ok(x) = u64::try_from(v) {
        out.push(Val::U64(x));
    }
    out.push(Val::I128(v.to_string()));
    if v >= 0 {
        out.push(Val::U128(v.to_string()));
    }
    let f = v as f64;
    if f.is_finite() && (f as i128 == v) && f.abs() < 1.7e38 {
        out.push(Val::f(f));
    }
    if v == 0 || v == 1 {
        out.push(Val::Bool(v == 1));
    }
    out
}

const INT_POOL: [i128; 24] = [
    0,
    1,
    -1,
    2,
    -2,
    3,
    10,
    255,
    (1 << 53) - 1,
    1 << 53,
    (1 << 53) + 1,
    -(1 << 53) - 1,
    (1 << 63) - 1,
    1 << 63,
    (1 << 63) + 1,
    -(1 << 63),
    -(1 << 63) - 1,
    (1 << 64) - 1,
    1 << 64,
    (1 << 64) + 1,
    i128::MAX,
    i128::MIN,
    i128::MAX - 1,
    1 << 100,
];

pub fn int_val() -> BoxedStrategy<Val> {
    prop_oneof![
        4 => (0..INT_POOL.len(), any::<u16>()).prop_map(|(i, r)| {
            let reprs = int_reprs(INT_POOL[i]);
            reprs[crate::runner::pick_idx(r, reprs.len())].clone()
        }),
        3 => (-5i128..=5, any::<u16>()).prop_map(|(v, r)| {
            let reprs = int_reprs(v);
            reprs[crate::runner::pick_idx(r, reprs.len())].clone()
        }),
        1 => any::<i64>().prop_map(Val::I64),
        1 => any::<u128>().prop_map(|v| Val::U128(v.to_string())),
    ]
    .boxed()
}

pub fn float_val() -> BoxedStrategy<Val> {
    prop_oneof![
        3 => crate::runner::one_of(&[
            0.0f64, -0.0, 1.0, -1.0, 0.5, 1.5, 2.0, f64::INFINITY, f64::NEG_INFINITY, f64::NAN,
            9007199254740992.0, 9007199254740993.0, 9007199254740994.0, 9223372036854775808.0,
            -9223372036854775808.0, 18446744073709551616.0, 1.7014118346046923e38, 3.402823669209385e38,
            1e300, -1e300, f64::MIN_POSITIVE, 0.1,
        ]).prop_map(Val::f),
        1 => (-20i32..=20).prop_map(|k| Val::f(k as f64 / 2.0)),
        1 => any::<f64>().prop_map(Val::f),
    ]
    .boxed()
}

const STRS: [&str; 14] = [
    "", "a", "A", "b", "B", "ab", "Ab", "aB", "1", "ß", "é", "É",
    "a string that is longer than the small string buffer", "A STRING THAT IS LONGER THAN THE SMALL STRING BUFFER",
];

pub fn str_val() -> BoxedStrategy<Val> {
    (0..STRS.len(), 0u8..3)
        .prop_map(|(i, form)| {
            let s = STRS[i].to_string();
            match form {
                0 => Val::Str(s),
                1 => Val::ArcStr(s),
                _ => Val::SafeStr(s),
            }
        })
        .boxed()
}

pub fn scalar_val() -> BoxedStrategy<Val> {
    prop_oneof![
        1 => Just(Val::None),
        1 => Just(Val::Undefined),
        2 => any::<bool>().prop_map(Val::Bool),
        6 => int_val(),
        4 => float_val(),
        4 => str_val(),
        1 => prop::collection::vec(prop_oneof![Just(b'a'), Just(b'A'), Just(0u8), Just(255u8), Just(b'1')], 0..3).prop_map(Val::Bytes),
        1 => crate::runner::one_of(&["", "a", "1", "obj"]).prop_map(|s| Val::Plain(s.to_string())),
        1 => crate::runner::one_of(&["", "a", "bb"]).prop_map(|s| Val::Invalid(s.to_string())),
    ]
    .boxed()
}

/// values nested up to `depth`
pub fn val(depth: u32) -> BoxedStrategy<Val> {
    if depth == 0 {
        return scalar_val();
    }
    let inner = val(depth - 1);
    let seq = prop::collection::vec(inner.clone(), 0..3);
    prop_oneof![
        6 => scalar_val(),
        1 => seq.clone().prop_map(Val::List),
        1 => seq.clone().prop_map(Val::Tuple),
        1 => seq.clone().prop_map(Val::SizedIter),
        1 => seq.clone().prop_map(Val::UnsizedIter),
        2 => prop::collection::vec((key_val(), inner), 0..3).prop_map(|mut e| {
            // keep first occurrence of syntactically identical keys only
            let mut seen: Vec<Val> = vec![];
            e.retain(|(k, _)| {
                if seen.contains(k) {
                    false
                } else {
                    seen.push(k.clone());
                    true
                }
            });
            Val::Map(e)
        }),
    ]
    .boxed()
}

pub fn key_val() -> BoxedStrategy<Val> {
    prop_oneof![
        3 => str_val(),
        3 => int_val(),
        1 => any::<bool>().prop_map(Val::Bool),
        1 => float_val(),
        1 => Just(Val::None),
    ]
    .boxed()
}

/// the same mathematical value in another representation (or a structurally equal collection)
pub fn twin(v: &Val, r: u16) -> Val {
    let pick = |xs: Vec<Val>| -> Val { xs[crate::runner::pick_idx(r, xs.len())].clone() };
    match v {
        Val::Bool(b) => pick(int_reprs(*b as i128)),
        Val::I64(x) => pick(int_reprs(*x as i128)),
        Val::U64(x) => pick(int_reprs(*x as i128)),
        Val::I128(s) => pick(int_reprs(s.parse().unwrap())),
        Val::U128(s) => match s.parse::<i128>() {
            Ok(x) => pick(int_reprs(x)),
            Err(_) => {
                let u: u128 = s.parse().unwrap();
                let f = u as f64;
                if f as u128 == u && f < 3.4e38 {
                    pick(vec![v.clone(), Val::f(f)])
                } else {
                    v.clone()
                }
            }
        },
        Val::F64(bits) => {
            let f = f64::from_bits(*bits);
            if f.is_finite() && f == f.trunc() && f.abs() < 1.7e38 {
                pick(int_reprs(f as i128))
            } else {
                v.clone()
            }
        }
        Val::Str(s) | Val::ArcStr(s) | Val::SafeStr(s) => pick(vec![
            Val::Str(s.clone()),
            Val::ArcStr(s.clone()),
            Val::SafeStr(s.clone()),
        ]),
        Val::List(x) | Val::SizedIter(x) | Val::UnsizedIter(x) => {
            let items: Vec<Val> = x.iter().map(|i| twin(i, r.rotate_left(3))).collect();
            pick(vec![
                Val::List(items.clone()),
                Val::SizedIter(items.clone()),
                Val::UnsizedIter(items),
            ])
        }
        Val::Tuple(x) => Val::Tuple(x.iter().map(|i| twin(i, r.rotate_left(5))).collect()),
        Val::Map(e) => {
            let mut entries: Vec<(Val, Val)> = e
                .iter()
                .map(|(k, v)| (k.clone(), twin(v, r.rotate_left(7))))
                .collect();
            if r % 2 == 0 {
                entries.reverse();
            }
            Val::Map(entries)
        }
        other => other.clone(),
    }
}

impl Val {
    /// canonical text of the mathematical value: representation differences and map
    /// insertion order are erased
    pub fn canon(&self) -> String {
        match self {
            Val::None => "none".into(),
            Val::Undefined => "undefined".into(),
            Val::Bool(b) => (*b as i32).to_string(),
            Val::I64(v) => v.to_string(),
            Val::U64(v) => v.to_string(),
            Val::I128(s) | Val::U128(s) => s.clone(),
            Val::F64(bits) => {
                let f = f64::from_bits(*bits);
                if f.is_finite() && f == f.trunc() && f.abs() < 1.7e38 {
                    (f as i128).to_string()
                } else {
                    format!("f{f:?}")
                }
            }
            Val::Str(s) | Val::ArcStr(s) | Val::SafeStr(s) => format!("s{s:?}"),
            Val::Bytes(b) => format!("b{b:?}"),
            Val::List(x) | Val::SizedIter(x) | Val::UnsizedIter(x) => {
                format!("[{}]", x.iter().map(|v| v.canon()).collect::<Vec<_>>().join(","))
            }
            Val::Tuple(x) => format!("({})", x.iter().map(|v| v.canon()).collect::<Vec<_>>().join(",")),
            Val::Map(e) => {
                let mut entries: Vec<String> =
                    e.iter().map(|(k, v)| format!("{}:{}", k.canon(), v.canon())).collect();
                entries.sort();
                format!("{{{}}}", entries.join(","))
            }
            Val::Plain(s) => format!("p{s:?}"),
            Val::Invalid(s) => format!("inv{s:?}"),
        }
    }

    /// like canon but keeping map insertion order
    pub fn canon_ordered(&self) -> String {
        match self {
            Val::List(x) | Val::SizedIter(x) | Val::UnsizedIter(x) => {
                format!("[{}]", x.iter().map(|v| v.canon_ordered()).collect::<Vec<_>>().join(","))
            }
            Val::Tuple(x) => {
                format!("({})", x.iter().map(|v| v.canon_ordered()).collect::<Vec<_>>().join(","))
            }
            Val::Map(e) => {
                let entries: Vec<String> = e
                    .iter()
                    .map(|(k, v)| format!("{}:{}", k.canon_ordered(), v.canon_ordered()))
                    .collect();
                format!("{{{}}}", entries.join(","))
            }
            other => other.canon(),
        }
    }
}

impl Val {
    /// like canon, but booleans are kept apart from numbers
    pub fn canon_boolsep(&self) -> String {
        match self {
            Val::Bool(b) => format!("B{b}"),
            Val::List(x) | Val::SizedIter(x) | Val::UnsizedIter(x) => {
                format!("[{}]", x.iter().map(|v| v.canon_boolsep()).collect::<Vec<_>>().join(","))
            }
            Val::Tuple(x) => {
                format!("({})", x.iter().map(|v| v.canon_boolsep()).collect::<Vec<_>>().join(","))
            }
            Val::Map(e) => {
                let mut entries: Vec<String> = e
                    .iter()
                    .map(|(k, v)| format!("{}:{}", k.canon_boolsep(), v.canon_boolsep()))
                    .collect();
                entries.sort();
                format!("{{{}}}", entries.join(","))
            }
            other => other.canon(),
        }
    }
}

/// true when some map inside the value has a boolean key and a number key that compare
/// equal (`false` and `0`): which of them a lookup finds depends on the bool/number finding
pub fn has_bool_number_key_clash(v: &Val) -> bool {
    match v {
        Val::List(x) | Val::Tuple(x) | Val::SizedIter(x) | Val::UnsizedIter(x) => {
            x.iter().any(has_bool_number_key_clash)
        }
        Val::Map(e) => {
            e.iter().any(|(k, v)| has_bool_number_key_clash(k) || has_bool_number_key_clash(v))
                || e.iter().enumerate().any(|(i, (k1, _))| {
                    e.iter().take(i).any(|(k2, _)| differ_in_bool_vs_number(k1, k2))
                })
        }
        _ => false,
    }
}

/// true when the two values are the same mathematical value but one has a boolean where
/// the other has the number 0/1
pub fn differ_in_bool_vs_number(a: &Val, b: &Val) -> bool {
    a.canon() == b.canon() && a.canon_boolsep() != b.canon_boolsep()
}

/// true when the two values are the same mathematical value and differ (only) in the
/// insertion order of some map
pub fn differ_in_map_order(a: &Val, b: &Val) -> bool {
    a.canon() == b.canon() && a.canon_ordered() != b.canon_ordered()
}
