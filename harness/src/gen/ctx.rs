//! A render context that records every key the engine asks it for.
use std::collections::BTreeMap;
use std::sync::{Arc, Mutex};

use minijinja::value::{Enumerator, Object, ObjectRepr};
use minijinja::Value;

#[derive(Debug, Default)]
pub struct Recording {
    pub values: BTreeMap<String, Value>,
    /// every key requested (in order, with repetitions)
    pub requested: Mutex<Vec<String>>,
}

impl Object for Recording {
    fn repr(self: &Arc<Self>) -> ObjectRepr {
        ObjectRepr::Map
    }
    fn get_value(self: &Arc<Self>, key: &Value) -> Option<Value> {
        let k = key.as_str()?;
        self.requested.lock().unwrap().push(k.to_string());
        self.values.get(k).cloned()
    }
    fn enumerate(self: &Arc<Self>) -> Enumerator {
        let keys: Vec<Value> = self.values.keys().map(|k| Value::from(k.as_str())).collect();
        Enumerator::Values(keys)
    }
}

impl Recording {
    pub fn new(values: impl IntoIterator<Item = (String, Value)>) -> Arc<Recording> {
        Arc::new(Recording {
            values: values.into_iter().collect(),
            requested: Mutex::new(vec![]),
        })
    }
    pub fn value(self: &Arc<Self>) -> Value {
        Value::from_dyn_object(self.clone())
    }
    pub fn requested(&self) -> Vec<String> {
        self.requested.lock().unwrap().clone()
    }
    /// keys that were requested but are not in the context
    pub fn misses(&self) -> Vec<String> {
        let mut m: Vec<String> = self
            .requested()
            .into_iter()
            .filter(|k| !self.values.contains_key(k))
            .collect();
        m.sort();
        m.dedup();
        m
    }
    pub fn clear(&self) {
        self.requested.lock().unwrap().clear();
    }
}
