pub mod ast;
pub mod free;
pub mod print;
pub mod value;
pub mod ctx;
pub mod tame;
pub mod typed;
