pub mod value;
