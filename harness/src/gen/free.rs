//! Free-mode template generator: any name, any built-in, boundary arguments, every
//! construct nested in every other. Used where the oracle is "no crash" or a metamorphic
//! relation (C01, C12, C13, C14, C18, C19).
use proptest::prelude::*;

use super::ast::*;

pub const FILTERS: [&str; 46] = [
    "safe", "escape", "e", "lower", "upper", "title", "replace", "length", "count", "dictsort", "items",
    "reverse", "trim", "join", "split", "lines", "default", "d", "round", "abs", "int", "float", "attr",
    "first", "last", "min", "max", "sort", "list", "string", "bool", "batch", "slice", "sum", "indent",
    "select", "reject", "map", "groupby", "unique", "chain", "zip", "pprint", "format", "tojson",
    "urlencode",
];

pub const EXTRA_FILTERS: [&str; 4] = ["selectattr", "rejectattr", "capitalize", "nosuchfilter"];

pub const TESTS: [&str; 40] = [
    "defined", "undefined", "none", "safe", "escaped", "boolean", "odd", "even", "number", "integer", "int",
    "float", "string", "sequence", "iterable", "mapping", "lower", "upper", "sameas", "eq", "equalto",
    "ne", "lt", "lessthan", "le", "gt", "greaterthan", "ge", "in", "true", "false", "filter", "test",
    "divisibleby", "startingwith", "endingwith", "containing", "callable", "nosuchtest", "==",
];

pub const FUNCTIONS: [&str; 4] = ["range", "dict", "debug", "namespace"];

/// context variable names the generator refers to (see `context()` in props)
pub const VARS: [&str; 16] = [
    "n", "b", "i", "big", "f", "s", "e", "l", "ls", "m", "ll", "u", "x", "y", "ns", "z",
];

pub const SPECIAL_NAMES: [&str; 8] = ["loop", "self", "super", "caller", "varargs", "kwargs", "m1", "m2"];

pub const ATTRS: [&str; 18] = [
    "k", "a", "id", "index", "index0", "length", "first", "last", "revindex", "revindex0", "depth",
    "depth0", "previtem", "nextitem", "cycle", "changed", "name", "arguments",
];

pub const COMPANIONS: [&str; 3] = ["a.txt", "b.html", "c.txt"];

const INTS: [i128; 30] = [
    0,
    1,
    -1,
    2,
    3,
    7,
    10,
    100,
    255,
    1000,
    2000,
    2001,
    65535,
    65536,
    100_000,
    100_001,
    (1 << 31) - 1,
    1 << 31,
    1 << 32,
    (1 << 63) - 1,
    1 << 63,
    (1 << 63) + 1,
    1 << 64,
    -(1 << 31),
    -(1 << 63),
    -(1 << 63) - 1,
    (1 << 62),
    i128::MAX,
    -(1 << 100),
    1_000_000_007,
];

const STRS: [&str; 18] = [
    "",
    "a",
    "abc",
    "A b C",
    " ",
    "<b>&\"'",
    "a,b,,c",
    "line1\nline2\r\nline3",
    "%s %d %5.2f %%",
    "{} {0} {x}",
    "éß😀",
    "1",
    "-7",
    "1.5",
    "%1000000000000d",
    "{:>1000000000000}",
    "k",
    "a.txt",
];

#[derive(Clone, Copy, Debug)]
pub struct Opts {
    /// allow include/import/extends/block statements
    pub multi: bool,
    /// allow break/continue
    pub loop_controls: bool,
    /// maximum expression depth
    pub edepth: u32,
    /// maximum statement nesting depth
    pub sdepth: u32,
    /// include boundary (huge) integers
    pub extreme: bool,
}

impl Default for Opts {
    fn default() -> Self {
        Opts {
            multi: true,
            loop_controls: true,
            edepth: 3,
            sdepth: 3,
            extreme: true,
        }
    }
}

pub fn int_lit(extreme: bool) -> BoxedStrategy<Expr> {
    if extreme {
        prop_oneof![
            3 => (0..INTS.len()).prop_map(|i| Expr::int(INTS[i])),
            3 => (-5i128..20).prop_map(Expr::int),
        ]
        .boxed()
    } else {
        (-5i128..20).prop_map(Expr::int).boxed()
    }
}

pub fn str_lit() -> BoxedStrategy<Expr> {
    (0..STRS.len()).prop_map(|i| Expr::str(STRS[i])).boxed()
}

pub fn name() -> BoxedStrategy<String> {
    prop_oneof![
        8 => (0..VARS.len()).prop_map(|i| VARS[i].to_string()),
        2 => (0..SPECIAL_NAMES.len()).prop_map(|i| SPECIAL_NAMES[i].to_string()),
    ]
    .boxed()
}

fn leaf(o: Opts) -> BoxedStrategy<Expr> {
    prop_oneof![
        4 => int_lit(o.extreme),
        1 => crate::runner::one_of(&["0.0", "1.5", "2.0", "1e308", "1e-320", "0.1", "123456789.125"]).prop_map(|s| Expr::Float(s.to_string())),
        3 => str_lit(),
        1 => any::<bool>().prop_map(Expr::Bool),
        1 => Just(Expr::None),
        6 => name().prop_map(Expr::Var),
    ]
    .boxed()
}

fn bin_op() -> BoxedStrategy<BinOp> {
    crate::runner::one_of(&[
        BinOp::Add,
        BinOp::Sub,
        BinOp::Mul,
        BinOp::Div,
        BinOp::FloorDiv,
        BinOp::Rem,
        BinOp::Pow,
        BinOp::Concat,
        BinOp::And,
        BinOp::Or,
    ])
}

fn cmp_op() -> BoxedStrategy<CmpOp> {
    crate::runner::one_of(&[
        CmpOp::Eq,
        CmpOp::Ne,
        CmpOp::Lt,
        CmpOp::Le,
        CmpOp::Gt,
        CmpOp::Ge,
        CmpOp::In,
        CmpOp::NotIn,
    ])
}

fn arg_list(inner: BoxedStrategy<Expr>, max: usize) -> BoxedStrategy<Vec<Arg>> {
    let kwnames = crate::runner::one_of(&[
        "reverse", "case_sensitive", "attribute", "default", "indent", "by", "width", "first", "blank",
        "fill_with", "sep", "x", "k", "a", "boolean", "start", "method",
    ]);
    let arg = prop_oneof![
        8 => inner.clone().prop_map(Arg::Pos),
        3 => (kwnames, inner.clone()).prop_map(|(k, e)| Arg::Kw(k.to_string(), e)),
        1 => inner.clone().prop_map(Arg::Splat),
        1 => inner.prop_map(Arg::KwSplat),
    ];
    prop::collection::vec(arg, 0..=max)
        .prop_map(|mut v| {
            // keyword arguments after positional ones (the parser demands it)
            v.sort_by_key(|a| match a {
                Arg::Pos(_) | Arg::Splat(_) => 0,
                _ => 1,
            });
            v
        })
        .boxed()
}

pub fn expr(o: Opts) -> BoxedStrategy<Expr> {
    expr_d(o, o.edepth)
}

fn expr_d(o: Opts, depth: u32) -> BoxedStrategy<Expr> {
    if depth == 0 {
        return leaf(o);
    }
    let inner = expr_d(o, depth - 1);
    let b = |e: BoxedStrategy<Expr>| e.prop_map(Box::new);
    let opt = |e: BoxedStrategy<Expr>| prop_oneof![Just(None), e.prop_map(|x| Some(Box::new(x)))];
    let filt = prop_oneof![
        20 => (0..FILTERS.len()).prop_map(|i| FILTERS[i].to_string()),
        1 => (0..EXTRA_FILTERS.len()).prop_map(|i| EXTRA_FILTERS[i].to_string()),
    ];
    let test = (0..TESTS.len()).prop_map(|i| TESTS[i].to_string());
    let attr = (0..ATTRS.len()).prop_map(|i| ATTRS[i].to_string());
    let callee = prop_oneof![
        4 => (0..FUNCTIONS.len()).prop_map(|i| Expr::var(FUNCTIONS[i])),
        2 => crate::runner::one_of(&["loop", "super", "caller", "m1", "m2", "x", "ns"]).prop_map(Expr::var),
        3 => crate::runner::one_of(&["cycle", "changed", "items", "keys", "get", "format", "k"])
            .prop_map(|m| Expr::Attr(Box::new(Expr::var("loop")), m.to_string())),
        1 => crate::runner::one_of(&["a", "b", "blk"]).prop_map(|m| Expr::Attr(Box::new(Expr::var("self")), m.to_string())),
        1 => (inner.clone(), attr.clone()).prop_map(|(e, a)| Expr::Attr(Box::new(e), a)),
    ];
    prop_oneof![
        5 => leaf(o),
        2 => prop::collection::vec(inner.clone(), 0..4).prop_map(Expr::List),
        1 => prop::collection::vec(inner.clone(), 0..4).prop_map(Expr::Tuple),
        1 => prop::collection::vec((inner.clone(), inner.clone()), 0..3).prop_map(Expr::Map),
        1 => b(inner.clone()).prop_map(Expr::Not),
        1 => b(inner.clone()).prop_map(Expr::Neg),
        5 => (bin_op(), b(inner.clone()), b(inner.clone())).prop_map(|(op, l, r)| Expr::Bin(op, l, r)),
        2 => (b(inner.clone()), prop::collection::vec((cmp_op(), inner.clone()), 1..3)).prop_map(|(f, r)| Expr::Cmp(f, r)),
        1 => (b(inner.clone()), b(inner.clone()), opt(inner.clone())).prop_map(|(c, t, e)| Expr::IfExpr(c, t, e)),
        2 => (b(inner.clone()), attr).prop_map(|(e, a)| Expr::Attr(e, a)),
        2 => (b(inner.clone()), b(inner.clone())).prop_map(|(e, i)| Expr::Item(e, i)),
        2 => (b(inner.clone()), opt(inner.clone()), opt(inner.clone()), opt(inner.clone()))
            .prop_map(|(e, a, bb, c)| Expr::Slice(e, a, bb, c)),
        8 => (b(inner.clone()), filt, arg_list(inner.clone(), 3)).prop_map(|(e, f, a)| Expr::Filter(e, f, a)),
        3 => (b(inner.clone()), test, arg_list(inner.clone(), 2), any::<bool>()).prop_map(|(e, t, a, n)| {
            // tests take only positional arguments in the grammar
            let a = a.into_iter().filter(|x| matches!(x, Arg::Pos(_))).collect();
            Expr::Test(e, t, a, n)
        }),
        4 => (b(callee.boxed()), arg_list(inner, 3)).prop_map(|(f, a)| Expr::Call(f, a)),
    ]
    .boxed()
}

pub fn target() -> BoxedStrategy<Target> {
    let n = crate::runner::one_of(&["x", "y", "z", "i", "s", "l", "m", "a2"]).prop_map(|s| s.to_string());
    prop_oneof![
        6 => n.clone().prop_map(Target::Name),
        2 => prop::collection::vec(n.clone().prop_map(Target::Name), 1..4).prop_map(Target::Tuple),
        1 => (n.clone(), n).prop_map(|(a, b)| Target::Tuple(vec![Target::Name(a), Target::Tuple(vec![Target::Name(b)])])),
    ]
    .boxed()
}

fn text() -> BoxedStrategy<String> {
    crate::runner::one_of(&[
        "", "t", " ", "\n", "text ", "<p>", "  \n  ", "}", "{", "%", "#", "é", "\r\n", "a b c",
    ])
    .prop_map(|s| s.to_string())
    .boxed()
}

fn tmpl_name() -> BoxedStrategy<Expr> {
    prop_oneof![
        6 => (0..COMPANIONS.len()).prop_map(|i| Expr::str(COMPANIONS[i])),
        1 => Just(Expr::str("main.txt")),
        1 => Just(Expr::str("missing.txt")),
        1 => Just(Expr::var("s")),
        1 => Just(Expr::List(vec![Expr::str("missing.txt"), Expr::str("a.txt")])),
        1 => Just(Expr::Int("1".into())),
    ]
    .boxed()
}

pub fn body(o: Opts) -> BoxedStrategy<Vec<Stmt>> {
    body_d(o, o.sdepth, false)
}

fn params(o: Opts) -> BoxedStrategy<Vec<(String, Option<Expr>)>> {
    let e = expr_d(o, 1);
    prop::collection::vec(
        (
            crate::runner::one_of(&["x", "y", "z", "a2", "s", "caller"]).prop_map(|s| s.to_string()),
            prop_oneof![Just(None), e.prop_map(Some)],
        ),
        0..3,
    )
    .prop_map(|mut v| {
        // defaults must be trailing; names unique
        let mut seen = vec![];
        v.retain(|(n, _)| {
            if seen.contains(n) {
                false
            } else {
                seen.push(n.clone());
                true
            }
        });
        let mut had_default = false;
        for (_, d) in v.iter_mut() {
            if d.is_some() {
                had_default = true;
            } else if had_default {
                *d = Some(Expr::None);
            }
        }
        v
    })
    .boxed()
}

fn body_d(o: Opts, depth: u32, in_loop: bool) -> BoxedStrategy<Vec<Stmt>> {
    prop::collection::vec(stmt_d(o, depth, in_loop), 0..4).boxed()
}

fn stmt_d(o: Opts, depth: u32, in_loop: bool) -> BoxedStrategy<Stmt> {
    let e = expr(o);
    let simple = prop_oneof![
        3 => text().prop_map(Stmt::Text),
        6 => e.clone().prop_map(Stmt::Emit),
        2 => (target(), e.clone()).prop_map(|(target, value)| Stmt::Set { target, value }),
        1 => (crate::runner::one_of(&["k", "a", "x"]), e.clone())
            .prop_map(|(a, value)| Stmt::Set { target: Target::Attr("ns".into(), a.to_string()), value }),
        1 => e.clone().prop_map(|e| match e {
            Expr::Call(..) => Stmt::Do(e),
            other => Stmt::Do(Expr::Call(Box::new(Expr::var("debug")), vec![Arg::Pos(other)])),
        }),
        1 => text().prop_map(Stmt::Raw),
        1 => text().prop_map(|t| Stmt::Comment(t.replace('#', ""))),
    ];
    let mut options: Vec<(u32, BoxedStrategy<Stmt>)> = vec![(6, simple.boxed())];
    if in_loop && o.loop_controls {
        options.push((1, Just(Stmt::Break).boxed()));
        options.push((1, Just(Stmt::Continue).boxed()));
    }
    if o.multi {
        options.push((
            1,
            (tmpl_name(), any::<bool>())
                .prop_map(|(name, ignore_missing)| Stmt::Include { name, ignore_missing })
                .boxed(),
        ));
        options.push((
            1,
            prop_oneof![
                (tmpl_name(), crate::runner::one_of(&["m", "x", "mod"]))
                    .prop_map(|(name, a)| Stmt::Import { name, alias: a.to_string() }),
                (tmpl_name(), prop::collection::vec((crate::runner::one_of(&["m1", "m2", "x", "nothere"]), prop_oneof![Just(None), Just(Some("y".to_string()))]), 0..3))
                    .prop_map(|(name, names)| Stmt::FromImport {
                        name,
                        names: names.into_iter().map(|(a, b)| (a.to_string(), b)).collect()
                    }),
                tmpl_name().prop_map(Stmt::Extends),
            ]
            .boxed(),
        ));
    }
    if depth > 0 {
        let d = depth - 1;
        let sub = |in_loop: bool| body_d(o, d, in_loop);
        options.push((
            2,
            (
                prop::collection::vec((e.clone(), sub(in_loop)), 1..3),
                prop_oneof![Just(None), sub(in_loop).prop_map(Some)],
            )
                .prop_map(|(branches, else_)| Stmt::If { branches, else_ })
                .boxed(),
        ));
        options.push((
            3,
            (
                target(),
                e.clone(),
                prop_oneof![3 => Just(None), 1 => e.clone().prop_map(Some)],
                prop::bool::weighted(0.2),
                sub(true),
                prop_oneof![2 => Just(None), 1 => sub(true).prop_map(Some)],
            )
                .prop_map(|(target, iter, filter, recursive, body, else_)| Stmt::For {
                    target,
                    iter,
                    filter,
                    recursive,
                    body,
                    else_,
                })
                .boxed(),
        ));
        let filt = (0..FILTERS.len()).prop_map(|i| FILTERS[i].to_string());
        options.push((
            1,
            (
                crate::runner::one_of(&["x", "y", "cap"]),
                prop_oneof![Just(None), (filt.clone(), arg_list(expr_d(o, 1), 2)).prop_map(Some)],
                sub(in_loop),
            )
                .prop_map(|(n, filter, body)| Stmt::SetBlock {
                    name: n.to_string(),
                    filter,
                    body,
                })
                .boxed(),
        ));
        options.push((
            1,
            (prop::collection::vec((target(), e.clone()), 0..3), sub(in_loop))
                .prop_map(|(bindings, body)| Stmt::With { bindings, body })
                .boxed(),
        ));
        options.push((
            1,
            (filt, arg_list(expr_d(o, 1), 2), sub(in_loop))
                .prop_map(|(name, args, body)| Stmt::FilterBlock { name, args, body })
                .boxed(),
        ));
        options.push((
            1,
            (
                prop_oneof![
                    Just(Expr::Bool(true)),
                    Just(Expr::Bool(false)),
                    Just(Expr::str("html")),
                    Just(Expr::str("json")),
                    Just(Expr::str("none")),
                    e.clone()
                ],
                sub(in_loop),
            )
                .prop_map(|(value, body)| Stmt::AutoEscape { value, body })
                .boxed(),
        ));
        options.push((
            1,
            (crate::runner::one_of(&["m1", "m2"]), params(o), body_d(o, d, false))
                .prop_map(|(n, params, body)| Stmt::Macro {
                    name: n.to_string(),
                    params,
                    body,
                })
                .boxed(),
        ));
        options.push((
            1,
            (
                params(o),
                crate::runner::one_of(&["m1", "m2", "x"]),
                arg_list(expr_d(o, 1), 2),
                body_d(o, d, false),
            )
                .prop_map(|(params, callee, args, body)| Stmt::CallBlock {
                    params,
                    call: Expr::Call(Box::new(Expr::var(callee)), args),
                    body,
                })
                .boxed(),
        ));
        if o.multi {
            options.push((
                1,
                (
                    crate::runner::one_of(&["a", "b", "blk"]),
                    any::<bool>(),
                    body_d(o, d, false),
                )
                    .prop_map(|(n, scoped, body)| Stmt::Block {
                        name: n.to_string(),
                        scoped,
                        required: false,
                        body,
                    })
                    .boxed(),
            ));
        }
    }
    proptest::strategy::Union::new_weighted(options).boxed()
}

/// Removes what the parser rejects for structural reasons (duplicate block names, blocks
/// inside macros) so that most generated templates load.
pub fn sanitize(body: &mut Vec<Stmt>) {
    let mut seen = std::collections::HashSet::new();
    fn rec(body: &mut Vec<Stmt>, seen: &mut std::collections::HashSet<String>, in_macro: bool) {
        body.retain(|s| match s {
            Stmt::Block { name, .. } => !in_macro && seen.insert(name.clone()),
            _ => true,
        });
        for s in body.iter_mut() {
            match s {
                Stmt::If { branches, else_ } => {
                    for (_, b) in branches {
                        rec(b, seen, in_macro);
                    }
                    if let Some(e) = else_ {
                        rec(e, seen, in_macro);
                    }
                }
                Stmt::For { body, else_, .. } => {
                    rec(body, seen, in_macro);
                    if let Some(e) = else_ {
                        rec(e, seen, in_macro);
                    }
                }
                Stmt::SetBlock { body, .. }
                | Stmt::With { body, .. }
                | Stmt::FilterBlock { body, .. }
                | Stmt::AutoEscape { body, .. } => rec(body, seen, in_macro),
                Stmt::Block { body, .. } => {
                    // listed finding (block self-recursion overflows small stacks in debug
                    // builds before the recursion limit trips): no `self.x` inside blocks
                    map_stmt_exprs(body, &mut |e| {
                        map_expr(e, &mut |e| {
                            if matches!(e, Expr::Attr(b, _) if **b == Expr::Var("self".into())) {
                                *e = Expr::Var("x".into());
                            }
                        })
                    });
                    rec(body, seen, in_macro)
                }
                Stmt::Macro { body, .. } | Stmt::CallBlock { body, .. } => rec(body, seen, true),
                _ => {}
            }
        }
    }
    rec(body, &mut seen, false);
}

pub fn template(o: Opts) -> BoxedStrategy<Vec<Stmt>> {
    let tame = !o.extreme;
    body(o)
        .prop_map(move |mut b| {
            sanitize(&mut b);
            if tame {
                // In-process consumers (everything but C01's child processes): `debug()` inside a
                // self-including / self-importing template quotes the previous level's dump at
                // every level, so its output doubles per level of recursion and exhausts memory
                // long before fuel or the recursion limit end the render. Not a property's subject.
                map_stmt_exprs(&mut b, &mut |e| {
                    map_expr(e, &mut |e| {
                        if *e == Expr::var("debug") {
                            *e = Expr::var("dict");
                        }
                        // `big` (2^63) as a repeat count makes a lazily repeated sequence whose
                        // printing never ends
                        if *e == Expr::var("big") {
                            *e = Expr::var("i");
                        }
                    })
                });
            }
            b
        })
        .boxed()
}
