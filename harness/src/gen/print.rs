//! AST -> template source text, parameterised by the delimiter set.
use super::ast::*;
use crate::model::ws::{Marker, Piece};
use serde::{Deserialize, Serialize};

#[derive(Clone, Debug, Serialize, Deserialize, PartialEq)]
pub struct Syntax {
    pub block_start: String,
    pub block_end: String,
    pub var_start: String,
    pub var_end: String,
    pub comment_start: String,
    pub comment_end: String,
    pub line_statement_prefix: Option<String>,
    pub line_comment_prefix: Option<String>,
}

impl Default for Syntax {
    fn default() -> Self {
        Syntax {
            block_start: "{%".into(),
            block_end: "%}".into(),
            var_start: "{{".into(),
            var_end: "}}".into(),
            comment_start: "{#".into(),
            comment_end: "#}".into(),
            line_statement_prefix: None,
            line_comment_prefix: None,
        }
    }
}

impl Syntax {
    pub fn is_default(&self) -> bool {
        *self == Syntax::default()
    }

    pub fn to_config(&self) -> Result<minijinja::syntax::SyntaxConfig, minijinja::Error> {
        let mut b = minijinja::syntax::SyntaxConfig::builder();
        b.block_delimiters(self.block_start.clone(), self.block_end.clone())
            .variable_delimiters(self.var_start.clone(), self.var_end.clone())
            .comment_delimiters(self.comment_start.clone(), self.comment_end.clone());
        if let Some(p) = &self.line_statement_prefix {
            b.line_statement_prefix(p.clone());
        }
        if let Some(p) = &self.line_comment_prefix {
            b.line_comment_prefix(p.clone());
        }
        b.build()
    }
}

pub fn str_lit(s: &str) -> String {
    let mut out = String::with_capacity(s.len() + 2);
    out.push('"');
    for c in s.chars() {
        match c {
            '"' => out.push_str("\\\""),
            '\\' => out.push_str("\\\\"),
            '\n' => out.push_str("\\n"),
            '\r' => out.push_str("\\r"),
            '\t' => out.push_str("\\t"),
            c if (c as u32) < 0x20 || c as u32 == 0x7f => out.push_str(&format!("\\x{:02x}", c as u32)),
            c => out.push(c),
        }
    }
    out.push('"');
    out
}

fn atomic(e: &Expr) -> bool {
    matches!(
        e,
        Expr::Int(_)
            | Expr::Float(_)
            | Expr::Str(_)
            | Expr::Bool(_)
            | Expr::None
            | Expr::Var(_)
            | Expr::List(_)
            | Expr::Tuple(_)
            | Expr::Map(_)
            | Expr::Attr(..)
            | Expr::Item(..)
            | Expr::Slice(..)
            | Expr::Call(..)
            | Expr::Paren(_)
    )
}

/// operand position: compound expressions are parenthesised so that the text parses back
/// to the same tree whatever the engine's precedence rules are
fn operand(e: &Expr) -> String {
    if atomic(e) {
        expr(e)
    } else {
        format!("({})", expr(e))
    }
}

/// postfix base position (`x.a`, `x[0]`, `x|f`, `x is t`, `x(...)`): literals like `1` need
/// parentheses before `.`, negative numbers before `|`
fn postfix_base(e: &Expr) -> String {
    match e {
        Expr::Var(_)
        | Expr::List(_)
        | Expr::Map(_)
        | Expr::Attr(..)
        | Expr::Item(..)
        | Expr::Slice(..)
        | Expr::Call(..)
        | Expr::Str(_)
        | Expr::Paren(_) => expr(e),
        Expr::Tuple(_) => expr(e),
        Expr::Filter(..) => expr(e),
        _ => format!("({})", expr(e)),
    }
}

/// base of `.attr`, `[item]`, `[a:b]` and `(call)`: a filter application is not allowed there
fn subscript_base(e: &Expr) -> String {
    match e {
        Expr::Filter(..) => format!("({})", expr(e)),
        _ => postfix_base(e),
    }
}

pub fn args(a: &[Arg]) -> String {
    a.iter()
        .map(|a| match a {
            Arg::Pos(e) => expr(e),
            Arg::Kw(k, e) => format!("{k}={}", expr(e)),
            Arg::Splat(e) => format!("*{}", operand(e)),
            Arg::KwSplat(e) => format!("**{}", operand(e)),
        })
        .collect::<Vec<_>>()
        .join(", ")
}

pub fn binop(op: BinOp) -> &'static str {
    match op {
        BinOp::Add => "+",
        BinOp::Sub => "-",
        BinOp::Mul => "*",
        BinOp::Div => "/",
        BinOp::FloorDiv => "//",
        BinOp::Rem => "%",
        BinOp::Pow => "**",
        BinOp::Concat => "~",
        BinOp::And => "and",
        BinOp::Or => "or",
    }
}

pub fn cmpop(op: CmpOp) -> &'static str {
    match op {
        CmpOp::Eq => "==",
        CmpOp::Ne => "!=",
        CmpOp::Lt => "<",
        CmpOp::Le => "<=",
        CmpOp::Gt => ">",
        CmpOp::Ge => ">=",
        CmpOp::In => "in",
        CmpOp::NotIn => "not in",
    }
}

pub fn expr(e: &Expr) -> String {
    match e {
        Expr::Int(s) => s.clone(),
        Expr::Float(s) => s.clone(),
        Expr::Str(s) => str_lit(s),
        Expr::Bool(true) => "true".into(),
        Expr::Bool(false) => "false".into(),
        Expr::None => "none".into(),
        Expr::Var(n) => n.clone(),
        Expr::List(items) => format!("[{}]", items.iter().map(expr).collect::<Vec<_>>().join(", ")),
        Expr::Tuple(items) => match items.len() {
            0 => "()".into(),
            1 => format!("({},)", expr(&items[0])),
            _ => format!("({})", items.iter().map(expr).collect::<Vec<_>>().join(", ")),
        },
        Expr::Map(entries) => format!(
            "{{{}}}",
            entries
                .iter()
                .map(|(k, v)| format!("{}: {}", expr(k), expr(v)))
                .collect::<Vec<_>>()
                .join(", ")
        ),
        Expr::Not(e) => format!("not {}", operand(e)),
        Expr::Neg(e) => format!("-{}", operand(e)),
        Expr::Bin(op, a, b) => format!("{} {} {}", operand(a), binop(*op), operand(b)),
        Expr::Cmp(first, rest) => {
            let mut s = operand(first);
            for (op, e) in rest {
                s.push(' ');
                s.push_str(cmpop(*op));
                s.push(' ');
                s.push_str(&operand(e));
            }
            s
        }
        Expr::IfExpr(c, t, e) => match e {
            Some(e) => format!("{} if {} else {}", operand(t), operand(c), operand(e)),
            None => format!("{} if {}", operand(t), operand(c)),
        },
        Expr::Attr(e, name) => format!("{}.{}", subscript_base(e), name),
        Expr::Item(e, idx) => format!("{}[{}]", subscript_base(e), expr(idx)),
        Expr::Slice(e, a, b, c) => {
            let p = |x: &Option<Box<Expr>>| x.as_ref().map(|e| expr(e)).unwrap_or_default();
            if c.is_some() {
                format!("{}[{}:{}:{}]", subscript_base(e), p(a), p(b), p(c))
            } else {
                format!("{}[{}:{}]", subscript_base(e), p(a), p(b))
            }
        }
        Expr::Filter(e, name, a) => {
            if a.is_empty() {
                format!("{}|{}", postfix_base(e), name)
            } else {
                format!("{}|{}({})", postfix_base(e), name, args(a))
            }
        }
        Expr::Test(e, name, a, negated) => {
            let not = if *negated { "not " } else { "" };
            if a.is_empty() {
                format!("{} is {}{}", postfix_base(e), not, name)
            } else {
                format!("{} is {}{}({})", postfix_base(e), not, name, args(a))
            }
        }
        Expr::Call(f, a) => format!("{}({})", subscript_base(f), args(a)),
        Expr::Paren(e) => format!("({})", expr(e)),
    }
}

pub fn target(t: &Target) -> String {
    match t {
        Target::Name(n) => n.clone(),
        Target::Tuple(items) => {
            let inner = items
                .iter()
                .map(|t| match t {
                    Target::Tuple(_) => format!("({})", target(t)),
                    _ => target(t),
                })
                .collect::<Vec<_>>()
                .join(", ");
            if items.len() == 1 {
                format!("{inner},")
            } else {
                inner
            }
        }
        Target::Attr(a, b) => format!("{a}.{b}"),
    }
}

fn params(p: &[(String, Option<Expr>)]) -> String {
    p.iter()
        .map(|(n, d)| match d {
            Some(d) => format!("{n}={}", expr(d)),
            None => n.clone(),
        })
        .collect::<Vec<_>>()
        .join(", ")
}

/// Free choices of the styled printer (whitespace markers, spacing inside tags, inserted
/// whitespace that a `-` marker removes again, comments between statements, text written as raw
/// blocks, block tags written as line statements), driven by a byte tape so that a case shrinks
/// towards the plain spelling (all zeroes = exactly what the unstyled printer writes).
#[derive(Clone, Debug)]
pub struct Style {
    pub tape: Vec<u8>,
    pub pos: usize,
    /// block tags may be written as line statements (needs a line statement prefix)
    pub line_mode: bool,
}

impl Style {
    pub fn new(tape: Vec<u8>, line_mode: bool) -> Style {
        Style { tape, pos: 0, line_mode }
    }
    fn byte(&mut self) -> u8 {
        if self.tape.is_empty() {
            return 0;
        }
        let b = self.tape[self.pos % self.tape.len()];
        self.pos += 1;
        b
    }
    /// true with roughly `percent` % (never for a zero byte)
    fn chance(&mut self, percent: u8) -> bool {
        let b = self.byte() % 100;
        b >= 100 - percent.min(100)
    }
    fn marker(&mut self) -> Marker {
        match self.byte() % 10 {
            0..=5 => Marker::None,
            6..=8 => Marker::Minus,
            _ => Marker::Plus,
        }
    }
    fn spacing(&mut self, tight_ok: bool, newline_ok: bool) -> &'static str {
        match self.byte() % 20 {
            0..=11 => " ",
            12..=14 => {
                if tight_ok {
                    ""
                } else {
                    " "
                }
            }
            15..=16 => "  ",
            17 => "\t",
            _ => {
                if newline_ok {
                    "\n"
                } else {
                    " "
                }
            }
        }
    }
    fn blank(&mut self) -> &'static str {
        [" ", "\n", "  ", "\t", " \n ", "\r\n", "\n\n", "\u{a0}"][self.byte() as usize % 8]
    }
}

#[derive(Clone, Copy, PartialEq, Eq)]
enum TagKind {
    Block,
    Var,
    Comment,
}

pub struct Printer<'a> {
    pub syn: &'a Syntax,
    pub out: String,
    /// styled mode: the free choices, and the lexical pieces written so far; a text piece
    /// carries the index (in source order) of the text statement it came from, `None` for
    /// whitespace the printer inserted itself
    pub style: Option<Style>,
    pub pieces: Vec<(Piece, Option<usize>)>,
    text_counter: usize,
    pending_right_minus: bool,
    at_line_start: bool,
}

fn tight_start(inner: &str) -> bool {
    inner.chars().next().is_some_and(|c| c.is_ascii_alphanumeric() || c == '_' || c == '"')
}

fn tight_end(inner: &str) -> bool {
    inner.chars().last().is_some_and(|c| c.is_ascii_alphanumeric() || c == '_' || c == '"')
}

impl<'a> Printer<'a> {
    pub fn new(syn: &'a Syntax, style: Option<Style>) -> Printer<'a> {
        Printer { syn, out: String::new(), style, pieces: vec![], text_counter: 0, pending_right_minus: false, at_line_start: true }
    }

    fn push_piece(&mut self, p: Piece, id: Option<usize>) {
        self.out.push_str(p.src());
        self.pieces.push((p, id));
    }

    fn prev_is_text(&self) -> bool {
        matches!(self.pieces.last(), Some((Piece::Text(_), _)))
    }

    fn tag(&mut self, inner: &str) {
        self.emit_tag(TagKind::Block, inner, true);
    }

    fn emit_tag(&mut self, kind: TagKind, inner: &str, may_be_line: bool) {
        let (start, end) = match kind {
            TagKind::Block => (&self.syn.block_start, &self.syn.block_end),
            TagKind::Var => (&self.syn.var_start, &self.syn.var_end),
            TagKind::Comment => (&self.syn.comment_start, &self.syn.comment_end),
        };
        let Some(style) = self.style.as_mut() else {
            // the plain spelling
            self.out.push_str(start);
            if kind != TagKind::Comment {
                self.out.push(' ');
            }
            self.out.push_str(inner);
            if kind != TagKind::Comment {
                self.out.push(' ');
            }
            self.out.push_str(end);
            return;
        };
        // a block tag that owns its line, written as a line statement
        if kind == TagKind::Block && may_be_line && style.line_mode && self.at_line_start && style.chance(60) {
            if let Some(prefix) = &self.syn.line_statement_prefix {
                let lead = ["", "  ", "\t", " "][style.byte() as usize % 4];
                let gap = if style.chance(15) { "" } else { " " };
                let trail = ["", " ", "  \t"][style.byte() as usize % 3];
                let nl = if style.chance(25) { "\r\n" } else { "\n" };
                let src = format!("{lead}{prefix}{gap}{inner}{trail}{nl}");
                self.pending_right_minus = false;
                self.at_line_start = true;
                self.push_piece(Piece::Tag { block_like: true, inert: true, left: Marker::None, right: Marker::None, src }, None);
                return;
            }
        }
        let left = style.marker();
        let right = style.marker();
        let newline_ok = !style.line_mode;
        let sp1 = style.spacing(kind == TagKind::Comment || tight_start(inner), newline_ok);
        let sp2 = style.spacing(kind == TagKind::Comment || tight_end(inner), newline_ok);
        let insert = (left == Marker::Minus || self.pending_right_minus) && style.chance(50);
        let blank = style.blank();
        let src = format!("{start}{}{sp1}{inner}{sp2}{}{end}", left.text(), right.text());
        if insert && !self.prev_is_text() {
            // whitespace between two tags (or at the very start) that a `-` marker next to it removes
            self.push_piece(Piece::Text(blank.to_string()), None);
        }
        self.pending_right_minus = right == Marker::Minus;
        self.at_line_start = false;
        self.push_piece(Piece::Tag { block_like: kind != TagKind::Var, inert: false, left, right, src }, None);
    }

    fn text(&mut self, t: &str) {
        let id = self.text_counter;
        self.text_counter += 1;
        let Some(style) = self.style.as_mut() else {
            self.out.push_str(t);
            return;
        };
        if t.is_empty() {
            return;
        }
        // a text run may be written as a raw block
        let rawable = !style.line_mode && !t.contains(self.syn.block_start.as_str());
        if rawable && style.chance(10) {
            self.emit_tag(TagKind::Block, "raw", false);
            // (raw content follows its opening tag directly: nothing is inserted in between)
            self.push_piece(Piece::Text(t.to_string()), Some(id));
            let save = self.pending_right_minus;
            self.pending_right_minus = false;
            self.emit_tag(TagKind::Block, "endraw", false);
            let _ = save;
            return;
        }
        let visible_tail_nl = if self.pending_right_minus { t.trim_start().ends_with('\n') } else { t.ends_with('\n') };
        self.at_line_start = visible_tail_nl;
        self.pending_right_minus = false;
        self.push_piece(Piece::Text(t.to_string()), Some(id));
    }

    /// between two statements: now and then a comment (it renders nothing)
    fn maybe_comment(&mut self) {
        let Some(style) = self.style.as_mut() else { return };
        if !style.chance(8) {
            return;
        }
        if style.line_mode && self.at_line_start {
            if let Some(prefix) = &self.syn.line_comment_prefix {
                let lead = ["", "  ", "\t"][style.byte() as usize % 3];
                let src = format!("{lead}{prefix} note\n");
                self.pending_right_minus = false;
                self.at_line_start = true;
                self.push_piece(Piece::Tag { block_like: true, inert: true, left: Marker::None, right: Marker::None, src }, None);
                return;
            }
        }
        self.emit_tag(TagKind::Comment, "c", false);
    }

    pub fn stmts(&mut self, body: &[Stmt]) {
        for s in body {
            self.maybe_comment();
            self.stmt(s);
        }
    }

    pub fn stmt(&mut self, s: &Stmt) {
        match s {
            Stmt::Text(t) => self.text(t),
            Stmt::Emit(e) => self.emit_tag(TagKind::Var, &expr(e), false),
            Stmt::If { branches, else_ } => {
                for (i, (c, b)) in branches.iter().enumerate() {
                    self.tag(&format!("{} {}", if i == 0 { "if" } else { "elif" }, expr(c)));
                    self.stmts(b);
                }
                if let Some(e) = else_ {
                    self.tag("else");
                    self.stmts(e);
                }
                self.tag("endif");
            }
            Stmt::For {
                target: t,
                iter,
                filter,
                recursive,
                body,
                else_,
            } => {
                let mut head = format!("for {} in {}", target(t), operand(iter));
                if let Some(f) = filter {
                    head.push_str(&format!(" if {}", expr(f)));
                }
                if *recursive {
                    head.push_str(" recursive");
                }
                self.tag(&head);
                self.stmts(body);
                if let Some(e) = else_ {
                    self.tag("else");
                    self.stmts(e);
                }
                self.tag("endfor");
            }
            Stmt::Set { target: t, value } => {
                self.tag(&format!("set {} = {}", target(t), expr(value)));
            }
            Stmt::SetBlock { name, filter, body } => {
                match filter {
                    Some((f, a)) if a.is_empty() => self.tag(&format!("set {name} | {f}")),
                    Some((f, a)) => self.tag(&format!("set {name} | {f}({})", args(a))),
                    None => self.tag(&format!("set {name}")),
                }
                self.stmts(body);
                self.tag("endset");
            }
            Stmt::With { bindings, body } => {
                let b = bindings
                    .iter()
                    .map(|(t, e)| match t {
                        Target::Tuple(_) => format!("({}) = {}", target(t), expr(e)),
                        _ => format!("{} = {}", target(t), expr(e)),
                    })
                    .collect::<Vec<_>>()
                    .join(", ");
                self.tag(&format!("with {b}"));
                self.stmts(body);
                self.tag("endwith");
            }
            Stmt::FilterBlock { name, args: a, body } => {
                if a.is_empty() {
                    self.tag(&format!("filter {name}"));
                } else {
                    self.tag(&format!("filter {name}({})", args(a)));
                }
                self.stmts(body);
                self.tag("endfilter");
            }
            Stmt::AutoEscape { value, body } => {
                self.tag(&format!("autoescape {}", expr(value)));
                self.stmts(body);
                self.tag("endautoescape");
            }
            Stmt::Macro { name, params: p, body } => {
                self.tag(&format!("macro {name}({})", params(p)));
                self.stmts(body);
                self.tag("endmacro");
            }
            Stmt::CallBlock { params: p, call, body } => {
                if p.is_empty() {
                    self.tag(&format!("call {}", expr(call)));
                } else {
                    self.tag(&format!("call({}) {}", params(p), expr(call)));
                }
                self.stmts(body);
                self.tag("endcall");
            }
            Stmt::Do(e) => self.tag(&format!("do {}", expr(e))),
            Stmt::Break => self.tag("break"),
            Stmt::Continue => self.tag("continue"),
            Stmt::Block {
                name,
                scoped,
                required,
                body,
            } => {
                let mut head = format!("block {name}");
                if *scoped {
                    head.push_str(" scoped");
                }
                if *required {
                    head.push_str(" required");
                }
                self.tag(&head);
                self.stmts(body);
                self.tag("endblock");
            }
            Stmt::Extends(e) => self.tag(&format!("extends {}", expr(e))),
            Stmt::Include { name, ignore_missing } => {
                if *ignore_missing {
                    self.tag(&format!("include {} ignore missing", expr(name)));
                } else {
                    self.tag(&format!("include {}", expr(name)));
                }
            }
            Stmt::Import { name, alias } => self.tag(&format!("import {} as {alias}", expr(name))),
            Stmt::FromImport { name, names } => {
                let n = names
                    .iter()
                    .map(|(a, b)| match b {
                        Some(b) => format!("{a} as {b}"),
                        None => a.clone(),
                    })
                    .collect::<Vec<_>>()
                    .join(", ");
                self.tag(&format!("from {} import {n}", expr(name)));
            }
            Stmt::Raw(t) => {
                // (only the plain printer is used for programs with raw statements)
                self.emit_tag(TagKind::Block, "raw", false);
                self.out.push_str(t);
                self.emit_tag(TagKind::Block, "endraw", false);
            }
            Stmt::Comment(t) => self.emit_tag(TagKind::Comment, t, false),
        }
    }
}

pub fn template(body: &[Stmt], syn: &Syntax) -> String {
    let mut p = Printer::new(syn, None);
    p.stmts(body);
    p.out
}

/// The styled spelling of a program: its lexical pieces (concatenated they are the source text)
/// with, for every text piece, the index of the text statement (in source order) it spells.
/// Text statements must be merged (no two adjacent) for the whitespace rules to be stated per
/// statement.
pub fn template_styled(body: &[Stmt], syn: &Syntax, style: Style) -> (String, Vec<(Piece, Option<usize>)>) {
    let mut p = Printer::new(syn, Some(style));
    p.stmts(body);
    (p.out, p.pieces)
}

pub fn template_default(body: &[Stmt]) -> String {
    template(body, &Syntax::default())
}
