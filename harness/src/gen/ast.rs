//! Template AST used by the generators, the printer and the reference interpreter.
//! Deliberately independent of minijinja's own AST.
use serde::{Deserialize, Serialize};

#[derive(Clone, Debug, Serialize, Deserialize, PartialEq)]
pub enum Expr {
    /// decimal text (any size)
    Int(String),
    /// source text of a float literal
    Float(String),
    Str(String),
    Bool(bool),
    None,
    Var(String),
    List(Vec<Expr>),
    Tuple(Vec<Expr>),
    Map(Vec<(Expr, Expr)>),
    Not(Box<Expr>),
    Neg(Box<Expr>),
    Bin(BinOp, Box<Expr>, Box<Expr>),
    /// comparison chain a OP b OP c
    Cmp(Box<Expr>, Vec<(CmpOp, Expr)>),
    IfExpr(Box<Expr>, Box<Expr>, Option<Box<Expr>>),
    Attr(Box<Expr>, String),
    Item(Box<Expr>, Box<Expr>),
    Slice(Box<Expr>, Option<Box<Expr>>, Option<Box<Expr>>, Option<Box<Expr>>),
    Filter(Box<Expr>, String, Vec<Arg>),
    Test(Box<Expr>, String, Vec<Arg>, bool),
    Call(Box<Expr>, Vec<Arg>),
    /// parenthesised expression kept explicit (printing only)
    Paren(Box<Expr>),
}

#[derive(Clone, Copy, Debug, Serialize, Deserialize, PartialEq, Eq)]
pub enum BinOp {
    Add,
    Sub,
    Mul,
    Div,
    FloorDiv,
    Rem,
    Pow,
    Concat,
    And,
    Or,
}

#[derive(Clone, Copy, Debug, Serialize, Deserialize, PartialEq, Eq)]
pub enum CmpOp {
    Eq,
    Ne,
    Lt,
    Le,
    Gt,
    Ge,
    In,
    NotIn,
}

#[derive(Clone, Debug, Serialize, Deserialize, PartialEq)]
pub enum Arg {
    Pos(Expr),
    Kw(String, Expr),
    Splat(Expr),
    KwSplat(Expr),
}

#[derive(Clone, Debug, Serialize, Deserialize, PartialEq)]
pub enum Target {
    Name(String),
    Tuple(Vec<Target>),
    /// `ns.attr`
    Attr(String, String),
}

#[derive(Clone, Debug, Serialize, Deserialize, PartialEq)]
pub enum Stmt {
    Text(String),
    Emit(Expr),
    If {
        branches: Vec<(Expr, Vec<Stmt>)>,
        else_: Option<Vec<Stmt>>,
    },
    For {
        target: Target,
        iter: Expr,
        filter: Option<Expr>,
        recursive: bool,
        body: Vec<Stmt>,
        else_: Option<Vec<Stmt>>,
    },
    Set {
        target: Target,
        value: Expr,
    },
    SetBlock {
        name: String,
        filter: Option<(String, Vec<Arg>)>,
        body: Vec<Stmt>,
    },
    With {
        bindings: Vec<(Target, Expr)>,
        body: Vec<Stmt>,
    },
    FilterBlock {
        name: String,
        args: Vec<Arg>,
        body: Vec<Stmt>,
    },
    AutoEscape {
        value: Expr,
        body: Vec<Stmt>,
    },
    Macro {
        name: String,
        params: Vec<(String, Option<Expr>)>,
        body: Vec<Stmt>,
    },
    CallBlock {
        params: Vec<(String, Option<Expr>)>,
        call: Expr,
        body: Vec<Stmt>,
    },
    Do(Expr),
    Break,
    Continue,
    Block {
        name: String,
        scoped: bool,
        required: bool,
        body: Vec<Stmt>,
    },
    Extends(Expr),
    Include {
        name: Expr,
        ignore_missing: bool,
    },
    Import {
        name: Expr,
        alias: String,
    },
    FromImport {
        name: Expr,
        names: Vec<(String, Option<String>)>,
    },
    Raw(String),
    Comment(String),
}

impl Expr {
    pub fn var(s: &str) -> Expr {
        Expr::Var(s.to_string())
    }
    pub fn int(v: i128) -> Expr {
        if v < 0 {
            Expr::Neg(Box::new(Expr::Int(v.unsigned_abs().to_string())))
        } else {
            Expr::Int(v.to_string())
        }
    }
    pub fn str(s: &str) -> Expr {
        Expr::Str(s.to_string())
    }
    pub fn filter(self, name: &str, args: Vec<Arg>) -> Expr {
        Expr::Filter(Box::new(self), name.to_string(), args)
    }
    pub fn call(name: &str, args: Vec<Expr>) -> Expr {
        Expr::Call(Box::new(Expr::var(name)), args.into_iter().map(Arg::Pos).collect())
    }

    /// visits all sub-expressions (pre-order)
    pub fn walk(&self, f: &mut dyn FnMut(&Expr)) {
        f(self);
        let args = |args: &Vec<Arg>, f: &mut dyn FnMut(&Expr)| {
            for a in args {
                match a {
                    Arg::Pos(e) | Arg::Kw(_, e) | Arg::Splat(e) | Arg::KwSplat(e) => e.walk(f),
                }
            }
        };
        match self {
            Expr::List(x) | Expr::Tuple(x) => x.iter().for_each(|e| e.walk(f)),
            Expr::Map(e) => e.iter().for_each(|(k, v)| {
                k.walk(f);
                v.walk(f)
            }),
            Expr::Not(e) | Expr::Neg(e) | Expr::Paren(e) | Expr::Attr(e, _) => e.walk(f),
            Expr::Bin(_, a, b) | Expr::Item(a, b) => {
                a.walk(f);
                b.walk(f)
            }
            Expr::Cmp(a, rest) => {
                a.walk(f);
                rest.iter().for_each(|(_, e)| e.walk(f))
            }
            Expr::IfExpr(c, t, e) => {
                c.walk(f);
                t.walk(f);
                if let Some(e) = e {
                    e.walk(f)
                }
            }
            Expr::Slice(e, a, b, c) => {
                e.walk(f);
                for x in [a, b, c].into_iter().flatten() {
                    x.walk(f)
                }
            }
            Expr::Filter(e, _, a) | Expr::Test(e, _, a, _) | Expr::Call(e, a) => {
                e.walk(f);
                args(a, f)
            }
            _ => {}
        }
    }
}

/// counts statements (all nesting levels)
pub fn count_stmts(body: &[Stmt]) -> usize {
    let mut n = 0;
    walk_stmts(body, &mut |_| n += 1);
    n
}

pub fn walk_stmts(body: &[Stmt], f: &mut dyn FnMut(&Stmt)) {
    for s in body {
        f(s);
        match s {
            Stmt::If { branches, else_ } => {
                for (_, b) in branches {
                    walk_stmts(b, f);
                }
                if let Some(e) = else_ {
                    walk_stmts(e, f);
                }
            }
            Stmt::For { body, else_, .. } => {
                walk_stmts(body, f);
                if let Some(e) = else_ {
                    walk_stmts(e, f);
                }
            }
            Stmt::SetBlock { body, .. }
            | Stmt::With { body, .. }
            | Stmt::FilterBlock { body, .. }
            | Stmt::AutoEscape { body, .. }
            | Stmt::Macro { body, .. }
            | Stmt::CallBlock { body, .. }
            | Stmt::Block { body, .. } => walk_stmts(body, f),
            _ => {}
        }
    }
}

/// applies `f` to every expression of the statements (top-level expressions of each
/// statement; `f` is responsible for descending into sub-expressions via `map_expr`)
pub fn map_stmt_exprs(body: &mut [Stmt], f: &mut dyn FnMut(&mut Expr)) {
    let args = |a: &mut Vec<Arg>, f: &mut dyn FnMut(&mut Expr)| {
        for x in a.iter_mut() {
            match x {
                Arg::Pos(e) | Arg::Kw(_, e) | Arg::Splat(e) | Arg::KwSplat(e) => f(e),
            }
        }
    };
    for s in body.iter_mut() {
        match s {
            Stmt::Emit(e) | Stmt::Do(e) | Stmt::Extends(e) => f(e),
            Stmt::If { branches, else_ } => {
                for (c, b) in branches.iter_mut() {
                    f(c);
                    map_stmt_exprs(b, f);
                }
                if let Some(e) = else_ {
                    map_stmt_exprs(e, f);
                }
            }
            Stmt::For { iter, filter, body, else_, .. } => {
                f(iter);
                if let Some(x) = filter {
                    f(x);
                }
                map_stmt_exprs(body, f);
                if let Some(e) = else_ {
                    map_stmt_exprs(e, f);
                }
            }
            Stmt::Set { value, .. } => f(value),
            Stmt::SetBlock { filter, body, .. } => {
                if let Some((_, a)) = filter {
                    args(a, f);
                }
                map_stmt_exprs(body, f);
            }
            Stmt::With { bindings, body } => {
                for (_, e) in bindings.iter_mut() {
                    f(e);
                }
                map_stmt_exprs(body, f);
            }
            Stmt::FilterBlock { args: a, body, .. } => {
                args(a, f);
                map_stmt_exprs(body, f);
            }
            Stmt::AutoEscape { value, body } => {
                f(value);
                map_stmt_exprs(body, f);
            }
            Stmt::Macro { params, body, .. } => {
                for (_, d) in params.iter_mut() {
                    if let Some(d) = d {
                        f(d);
                    }
                }
                map_stmt_exprs(body, f);
            }
            Stmt::CallBlock { params, call, body } => {
                for (_, d) in params.iter_mut() {
                    if let Some(d) = d {
                        f(d);
                    }
                }
                f(call);
                map_stmt_exprs(body, f);
            }
            Stmt::Block { body, .. } => map_stmt_exprs(body, f),
            Stmt::Include { name, .. } | Stmt::Import { name, .. } | Stmt::FromImport { name, .. } => f(name),
            _ => {}
        }
    }
}

/// rewrites an expression tree bottom-up
pub fn map_expr(e: &mut Expr, f: &mut dyn FnMut(&mut Expr)) {
    let args = |a: &mut Vec<Arg>, f: &mut dyn FnMut(&mut Expr)| {
        for x in a.iter_mut() {
            match x {
                Arg::Pos(e) | Arg::Kw(_, e) | Arg::Splat(e) | Arg::KwSplat(e) => map_expr(e, f),
            }
        }
    };
    match e {
        Expr::List(x) | Expr::Tuple(x) => x.iter_mut().for_each(|e| map_expr(e, f)),
        Expr::Map(en) => en.iter_mut().for_each(|(k, v)| {
            map_expr(k, f);
            map_expr(v, f)
        }),
        Expr::Not(x) | Expr::Neg(x) | Expr::Paren(x) | Expr::Attr(x, _) => map_expr(x, f),
        Expr::Bin(_, a, b) | Expr::Item(a, b) => {
            map_expr(a, f);
            map_expr(b, f)
        }
        Expr::Cmp(a, rest) => {
            map_expr(a, f);
            rest.iter_mut().for_each(|(_, e)| map_expr(e, f))
        }
        Expr::IfExpr(c, t, el) => {
            map_expr(c, f);
            map_expr(t, f);
            if let Some(x) = el {
                map_expr(x, f)
            }
        }
        Expr::Slice(x, a, b, c) => {
            map_expr(x, f);
            for y in [a, b, c].into_iter().flatten() {
                map_expr(y, f)
            }
        }
        Expr::Filter(x, _, a) | Expr::Test(x, _, a, _) | Expr::Call(x, a) => {
            map_expr(x, f);
            args(a, f)
        }
        _ => {}
    }
    f(e);
}
