//! Well-typed program generator for the core fragment: a scope-tracking generator that only
//! produces programs whose meaning the documentation fixes (used with the reference
//! interpreter: C03, C06).
//!
//! Randomness comes from a byte tape supplied by proptest (so cases shrink and replay):
//! every choice consumes tape; an exhausted tape yields the first alternative.
use super::ast::*;

#[derive(Clone, Copy, Debug, PartialEq, Eq)]
pub enum Ty {
    Int,
    Str,
    Bool,
    ListInt,
    ListStr,
    /// list of [int, int] pairs
    ListPair,
    /// map with keys k, j (ints)
    Map,
}

pub struct Tape<'a> {
    data: &'a [u8],
    pos: usize,
}

impl<'a> Tape<'a> {
    pub fn new(data: &'a [u8]) -> Tape<'a> {
        Tape { data, pos: 0 }
    }
    pub fn byte(&mut self) -> u8 {
        let b = self.data.get(self.pos).copied().unwrap_or(0);
        self.pos += 1;
        b
    }
    /// uniform-ish choice in 0..n; 0 when the tape is exhausted
    pub fn pick(&mut self, n: usize) -> usize {
        if n <= 1 {
            return 0;
        }
        (self.byte() as usize * n) >> 8
    }
    pub fn chance(&mut self, percent: u8) -> bool {
        (self.byte() as u32 * 100) >> 8 < percent as u32
    }
    pub fn exhausted(&self) -> bool {
        self.pos >= self.data.len()
    }
}

#[derive(Clone, Debug)]
struct MacroSig {
    name: String,
    /// parameter types; the last `n_default` have defaults
    params: Vec<(String, Ty, bool)>,
    uses_caller: bool,
    /// caller parameters expected by the macro body (types of the values passed to caller())
    caller_args: Vec<Ty>,
}

pub struct Gen<'a> {
    pub tape: Tape<'a>,
    scopes: Vec<Vec<(String, Ty)>>,
    macros: Vec<MacroSig>,
    counter: usize,
    budget: i32,
    /// are we inside a loop body (loop.* available)
    loop_depth: usize,
    in_macro: bool,
    /// caller available with these argument types
    caller: Option<Vec<Ty>>,
    pub allow_loop_controls: bool,
    /// template-level names a macro declared so far can see: they are not reassigned any more
    frozen: Vec<String>,
}

pub const CTX_NAMES: [(&str, Ty); 9] = [
    ("ci", Ty::Int),
    ("cj", Ty::Int),
    ("cs", Ty::Str),
    ("cb", Ty::Bool),
    ("cl", Ty::ListInt),
    ("cls", Ty::ListStr),
    ("cp", Ty::ListPair),
    ("cm", Ty::Map),
    ("ce", Ty::ListInt),
];

// (one word is not ASCII: characters and bytes differ, e.g. for the length of a loop over it)
const WORDS: [&str; 8] = ["a", "b", "Abc", "x y", "m1", "z\u{e4}", "Q", "hello"];

impl<'a> Gen<'a> {
    pub fn new(data: &'a [u8], budget: i32) -> Gen<'a> {
        Gen {
            tape: Tape::new(data),
            scopes: vec![CTX_NAMES.iter().map(|(n, t)| (n.to_string(), *t)).collect(), vec![]],
            macros: vec![],
            counter: 0,
            budget,
            loop_depth: 0,
            in_macro: false,
            caller: None,
            allow_loop_controls: false,
            frozen: vec![],
        }
    }

    fn fresh(&mut self, prefix: &str) -> String {
        self.counter += 1;
        format!("{prefix}{}", self.counter)
    }

    fn bind(&mut self, name: &str, ty: Ty) {
        let top = self.scopes.last_mut().unwrap();
        top.retain(|(n, _)| n != name);
        top.push((name.to_string(), ty));
    }

    fn vars_of(&self, ty: Ty) -> Vec<String> {
        let mut out: Vec<String> = vec![];
        for s in &self.scopes {
            for (n, t) in s {
                if *t == ty && !out.contains(n) {
                    out.push(n.clone());
                }
            }
        }
        // a name rebound with another type in an inner scope is not of this type
        out.retain(|n| self.type_of(n) == Some(ty));
        out
    }

    fn type_of(&self, name: &str) -> Option<Ty> {
        for s in self.scopes.iter().rev() {
            if let Some((_, t)) = s.iter().rev().find(|(n, _)| n == name) {
                return Some(*t);
            }
        }
        None
    }

    // ------------------------------------------------------------------ expressions

    pub fn expr(&mut self, ty: Ty, depth: u32) -> Expr {
        self.budget -= 1;
        let leaf = depth == 0 || self.budget <= 0;
        match ty {
            Ty::Int => self.int_expr(leaf, depth),
            Ty::Str => self.str_expr(leaf, depth),
            Ty::Bool => self.bool_expr(leaf, depth),
            Ty::ListInt => self.list_int_expr(leaf, depth),
            Ty::ListStr => self.list_str_expr(leaf, depth),
            Ty::ListPair => {
                let vars = self.vars_of(Ty::ListPair);
                if !vars.is_empty() && self.tape.chance(60) {
                    Expr::Var(vars[self.tape.pick(vars.len())].clone())
                } else {
                    let n = self.tape.pick(3);
                    Expr::List(
                        (0..n)
                            .map(|_| Expr::List(vec![self.expr(Ty::Int, 0), self.expr(Ty::Int, 0)]))
                            .collect(),
                    )
                }
            }
            Ty::Map => {
                let vars = self.vars_of(Ty::Map);
                if !vars.is_empty() && self.tape.chance(70) {
                    Expr::Var(vars[self.tape.pick(vars.len())].clone())
                } else {
                    Expr::Map(vec![
                        (Expr::str("k"), self.expr(Ty::Int, depth.saturating_sub(1))),
                        (Expr::str("j"), self.expr(Ty::Int, 0)),
                    ])
                }
            }
        }
    }

    fn int_leaf(&mut self) -> Expr {
        let vars = self.vars_of(Ty::Int);
        let mut options = 2;
        if !vars.is_empty() {
            options += 3;
        }
        if self.loop_depth > 0 {
            options += 2;
        }
        let k = self.tape.pick(options);
        if k < 2 {
            return Expr::int(self.tape.pick(12) as i128 - 2);
        }
        if !vars.is_empty() && k < 5 {
            return Expr::Var(vars[self.tape.pick(vars.len())].clone());
        }
        let attr = ["index", "index0", "revindex", "revindex0", "length", "depth", "depth0"][self.tape.pick(7)];
        Expr::Attr(Box::new(Expr::var("loop")), attr.into())
    }

    fn int_expr(&mut self, leaf: bool, depth: u32) -> Expr {
        if leaf {
            return self.int_leaf();
        }
        let d = depth - 1;
        match self.tape.pick(12) {
            0 | 1 => self.int_leaf(),
            2 => Expr::Bin(BinOp::Add, Box::new(self.expr(Ty::Int, d)), Box::new(self.expr(Ty::Int, d))),
            3 => Expr::Bin(BinOp::Sub, Box::new(self.expr(Ty::Int, d)), Box::new(self.expr(Ty::Int, d))),
            4 => Expr::Bin(BinOp::Mul, Box::new(self.expr(Ty::Int, d)), Box::new(self.int_leaf())),
            5 => {
                let divisor = Expr::int(self.tape.pick(4) as i128 + 1);
                let op = if self.tape.chance(50) { BinOp::FloorDiv } else { BinOp::Rem };
                Expr::Bin(op, Box::new(self.expr(Ty::Int, d)), Box::new(divisor))
            }
            6 => self.expr(Ty::ListInt, d).filter("length", vec![]),
            7 => self.expr(Ty::Str, d).filter("length", vec![]),
            8 => self.expr(Ty::ListInt, d).filter("sum", vec![]),
            9 => Expr::IfExpr(Box::new(self.expr(Ty::Bool, d)), Box::new(self.expr(Ty::Int, d)), Some(Box::new(self.expr(Ty::Int, d)))),
            10 => {
                let m = self.expr(Ty::Map, d);
                let key = ["k", "j"][self.tape.pick(2)];
                if self.tape.chance(50) {
                    Expr::Attr(Box::new(m), key.into())
                } else {
                    Expr::Item(Box::new(m), Box::new(Expr::str(key)))
                }
            }
            _ => Expr::Neg(Box::new(self.expr(Ty::Int, d))).filter("abs", vec![]),
        }
    }

    fn str_leaf(&mut self) -> Expr {
        let vars = self.vars_of(Ty::Str);
        if !vars.is_empty() && self.tape.chance(55) {
            Expr::Var(vars[self.tape.pick(vars.len())].clone())
        } else {
            Expr::str(WORDS[self.tape.pick(WORDS.len())])
        }
    }

    fn str_expr(&mut self, leaf: bool, depth: u32) -> Expr {
        if leaf {
            return self.str_leaf();
        }
        let d = depth - 1;
        match self.tape.pick(12) {
            0 | 1 => self.str_leaf(),
            2 => {
                let (ta, tb) = ([Ty::Str, Ty::Int, Ty::Bool][self.tape.pick(3)], [Ty::Str, Ty::Int][self.tape.pick(2)]);
                Expr::Bin(BinOp::Concat, Box::new(self.expr(ta, d)), Box::new(self.expr(tb, d)))
            }
            3 => Expr::Bin(BinOp::Add, Box::new(self.expr(Ty::Str, d)), Box::new(self.expr(Ty::Str, d))),
            4 => {
                let f = ["upper", "lower", "trim"][self.tape.pick(3)];
                self.expr(Ty::Str, d).filter(f, vec![])
            }
            5 => {
                let sep = [", ", "-", ""][self.tape.pick(3)];
                let lt = if self.tape.chance(50) { Ty::ListInt } else { Ty::ListStr };
                self.expr(lt, d).filter("join", vec![Arg::Pos(Expr::str(sep))])
            }
            6 => self.expr(Ty::Int, d).filter("string", vec![]),
            7 => Expr::IfExpr(Box::new(self.expr(Ty::Bool, d)), Box::new(self.expr(Ty::Str, d)), Some(Box::new(self.expr(Ty::Str, d)))),
            8 => {
                // undefined with a default
                let name = self.fresh("undef");
                Expr::Var(name).filter("default", vec![Arg::Pos(self.expr(Ty::Str, 0))])
            }
            9 => self.macro_call(d).unwrap_or_else(|| self.str_leaf()),
            10 => self.caller_call(d).unwrap_or_else(|| self.str_leaf()),
            _ => self
                .expr(Ty::Str, d)
                .filter("replace", vec![Arg::Pos(Expr::str(["a", "b", "x"][self.tape.pick(3)])), Arg::Pos(self.str_leaf())]),
        }
    }

    fn bool_expr(&mut self, leaf: bool, depth: u32) -> Expr {
        let vars = self.vars_of(Ty::Bool);
        if leaf {
            let mut n = 2;
            if !vars.is_empty() {
                n += 2;
            }
            if self.loop_depth > 0 {
                n += 2;
            }
            let k = self.tape.pick(n);
            if k < 2 {
                return Expr::Bool(k == 0);
            }
            if !vars.is_empty() && k < 4 {
                return Expr::Var(vars[self.tape.pick(vars.len())].clone());
            }
            return Expr::Attr(Box::new(Expr::var("loop")), ["first", "last"][self.tape.pick(2)].into());
        }
        let d = depth - 1;
        match self.tape.pick(11) {
            0 => self.bool_expr(true, 0),
            1 | 2 => {
                let op = [CmpOp::Eq, CmpOp::Ne, CmpOp::Lt, CmpOp::Le, CmpOp::Gt, CmpOp::Ge][self.tape.pick(6)];
                let mut rest = vec![(op, self.expr(Ty::Int, d))];
                if self.tape.chance(25) {
                    let op2 = [CmpOp::Lt, CmpOp::Le, CmpOp::Eq][self.tape.pick(3)];
                    rest.push((op2, self.expr(Ty::Int, d)));
                }
                Expr::Cmp(Box::new(self.expr(Ty::Int, d)), rest)
            }
            3 => {
                let op = [CmpOp::Eq, CmpOp::Ne, CmpOp::Lt][self.tape.pick(3)];
                Expr::Cmp(Box::new(self.expr(Ty::Str, d)), vec![(op, self.expr(Ty::Str, d))])
            }
            4 => Expr::Not(Box::new(self.expr(Ty::Bool, d))),
            5 => Expr::Bin(BinOp::And, Box::new(self.expr(Ty::Bool, d)), Box::new(self.expr(Ty::Bool, d))),
            6 => Expr::Bin(BinOp::Or, Box::new(self.expr(Ty::Bool, d)), Box::new(self.expr(Ty::Bool, d))),
            7 => {
                let op = if self.tape.chance(70) { CmpOp::In } else { CmpOp::NotIn };
                Expr::Cmp(Box::new(self.expr(Ty::Int, d)), vec![(op, self.expr(Ty::ListInt, d))])
            }
            8 => {
                let t = ["odd", "even"][self.tape.pick(2)];
                Expr::Test(Box::new(self.expr(Ty::Int, d)), t.into(), vec![], self.tape.chance(20))
            }
            9 => {
                // definedness of a visible or an unknown name
                let all: Vec<String> = self.scopes.iter().flatten().map(|(n, _)| n.clone()).collect();
                let name = if !all.is_empty() && self.tape.chance(60) {
                    all[self.tape.pick(all.len())].clone()
                } else {
                    self.fresh("nope")
                };
                Expr::Test(Box::new(Expr::Var(name)), "defined".into(), vec![], self.tape.chance(30))
            }
            _ => Expr::Test(
                Box::new(self.expr(Ty::Int, d)),
                "divisibleby".into(),
                vec![Arg::Pos(Expr::int(self.tape.pick(3) as i128 + 2))],
                false,
            ),
        }
    }

    fn list_int_expr(&mut self, leaf: bool, depth: u32) -> Expr {
        let vars = self.vars_of(Ty::ListInt);
        if leaf || self.tape.chance(40) {
            if !vars.is_empty() && self.tape.chance(60) {
                return Expr::Var(vars[self.tape.pick(vars.len())].clone());
            }
            let n = self.tape.pick(4);
            return Expr::List((0..n).map(|_| Expr::int(self.tape.pick(9) as i128)).collect());
        }
        let d = depth - 1;
        match self.tape.pick(6) {
            0 => Expr::call("range", vec![Expr::int(self.tape.pick(4) as i128)]),
            1 => Expr::Bin(BinOp::Add, Box::new(self.expr(Ty::ListInt, d)), Box::new(self.expr(Ty::ListInt, d))),
            2 => self.expr(Ty::ListInt, d).filter("sort", vec![]),
            3 => self.expr(Ty::ListInt, d).filter("reverse", vec![]).filter("list", vec![]),
            4 => Expr::List(vec![self.expr(Ty::Int, d), self.expr(Ty::Int, d)]),
            _ => Expr::call("range", vec![Expr::int(1), Expr::int(self.tape.pick(5) as i128)]),
        }
    }

    fn list_str_expr(&mut self, leaf: bool, depth: u32) -> Expr {
        let vars = self.vars_of(Ty::ListStr);
        if leaf || self.tape.chance(50) {
            if !vars.is_empty() && self.tape.chance(60) {
                return Expr::Var(vars[self.tape.pick(vars.len())].clone());
            }
            let n = self.tape.pick(4);
            return Expr::List((0..n).map(|_| Expr::str(WORDS[self.tape.pick(WORDS.len())])).collect());
        }
        let d = depth - 1;
        match self.tape.pick(3) {
            // elements of printed lists are plain words (the quoting of arbitrary strings inside
            // a printed list is not what this check is about)
            0 => Expr::List(vec![Expr::str(WORDS[self.tape.pick(WORDS.len())]), Expr::str(WORDS[self.tape.pick(WORDS.len())])]),
            1 => self.expr(Ty::ListStr, d).filter("sort", vec![]),
            _ => Expr::Bin(BinOp::Add, Box::new(self.expr(Ty::ListStr, d)), Box::new(self.expr(Ty::ListStr, d))),
        }
    }

    fn macro_call(&mut self, depth: u32) -> Option<Expr> {
        // macros that need a caller are only invoked through call blocks
        let candidates: Vec<MacroSig> = self.macros.iter().filter(|m| !m.uses_caller).cloned().collect();
        if candidates.is_empty() {
            return None;
        }
        let m = candidates[self.tape.pick(candidates.len())].clone();
        Some(Expr::Call(Box::new(Expr::Var(m.name.clone())), self.call_args(&m, depth)))
    }

    fn call_args(&mut self, m: &MacroSig, depth: u32) -> Vec<Arg> {
        let mut args = vec![];
        let mut by_kw = false;
        for (name, ty, has_default) in &m.params {
            if *has_default && self.tape.chance(40) {
                // leave the default; everything after must be passed by keyword
                by_kw = true;
                continue;
            }
            let e = self.expr(*ty, depth.min(1));
            if by_kw || self.tape.chance(25) {
                by_kw = true;
                args.push(Arg::Kw(name.clone(), e));
            } else {
                args.push(Arg::Pos(e));
            }
        }
        args
    }

    fn caller_call(&mut self, depth: u32) -> Option<Expr> {
        let tys = self.caller.clone()?;
        let args = tys.iter().map(|t| Arg::Pos(self.expr(*t, depth.min(1)))).collect();
        Some(Expr::Call(Box::new(Expr::var("caller")), args))
    }

    // ------------------------------------------------------------------ statements

    fn emit_any(&mut self, depth: u32) -> Stmt {
        let ty = [Ty::Int, Ty::Str, Ty::Bool, Ty::ListInt, Ty::Str, Ty::Int, Ty::ListStr][self.tape.pick(7)];
        Stmt::Emit(self.expr(ty, depth))
    }

    /// prints `name` (or whether it is defined), to observe scoping
    fn probe(&mut self, name: &str) -> Vec<Stmt> {
        vec![
            Stmt::Text("[".into()),
            Stmt::Emit(Expr::Test(Box::new(Expr::Var(name.to_string())), "defined".into(), vec![], false)),
            Stmt::Text(":".into()),
            Stmt::Emit(Expr::Var(name.to_string())),
            Stmt::Text("]".into()),
        ]
    }

    pub fn body(&mut self, depth: u32, max_stmts: usize) -> Vec<Stmt> {
        let n = 1 + self.tape.pick(max_stmts);
        let mut out = vec![];
        for _ in 0..n {
            if self.budget <= 0 {
                break;
            }
            out.extend(self.stmt(depth));
        }
        out
    }

    fn loop_info(&mut self) -> Vec<Stmt> {
        // loop.* must describe the sequence actually iterated
        let mut v = vec![Stmt::Text("<".into())];
        for a in ["index", "index0", "revindex", "revindex0", "first", "last", "length"] {
            if self.tape.chance(45) {
                v.push(Stmt::Emit(Expr::Attr(Box::new(Expr::var("loop")), a.into())));
                v.push(Stmt::Text(",".into()));
            }
        }
        if self.tape.chance(40) {
            v.push(Stmt::Emit(Expr::Attr(Box::new(Expr::var("loop")), "previtem".into())));
            v.push(Stmt::Text("|".into()));
            v.push(Stmt::Emit(Expr::Attr(Box::new(Expr::var("loop")), "nextitem".into())));
        }
        if self.tape.chance(25) {
            v.push(Stmt::Emit(Expr::Call(
                Box::new(Expr::Attr(Box::new(Expr::var("loop")), "cycle".into())),
                vec![Arg::Pos(Expr::str("o")), Arg::Pos(Expr::str("e")), Arg::Pos(Expr::str("t"))],
            )));
        }
        v.push(Stmt::Text(">".into()));
        v
    }

    pub fn stmt(&mut self, depth: u32) -> Vec<Stmt> {
        self.budget -= 1;
        let simple = depth == 0 || self.budget <= 0;
        let k = if simple { self.tape.pick(4) } else { self.tape.pick(16) };
        match k {
            0 => vec![Stmt::Text(["t ", " ", "x", ";"][self.tape.pick(4)].into())],
            1 | 2 => vec![self.emit_any(2)],
            3 => {
                // set (new or rebinding with the same type)
                let ty = [Ty::Int, Ty::Str, Ty::ListInt, Ty::Bool][self.tape.pick(4)];
                let existing = self.vars_of(ty);
                // context names are not reassigned (keeps the context constant), macro names neither
                let existing: Vec<String> = existing
                    .into_iter()
                    .filter(|n| n.starts_with('v') && !self.frozen.contains(n))
                    .collect();
                let name = if !existing.is_empty() && self.tape.chance(40) {
                    existing[self.tape.pick(existing.len())].clone()
                } else {
                    self.fresh("v")
                };
                let value = self.expr(ty, 2);
                self.bind(&name, ty);
                let mut out = vec![Stmt::Set { target: Target::Name(name.clone()), value }];
                if self.tape.chance(30) {
                    out.extend(self.probe(&name));
                }
                out
            }
            4 | 5 => {
                // if / elif / else: assignments inside persist, but only on the taken path, so
                // names bound inside are not used afterwards except through `is defined` probes
                let n_branches = 1 + self.tape.pick(2);
                let mut branches = vec![];
                let mut inner_names = vec![];
                for _ in 0..n_branches {
                    let c = self.expr(Ty::Bool, 2);
                    self.scopes.push(vec![]);
                    let b = self.body(depth - 1, 3);
                    inner_names.extend(self.scopes.pop().unwrap());
                    branches.push((c, b));
                }
                let else_ = if self.tape.chance(50) {
                    self.scopes.push(vec![]);
                    let b = self.body(depth - 1, 3);
                    inner_names.extend(self.scopes.pop().unwrap());
                    Some(b)
                } else {
                    None
                };
                let mut out = vec![Stmt::If { branches, else_ }];
                // definedness after the if depends on the path: only `is defined` is printed
                if let Some((n, _)) = inner_names.first() {
                    if self.tape.chance(50) {
                        out.push(Stmt::Text("(d:".into()));
                        out.push(Stmt::Emit(Expr::Test(Box::new(Expr::Var(n.clone())), "defined".into(), vec![], false)));
                        out.push(Stmt::Text(")".into()));
                    }
                }
                out
            }
            6 | 7 | 8 => self.for_loop(depth),
            9 => {
                // with
                let ty = [Ty::Int, Ty::Str, Ty::ListInt][self.tape.pick(3)];
                let name = self.fresh("w");
                let value = self.expr(ty, 2);
                self.scopes.push(vec![(name.clone(), ty)]);
                let mut bindings = vec![(Target::Name(name.clone()), value)];
                if self.tape.chance(30) {
                    // a second binding. Whether its value may see the first target is not
                    // settled by the documentation (Jinja: values are evaluated outside the
                    // block; this engine binds left to right), so the value is generated with
                    // the first target out of scope
                    let n2 = self.fresh("w");
                    let hidden = self.scopes.pop().unwrap();
                    let v2 = self.expr(Ty::Int, 1);
                    self.scopes.push(hidden);
                    bindings.push((Target::Name(n2.clone()), v2));
                    self.bind(&n2, Ty::Int);
                }
                let inner_set = self.fresh("v");
                let mut body = vec![Stmt::Set { target: Target::Name(inner_set.clone()), value: self.expr(Ty::Int, 1) }];
                self.bind(&inner_set, Ty::Int);
                body.extend(self.body(depth - 1, 3));
                self.scopes.pop();
                let mut out = vec![Stmt::With { bindings, body }];
                out.extend(self.probe(&name));
                out.extend(self.probe(&inner_set));
                out
            }
            10 => {
                // set block (optionally filtered); the capture is a string
                let name = self.fresh("v");
                let body = self.body(depth - 1, 3);
                let filter = if self.tape.chance(35) {
                    Some((["upper", "lower", "trim"][self.tape.pick(3)].to_string(), vec![]))
                } else {
                    None
                };
                self.bind(&name, Ty::Str);
                let mut out = vec![Stmt::SetBlock { name: name.clone(), filter, body }];
                out.push(Stmt::Emit(Expr::Var(name)));
                out
            }
            11 => {
                let body = self.body(depth - 1, 3);
                vec![Stmt::FilterBlock { name: ["upper", "lower", "trim"][self.tape.pick(3)].into(), args: vec![], body }]
            }
            12 | 13 => self.macro_decl(depth),
            14 => self.call_block(depth),
            _ => {
                if self.allow_loop_controls && self.loop_depth > 0 && !self.in_macro {
                    let c = self.expr(Ty::Bool, 1);
                    vec![Stmt::If {
                        branches: vec![(c, vec![if self.tape.chance(50) { Stmt::Break } else { Stmt::Continue }])],
                        else_: None,
                    }]
                } else {
                    vec![self.emit_any(1)]
                }
            }
        }
    }

    fn for_loop(&mut self, depth: u32) -> Vec<Stmt> {
        let kind = self.tape.pick(5);
        let (target, iter, item_ty): (Target, Expr, Vec<(String, Ty)>) = match kind {
            4 => {
                // a string is iterated character by character
                let x = self.fresh("x");
                (Target::Name(x.clone()), self.expr(Ty::Str, 1), vec![(x, Ty::Str)])
            }
            0 | 1 => {
                let x = self.fresh("x");
                (Target::Name(x.clone()), self.expr(Ty::ListInt, 2), vec![(x, Ty::Int)])
            }
            2 => {
                let x = self.fresh("x");
                (Target::Name(x.clone()), self.expr(Ty::ListStr, 2), vec![(x, Ty::Str)])
            }
            _ => {
                let (a, b) = (self.fresh("x"), self.fresh("x"));
                (
                    Target::Tuple(vec![Target::Name(a.clone()), Target::Name(b.clone())]),
                    self.expr(Ty::ListPair, 1),
                    vec![(a, Ty::Int), (b, Ty::Int)],
                )
            }
        };
        // the loop filter sees the target but not `loop`
        self.scopes.push(item_ty.clone());
        let filter = if self.tape.chance(30) {
            let saved = self.loop_depth;
            self.loop_depth = 0;
            let f = self.expr(Ty::Bool, 2);
            self.loop_depth = saved;
            Some(f)
        } else {
            None
        };
        self.loop_depth += 1;
        let inner_set = self.fresh("v");
        let mut body = self.loop_info();
        body.push(Stmt::Set { target: Target::Name(inner_set.clone()), value: self.expr(Ty::Int, 1) });
        self.bind(&inner_set, Ty::Int);
        body.extend(self.body(depth - 1, 3));
        if self.tape.chance(30) {
            body.push(Stmt::Emit(Expr::Call(
                Box::new(Expr::Attr(Box::new(Expr::var("loop")), "changed".into())),
                vec![Arg::Pos(Expr::Var(item_ty[0].0.clone()))],
            )));
        }
        self.loop_depth -= 1;
        self.scopes.pop();
        let else_ = if self.tape.chance(35) {
            self.scopes.push(vec![]);
            let b = self.body(depth.saturating_sub(1), 2);
            self.scopes.pop();
            Some(b)
        } else {
            None
        };
        let mut out = vec![Stmt::For { target, iter, filter, recursive: false, body, else_ }];
        // the loop target and assignments made inside are invisible afterwards
        out.extend(self.probe(&item_ty[0].0));
        out.extend(self.probe(&inner_set));
        out
    }

    fn macro_decl(&mut self, depth: u32) -> Vec<Stmt> {
        if self.in_macro || self.loop_depth > 0 || self.scopes.len() > 2 {
            // macros are declared at template level only (closure corners are not documented)
            return vec![self.emit_any(1)];
        }
        let name = self.fresh("mac");
        let n_params = self.tape.pick(4);
        let mut params = vec![];
        let mut sig_params = vec![];
        let mut defaults_started = false;
        for _ in 0..n_params {
            let ty = [Ty::Int, Ty::Str, Ty::ListInt][self.tape.pick(3)];
            let p = self.fresh("p");
            let has_default = defaults_started || self.tape.chance(35);
            defaults_started |= has_default;
            // defaults are literals (they may not refer to other parameters)
            let default = if has_default {
                Some(match ty {
                    Ty::Int => Expr::int(self.tape.pick(9) as i128),
                    Ty::Str => Expr::str(WORDS[self.tape.pick(WORDS.len())]),
                    _ => Expr::List(vec![Expr::int(1), Expr::int(2)]),
                })
            } else {
                None
            };
            params.push((p.clone(), default));
            sig_params.push((p, ty, has_default));
        }
        let uses_caller = self.tape.chance(30);
        let caller_args: Vec<Ty> = if uses_caller {
            (0..self.tape.pick(3)).map(|_| [Ty::Int, Ty::Str][self.tape.pick(2)]).collect()
        } else {
            vec![]
        };
        // the macro body sees: its parameters, its own locals, the context, template-level
        // variables set before the declaration (they are not reassigned later: enforced by
        // freezing them), and macros declared before (and itself)
        let visible_outer: Vec<(String, Ty)> = self.scopes[1].clone();
        let new_scopes = vec![self.scopes[0].clone(), visible_outer, vec![]];
        let saved_scopes = std::mem::replace(&mut self.scopes, new_scopes);
        for (p, ty, _) in &sig_params {
            self.bind(p, *ty);
        }
        let saved_caller = std::mem::replace(&mut self.caller, if uses_caller { Some(caller_args.clone()) } else { None });
        let saved_loop = std::mem::replace(&mut self.loop_depth, 0);
        self.in_macro = true;
        // recursion is possible through itself with a decreasing guard: keep it simple, call
        // only earlier macros
        let mut body = vec![Stmt::Text(format!("({name}:"))];
        // every parameter is printed, so that which argument or default was bound to which
        // parameter is always visible in the output
        for (p, _, _) in &sig_params {
            body.push(Stmt::Emit(Expr::Var(p.clone())));
            body.push(Stmt::Text(",".into()));
        }
        body.extend(self.body(depth - 1, 3));
        if uses_caller {
            let e = self.caller_call(1).unwrap();
            body.push(Stmt::Emit(e));
        }
        body.push(Stmt::Text(")".into()));
        self.in_macro = false;
        self.loop_depth = saved_loop;
        self.caller = saved_caller;
        self.scopes = saved_scopes;
        // template-level variables visible to the macro keep their value from now on
        let names: Vec<String> = self.scopes[1].iter().map(|(n, _)| n.clone()).collect();
        self.frozen.extend(names);
        self.macros.push(MacroSig { name: name.clone(), params: sig_params, uses_caller, caller_args });
        vec![Stmt::Macro { name, params, body }]
    }

    fn call_block(&mut self, depth: u32) -> Vec<Stmt> {
        let candidates: Vec<MacroSig> = self.macros.iter().filter(|m| m.uses_caller).cloned().collect();
        if candidates.is_empty() || self.in_macro {
            return vec![self.emit_any(1)];
        }
        let m = candidates[self.tape.pick(candidates.len())].clone();
        let args = self.call_args(&m, 1);
        let mut params = vec![];
        let mut scope = vec![];
        for ty in &m.caller_args {
            let p = self.fresh("cp");
            params.push((p.clone(), None));
            scope.push((p, *ty));
        }
        // further caller parameters with (different) literal defaults that the macro never passes
        for _ in 0..self.tape.pick(3) {
            let p = self.fresh("cp");
            let (ty, default) = if self.tape.chance(50) {
                (Ty::Int, Expr::int(self.tape.pick(9) as i128))
            } else {
                (Ty::Str, Expr::str(WORDS[self.tape.pick(WORDS.len())]))
            };
            params.push((p.clone(), Some(default)));
            scope.push((p, ty));
        }
        let echo: Vec<String> = scope.iter().map(|(p, _)| p.clone()).collect();
        // the call body sees the enclosing variables as they are at the call
        self.scopes.push(scope);
        let saved_loop = std::mem::replace(&mut self.loop_depth, 0);
        let was_macro = std::mem::replace(&mut self.in_macro, true);
        let mut body = vec![Stmt::Text("(c:".into())];
        for p in echo {
            body.push(Stmt::Emit(Expr::Var(p)));
            body.push(Stmt::Text(",".into()));
        }
        body.extend(self.body(depth.saturating_sub(1), 2));
        body.push(Stmt::Text(")".into()));
        self.in_macro = was_macro;
        self.loop_depth = saved_loop;
        self.scopes.pop();
        vec![Stmt::CallBlock { params, call: Expr::Call(Box::new(Expr::Var(m.name.clone())), args), body }]
    }
}

pub fn program(data: &[u8], budget: i32, loop_controls: bool) -> Vec<Stmt> {
    let mut g = Gen::new(data, budget);
    g.allow_loop_controls = loop_controls;
    g.body(4, 6)
}
