//! Child-process isolation for properties whose violations kill the process
//! (native stack overflow, abort on allocation failure) — C01 and C11.
//!
//! Parent: spawns worker processes (possibly another build profile), reads their
//! line protocol, attributes a death to the case that was running, shrinks it by
//! re-spawning single-case children, and respawns the worker behind the crash.
//! Worker: runs the proptest loop in-process, announcing every case before it runs.
use std::collections::BTreeMap;
use std::hash::{Hash, Hasher};
use std::io::{BufRead, BufReader, Write};
use std::process::{Command, Stdio};
use std::sync::mpsc;
use std::time::{Duration, Instant};

use proptest::test_runner::{Config, RngSeed, TestCaseError, TestError, TestRunner};

use crate::runner::{Ctx, Failure, OpenSet, Part, Tier, Verdict};

fn hash_str(s: &str) -> u64 {
    let mut h = std::collections::hash_map::DefaultHasher::new();
    s.hash(&mut h);
    h.finish()
}

pub fn limit_address_space(bytes: u64) {
    unsafe {
        let lim = libc::rlimit {
            rlim_cur: bytes,
            rlim_max: bytes,
        };
        libc::setrlimit(libc::RLIMIT_AS, &lim);
        // no core files
        let zero = libc::rlimit {
            rlim_cur: 0,
            rlim_max: 0,
        };
        libc::setrlimit(libc::RLIMIT_CORE, &zero);
    }
}

fn eval_guarded<P: Part>(case: &P::Case) -> Verdict {
    match crate::runner::guarded(|| P::check(case)) {
        Ok(v) => v,
        Err((sig, raw)) => Verdict::fail(sig, format!("panicked: {raw}")),
    }
}

/// args: mode ("loop" | "one"), then for loop: tier seed shard cases skip open-signatures-json
pub fn worker_main<P: Part>(args: &[String]) {
    limit_address_space(6 << 30);
    let out = std::io::stdout();
    let mode = args.first().map(|s| s.as_str()).unwrap_or("");
    if mode == "one" {
        // single case from stdin: prints RESULT <json verdict>
        let mut text = String::new();
        std::io::stdin().read_line(&mut text).expect("stdin");
        let case: P::Case = serde_json::from_str(text.trim()).expect("case json");
        let v = eval_guarded::<P>(&case);
        let mut o = out.lock();
        let _ = writeln!(
            o,
            "RESULT {}",
            serde_json::json!({
                "fail": v.fail.as_ref().map(|f| (&f.signature, &f.detail)),
            })
        );
        let _ = o.flush();
        return;
    }
    let tier = if args[1] == "thorough" { Tier::Thorough } else { Tier::Quick };
    if mode == "enum" {
        // enumerated run: every case i of the list with i % nshards == shard, from `skip` on
        let shard: usize = args[3].parse().unwrap();
        let nshards: usize = args[4].parse().unwrap();
        let skip: u64 = args[5].parse().unwrap();
        let open = OpenSet(serde_json::from_str::<Vec<String>>(&args[6]).unwrap_or_default());
        let all = P::enumeration(tier);
        for (i, case) in all.iter().enumerate() {
            if i % nshards != shard || (i as u64) < skip {
                continue;
            }
            let js = serde_json::to_string(case).unwrap();
            {
                let mut o = out.lock();
                let _ = writeln!(o, "CASE {i} {js}");
                let _ = o.flush();
            }
            let v = eval_guarded::<P>(case);
            let (fail, known) = match v.fail {
                Some(f) if open.contains(&f.signature) => (None, open.find(&f.signature).map(|s| s.to_string())),
                other => (other, None),
            };
            let mut o = out.lock();
            let _ = writeln!(
                o,
                "DONE {}",
                serde_json::json!({"nontrivial": v.nontrivial, "labels": v.labels, "known": known, "shrinking": false})
            );
            if let Some(f) = fail {
                let _ = writeln!(
                    o,
                    "FAIL {}",
                    serde_json::json!({"case": serde_json::to_value(case).unwrap(), "signature": f.signature, "detail": f.detail})
                );
                let _ = o.flush();
                return;
            }
            let _ = o.flush();
        }
        let mut o = out.lock();
        let _ = writeln!(o, "END");
        let _ = o.flush();
        return;
    }
    let seed: u64 = args[2].parse().unwrap();
    let shard: u64 = args[3].parse().unwrap();
    let cases: u32 = args[4].parse().unwrap();
    let skip: u64 = args[5].parse().unwrap();
    let open = OpenSet(serde_json::from_str::<Vec<String>>(&args[6]).unwrap_or_default());
    let cfg = Config {
        cases,
        failure_persistence: None,
        rng_seed: RngSeed::Fixed(seed.wrapping_mul(1_000_003).wrapping_add(hash_str(P::NAME) % 1_000_003).wrapping_mul(64).wrapping_add(shard)),
        max_shrink_iters: 400,
        max_global_rejects: 1 << 20,
        ..Config::default()
    };
    let mut runner = TestRunner::new(cfg);
    let idx = std::cell::Cell::new(0u64);
    let failed = std::cell::Cell::new(false);
    let strat = P::strategy(tier);
    let res = runner.run(&strat, |case| {
        let i = idx.get();
        idx.set(i + 1);
        if i < skip && !failed.get() {
            return Ok(());
        }
        let js = serde_json::to_string(&case).unwrap();
        {
            let mut o = out.lock();
            let _ = writeln!(o, "CASE {} {}", if failed.get() { "S".to_string() } else { i.to_string() }, js);
            let _ = o.flush();
        }
        let v = eval_guarded::<P>(&case);
        let (fail, known) = match v.fail {
            Some(f) if open.contains(&f.signature) => (None, open.find(&f.signature).map(|s| s.to_string())),
            other => (other, None),
        };
        {
            let mut o = out.lock();
            let _ = writeln!(
                o,
                "DONE {}",
                serde_json::json!({"nontrivial": v.nontrivial, "labels": v.labels, "known": known, "shrinking": failed.get()})
            );
            let _ = o.flush();
        }
        match fail {
            Some(f) => {
                failed.set(true);
                Err(TestCaseError::fail(f.signature))
            }
            None => Ok(()),
        }
    });
    let mut o = out.lock();
    match res {
        Ok(()) => {
            let _ = writeln!(o, "END");
        }
        Err(TestError::Fail(_, case)) => {
            let v = eval_guarded::<P>(&case);
            let f = v.fail.unwrap_or(Failure {
                signature: "unknown".into(),
                detail: String::new(),
            });
            let _ = writeln!(
                o,
                "FAIL {}",
                serde_json::json!({"case": serde_json::to_value(&case).unwrap(), "signature": f.signature, "detail": f.detail})
            );
        }
        Err(TestError::Abort(why)) => {
            let _ = writeln!(o, "ABORT {why}");
        }
    }
    let _ = o.flush();
}

#[derive(Debug)]
enum Event {
    Case(String, String),
    Done(serde_json::Value),
    Fail(serde_json::Value),
    End,
    Abort(String),
}

struct WorkerResult {
    evaluations: u64,
    nontrivial: Vec<u64>,
    labels: BTreeMap<String, u64>,
    known: BTreeMap<String, u64>,
    samples: Vec<serde_json::Value>,
    /// violation reported by the worker itself (panic / oracle failure, already shrunk)
    fail: Option<(serde_json::Value, Failure)>,
    /// the worker died / hung while running this case: (idx, case json, signature, detail)
    died: Option<(Option<u64>, String, String, String)>,
}

fn classify_death(status: &std::process::ExitStatus, stderr: &str) -> (String, String) {
    use std::os::unix::process::ExitStatusExt;
    let tail: String = stderr.lines().rev().take(6).collect::<Vec<_>>().into_iter().rev().collect::<Vec<_>>().join(" | ");
    let sig = status.signal();
    let s = if stderr.contains("has overflowed its stack") || stderr.contains("stack overflow") {
        "crash:stack_overflow".to_string()
    } else if stderr.contains("memory allocation of") && stderr.contains("failed") {
        // a single request larger than the worker's whole address-space limit can only come
        // from a size the template chose; a smaller one failed because of what the case had
        // already allocated under the harness' own limit, which is inconclusive
        let n: u64 = stderr
            .split("memory allocation of ")
            .nth(1)
            .and_then(|r| r.split(' ').next())
            .and_then(|n| n.parse().ok())
            .unwrap_or(u64::MAX);
        if n >= 16 << 30 {
            "crash:alloc_failed".to_string()
        } else {
            "hang".to_string()
        }
    } else if stderr.contains("capacity overflow") {
        "crash:capacity_overflow".to_string()
    } else if let Some(sig) = sig {
        format!("crash:signal_{sig}")
    } else {
        format!("crash:exit_{}", status.code().unwrap_or(-1))
    };
    (s, format!("process ended with {status:?}; stderr tail: {tail}"))
}

fn run_worker(
    bin: &str,
    base_args: &[String],
    worker_args: &[String],
    watchdog: Duration,
    refine: &dyn Fn(&str, &str) -> String,
) -> WorkerResult {
    let mut child = Command::new(bin)
        .args(base_args)
        .args(worker_args)
        .stdin(Stdio::null())
        .stdout(Stdio::piped())
        .stderr(Stdio::piped())
        .spawn()
        .unwrap_or_else(|e| {
            eprintln!("cannot spawn worker {bin}: {e}");
            std::process::exit(2)
        });
    let stdout = child.stdout.take().unwrap();
    let stderr = child.stderr.take().unwrap();
    let (tx, rx) = mpsc::channel::<Event>();
    let reader = std::thread::spawn(move || {
        for line in BufReader::new(stdout).lines() {
            let Ok(line) = line else { break };
            let ev = if let Some(rest) = line.strip_prefix("CASE ") {
                let (i, js) = rest.split_once(' ').unwrap_or((rest, ""));
                Event::Case(i.to_string(), js.to_string())
            } else if let Some(rest) = line.strip_prefix("DONE ") {
                Event::Done(serde_json::from_str(rest).unwrap_or_default())
            } else if let Some(rest) = line.strip_prefix("FAIL ") {
                Event::Fail(serde_json::from_str(rest).unwrap_or_default())
            } else if line == "END" {
                Event::End
            } else if let Some(rest) = line.strip_prefix("ABORT ") {
                Event::Abort(rest.to_string())
            } else {
                continue;
            };
            if tx.send(ev).is_err() {
                break;
            }
        }
    });
    let err_reader = std::thread::spawn(move || {
        let mut buf = String::new();
        let mut r = BufReader::new(stderr);
        let mut line = String::new();
        while let Ok(n) = r.read_line(&mut line) {
            if n == 0 {
                break;
            }
            if buf.len() < 1 << 16 {
                buf.push_str(&line);
            }
            line.clear();
        }
        buf
    });
    let mut res = WorkerResult {
        evaluations: 0,
        nontrivial: vec![],
        labels: BTreeMap::new(),
        known: BTreeMap::new(),
        samples: vec![],
        fail: None,
        died: None,
    };
    let mut current: Option<(String, String)> = None;
    let mut finished = false;
    let mut hung = false;
    loop {
        match rx.recv_timeout(watchdog) {
            Ok(Event::Case(i, js)) => current = Some((i, js)),
            Ok(Event::Done(d)) => {
                let shrinking = d["shrinking"].as_bool().unwrap_or(false);
                if let Some((_, js)) = &current {
                    if !shrinking {
                        res.evaluations += 1;
                        if d["nontrivial"].as_bool().unwrap_or(false) {
                            res.nontrivial.push(hash_str(js));
                        }
                        if let Some(ls) = d["labels"].as_array() {
                            for l in ls {
                                *res.labels.entry(l.as_str().unwrap_or("").to_string()).or_default() += 1;
                            }
                        }
                        if res.samples.len() < 3 || (res.samples.len() < 6 && res.evaluations.is_power_of_two()) {
                            res.samples.push(serde_json::from_str(js).unwrap_or_default());
                        }
                    }
                    if let Some(k) = d["known"].as_str() {
                        *res.known.entry(k.to_string()).or_default() += 1;
                    }
                }
                current = None;
            }
            Ok(Event::Fail(f)) => {
                res.fail = Some((
                    f["case"].clone(),
                    Failure {
                        signature: f["signature"].as_str().unwrap_or("unknown").to_string(),
                        detail: f["detail"].as_str().unwrap_or("").to_string(),
                    },
                ));
                finished = true;
            }
            Ok(Event::End) => finished = true,
            Ok(Event::Abort(why)) => {
                eprintln!("worker aborted its proptest run: {why}");
                std::process::exit(2);
            }
            Err(mpsc::RecvTimeoutError::Timeout) => {
                hung = true;
                let _ = child.kill();
                break;
            }
            Err(mpsc::RecvTimeoutError::Disconnected) => break,
        }
        if finished {
            break;
        }
    }
    let status = child.wait().expect("wait");
    let _ = reader.join();
    let stderr_text = err_reader.join().unwrap_or_default();
    if !finished {
        let (idx, js) = match current {
            Some((i, js)) => (i.parse::<u64>().ok(), js),
            None => (None, String::new()),
        };
        let (sig, detail) = if hung {
            ("hang".to_string(), format!("no progress for {watchdog:?}"))
        } else {
            classify_death(&status, &stderr_text)
        };
        let sig = refine(&js, &sig);
        res.died = Some((idx, js, sig, detail));
    }
    res
}

/// Runs one case in a fresh child; returns its failure signature (if any).
pub fn run_one(bin: &str, property: &str, part: &str, case_json: &str, timeout: Duration) -> Option<(String, String)> {
    let mut child = Command::new(bin)
        .args([property, "quick", "--worker", part, "one"])
        .stdin(Stdio::piped())
        .stdout(Stdio::piped())
        .stderr(Stdio::piped())
        .spawn()
        .ok()?;
    {
        let mut stdin = child.stdin.take().unwrap();
        let _ = stdin.write_all(case_json.as_bytes());
        let _ = stdin.write_all(b"\n");
    }
    let start = Instant::now();
    loop {
        match child.try_wait() {
            Ok(Some(_)) => break,
            Ok(None) => {
                if start.elapsed() > timeout {
                    let _ = child.kill();
                    let _ = child.wait();
                    return Some(("hang".into(), format!("no result within {timeout:?}")));
                }
                std::thread::sleep(Duration::from_millis(2));
            }
            Err(_) => return None,
        }
    }
    let out = child.wait_with_output().ok()?;
    let text = String::from_utf8_lossy(&out.stdout);
    if let Some(line) = text.lines().find_map(|l| l.strip_prefix("RESULT ")) {
        let v: serde_json::Value = serde_json::from_str(line).ok()?;
        if let Some(arr) = v["fail"].as_array() {
            return Some((arr[0].as_str().unwrap_or("").to_string(), arr[1].as_str().unwrap_or("").to_string()));
        }
        return None;
    }
    Some(classify_death(&out.status, &String::from_utf8_lossy(&out.stderr)))
}

impl Ctx {
    /// Generated search in isolated worker processes of the binary named by `bin_var`.
    /// `label` prefixes the part name in the evidence (e.g. "debug", "release").
    pub fn run_part_isolated<P: Part>(&mut self, bin_var: &str, label: &str, cases: u32, watchdog_s: u64) {
        self.run_isolated_impl::<P>(bin_var, label, cases, watchdog_s, false)
    }

    /// Runs `P::enumeration(tier)` completely in isolated workers.
    pub fn run_enum_isolated<P: Part>(&mut self, bin_var: &str, label: &str, watchdog_s: u64) {
        self.run_isolated_impl::<P>(bin_var, label, u32::MAX, watchdog_s, true)
    }

    fn run_isolated_impl<P: Part>(&mut self, bin_var: &str, label: &str, cases: u32, watchdog_s: u64, enumerate: bool) {
        let Ok(bin) = std::env::var(bin_var) else {
            self.extra.insert(format!("isolated_{label}"), format!("not run: {bin_var} is not set (use ./check)").into());
            return;
        };
        let part_name = format!("{label}:{}", P::NAME);
        let shards = self.threads.max(1).min(cases.max(1) as usize);
        let per = cases.div_ceil(shards as u32);
        let open = self.open_signatures();
        let open_json = serde_json::to_string(&open.0).unwrap();
        let property = self.property;
        let tier = self.tier;
        let seed = self.seed;
        let results: Vec<Vec<WorkerResult>> = std::thread::scope(|scope| {
            let hs: Vec<_> = (0..shards)
                .map(|shard| {
                    let bin = bin.clone();
                    let open_json = open_json.clone();
                    let open = open.clone();
                    scope.spawn(move || {
                        let mut out = vec![];
                        let mut skip = 0u64;
                        let mut respawns = 0;
                        loop {
                            let base = vec![property.to_string(), tier.name().to_string(), "--worker".to_string(), P::NAME.to_string()];
                            let wargs = if enumerate {
                                vec![
                                    "enum".to_string(),
                                    tier.name().to_string(),
                                    seed.to_string(),
                                    shard.to_string(),
                                    shards.to_string(),
                                    skip.to_string(),
                                    open_json.clone(),
                                ]
                            } else {
                                vec![
                                    "loop".to_string(),
                                    tier.name().to_string(),
                                    seed.to_string(),
                                    shard.to_string(),
                                    per.to_string(),
                                    skip.to_string(),
                                    open_json.clone(),
                                ]
                            };
                            let refine = |js: &str, sig: &str| -> String {
                                match serde_json::from_str::<P::Case>(js) {
                                    Ok(case) if sig.starts_with("crash:") => P::refine_crash(&case, sig),
                                    _ => sig.to_string(),
                                }
                            };
                            let r = run_worker(&bin, &base, &wargs, Duration::from_secs(watchdog_s), &refine);
                            let died = r.died.as_ref().map(|d| (d.0, d.2.clone()));
                            out.push(r);
                            match died {
                                // continue behind a death that is a listed finding or a hang
                                Some((Some(idx), sig)) if (open.contains(&sig) || sig == "hang") && respawns < 200 => {
                                    skip = idx + 1;
                                    respawns += 1;
                                }
                                _ => break,
                            }
                        }
                        out
                    })
                })
                .collect();
            hs.into_iter().map(|h| h.join().expect("worker thread")).collect()
        });
        let mut hangs = 0u64;
        let mut hang_samples: Vec<serde_json::Value> = vec![];
        for rs in results {
            for r in rs {
                self.add_counts(
                    &part_name,
                    r.evaluations,
                    r.nontrivial,
                    r.labels.iter().map(|(k, v)| (&*Box::leak(k.clone().into_boxed_str()), *v)),
                    r.samples,
                    if enumerate { Some(r.fail.is_none() && r.died.is_none()) } else { None },
                );
                for (k, v) in r.known {
                    self.note_known(&k, v);
                }
                if let Some((case, failure)) = r.fail {
                    self.push_violation(&part_name_for_replay::<P>(label), case, failure);
                }
                if let Some((_idx, js, sig, detail)) = r.died {
                    if sig == "hang" {
                        hangs += 1;
                        if hang_samples.len() < 5 {
                            hang_samples.push(serde_json::from_str::<serde_json::Value>(&js).unwrap_or_default());
                        }
                        continue;
                    }
                    if let Some(p) = open.find(&sig) {
                        self.note_known(p, 1);
                        continue;
                    }
                    if js.is_empty() {
                        eprintln!("worker of {part_name} died outside a case: {detail}");
                        std::process::exit(2);
                    }
                    // shrink in the parent by re-spawning single-case children
                    let shrunk = shrink_in_children::<P>(&bin, property, &js, &sig);
                    self.push_violation(
                        &part_name_for_replay::<P>(label),
                        serde_json::from_str(&shrunk).unwrap_or_default(),
                        Failure {
                            signature: sig,
                            detail,
                        },
                    );
                }
            }
        }
        if hangs > 0 {
            let prev = self.extra.get("watchdog_hits").and_then(|v| v.as_u64()).unwrap_or(0);
            self.extra.insert("watchdog_hits".into(), (prev + hangs).into());
            self.extra.insert(format!("watchdog_samples_{label}"), hang_samples.into());
        }
    }
}

fn part_name_for_replay<P: Part>(label: &str) -> String {
    format!("{label}:{}", P::NAME)
}

fn shrink_in_children<P: Part>(bin: &str, property: &str, case_json: &str, sig: &str) -> String {
    let mut best = case_json.to_string();
    let mut budget = 400;
    loop {
        let Ok(case) = serde_json::from_str::<P::Case>(&best) else { break };
        let mut improved = false;
        for cand in P::shrink_candidates(&case) {
            if budget == 0 {
                return best;
            }
            budget -= 1;
            let js = serde_json::to_string(&cand).unwrap();
            if js.len() >= best.len() {
                continue;
            }
            if let Some((s, _)) = run_one(bin, property, P::NAME, &js, Duration::from_secs(30)) {
                if refine_one::<P>(&js, &s) == sig {
                    best = js;
                    improved = true;
                    break;
                }
            }
        }
        if !improved {
            break;
        }
    }
    best
}

fn refine_one<P: Part>(js: &str, sig: &str) -> String {
    match serde_json::from_str::<P::Case>(js) {
        Ok(case) if sig.starts_with("crash:") => P::refine_crash(&case, sig),
        _ => sig.to_string(),
    }
}

pub fn bin_for_label(label: &str) -> Option<String> {
    let var = match label {
        "debug" => "MJV_DBG",
        "release" => "MJV_REL",
        "dev" => "MJV_DEV",
        "alt" => "MJV_ALT",
        _ => return None,
    };
    std::env::var(var).ok()
}

impl Ctx {
    /// Replays a case of an isolated part (`<label>:<part>`) in a fresh child process.
    pub fn replay_isolated<P: Part>(&mut self, rf: &crate::runner::ReplayFile) -> bool {
        let Some((label, part)) = rf.part.split_once(':') else {
            // a regression file names the bare part: replay it under every worker build
            if rf.part != P::NAME {
                return false;
            }
            let mut any = false;
            for label in ["debug", "release"] {
                let mut labelled = rf.clone();
                labelled.part = format!("{label}:{}", P::NAME);
                any |= self.replay_isolated::<P>(&labelled);
            }
            return any;
        };
        if part != P::NAME {
            return false;
        }
        let Some(bin) = bin_for_label(label) else {
            eprintln!("replay needs the {label} build (run through ./check)");
            std::process::exit(2);
        };
        let js = serde_json::to_string(&rf.case).unwrap();
        let res = run_one(&bin, self.property, P::NAME, &js, Duration::from_secs(120)).map(|(s, d)| (refine_one::<P>(&js, &s), d));
        self.add_counts(&rf.part, 1, [hash_str(&js), hash_str(&js).wrapping_add(1)], [], vec![rf.case.clone()], None);
        if let Some((sig, detail)) = res {
            if sig == "hang" {
                eprintln!("replay timed out (inconclusive)");
                std::process::exit(2);
            }
            if let Some(p) = self.open_signatures().find(&sig).map(|s| s.to_string()) {
                self.note_known(&p, 1);
            } else {
                self.push_violation(&rf.part, rf.case.clone(), Failure { signature: sig, detail });
            }
        }
        true
    }

    /// Runs the witnesses of listed findings whose part is `<label>:<P::NAME>` in children.
    pub fn run_finding_witnesses_isolated<P: Part>(&mut self, label: &str) {
        let Some(bin) = bin_for_label(label) else { return };
        let want_part = format!("{label}:{}", P::NAME);
        for f in self.findings_for_part(&want_part) {
            let Some(w) = f.witness.clone() else { continue };
            let js = serde_json::to_string(&w).unwrap();
            let res = run_one(&bin, self.property, P::NAME, &js, Duration::from_secs(120)).map(|(s, d)| (refine_one::<P>(&js, &s), d));
            self.add_counts(&want_part, 1, [], [("finding_witnesses", 1)], vec![], None);
            let matches = |sig: &str| OpenSet(vec![f.signature.clone()]).contains(sig);
            match (f.status.as_str(), res) {
                ("open", Some((sig, _))) if matches(&sig) => self.note_known(&f.signature, 1),
                ("open", None) => println!(
                    "NOTE: property={} finding {} no longer reproduces on its witness",
                    self.property, f.id
                ),
                (_, Some((sig, detail))) => {
                    if sig == "hang" {
                        continue;
                    }
                    if let Some(p) = self.open_signatures().find(&sig).map(|s| s.to_string()) {
                        self.note_known(&p, 1);
                    } else {
                        self.push_violation(&want_part, w, Failure { signature: sig, detail });
                    }
                }
                (_, None) => {}
            }
        }
    }

    /// Replays committed regression files of an isolated part in children.
    pub fn run_regressions_isolated<P: Part>(&mut self, label: &str) {
        let Some(bin) = bin_for_label(label) else { return };
        let dir = crate::runner::verif_root().join("replays").join(self.property);
        let mut files: Vec<std::path::PathBuf> = std::fs::read_dir(&dir)
            .map(|rd| rd.filter_map(|e| e.ok()).map(|e| e.path()).collect())
            .unwrap_or_default();
        files.retain(|p| {
            p.file_name()
                .and_then(|n| n.to_str())
                .map_or(false, |n| n.starts_with("reg-") && n.ends_with(".json"))
        });
        files.sort();
        let want_part = format!("{label}:{}", P::NAME);
        for f in files {
            let Ok(text) = std::fs::read_to_string(&f) else { continue };
            let Ok(rf) = serde_json::from_str::<crate::runner::ReplayFile>(&text) else { continue };
            // regression files name the bare part; they are replayed under every label asked for
            if rf.part != P::NAME && rf.part != want_part {
                continue;
            }
            let js = serde_json::to_string(&rf.case).unwrap();
            let res = run_one(&bin, self.property, P::NAME, &js, Duration::from_secs(120)).map(|(s, d)| (refine_one::<P>(&js, &s), d));
            self.add_counts(&want_part, 1, [hash_str(&js)], [("regression_replays", 1)], vec![], None);
            if let Some((sig, detail)) = res {
                if sig == "hang" {
                    continue;
                }
                if let Some(p) = self.open_signatures().find(&sig).map(|s| s.to_string()) {
                    self.note_known(&p, 1);
                } else {
                    self.push_violation(&want_part, rf.case.clone(), Failure { signature: sig, detail });
                }
            }
        }
    }
}
