//! C17 — the path loader never reads outside its base directory.
use std::path::{Component, Path, PathBuf};
use std::sync::OnceLock;

use minijinja::{path_loader, Environment, Value};
use proptest::prelude::*;
use serde::{Deserialize, Serialize};

use crate::runner::{verif_root, Ctx, Part, Tier, Verdict};

/// the quantifier's segment alphabet (14 entries)
pub const SEGMENTS: [&str; 14] = [
    "",
    ".",
    "..",
    "...",
    "a",
    ".a",
    "a.",
    "a..b",
    "a\\b",
    "..\\a",
    "\0",
    "%2e%2e",
    "\u{ff0e}\u{ff0e}", // fullwidth dots
    LONG,
];

const LONG: &str = "LLLLLLLLLLLLLLLLLLLLLLLLLLLLLLLLLLLLLLLLLLLLLLLLLLLLLLLLLLLLLLLLLLLLLLLLLLLLLLLLLLLLLLLLLLLLLLLLLLLLLLLLLLLLLLLLLLLLLLLLLLLLLLLLLLLLLLLLLLLLLLLLLLLLLLLLLLLLLLLLLLLLLLLLLLLLLLLLLLLLLLLLLLLLLLLLLLLLLLLL";
/// longer than NAME_MAX: cannot exist, the loader has to report it as missing/unreadable
const TOO_LONG: &str = "XXXXXXXXXXXXXXXXXXXXXXXXXXXXXXXXXXXXXXXXXXXXXXXXXXXXXXXXXXXXXXXXXXXXXXXXXXXXXXXXXXXXXXXXXXXXXXXXXXXXXXXXXXXXXXXXXXXXXXXXXXXXXXXXXXXXXXXXXXXXXXXXXXXXXXXXXXXXXXXXXXXXXXXXXXXXXXXXXXXXXXXXXXXXXXXXXXXXXXXXXXXXXXXXXXXXXXXXXXXXXXXXXXXXXXXXXXXXXXXXXXXXXXXXXXXXXXXXXXXXXXXXXXXXXXXXXXXXXXXXXXXXXXXXXXXXXXXXXXXX";

/// directories of the tree (at every level below the base, down to depth 3)
const DIRS: [&str; 3] = ["a", "a..b", ".hid"];
/// files that exist in every directory of the tree
const FILES: [&str; 7] = ["a.", "%2e%2e", "\u{ff0e}\u{ff0e}", LONG, ".a", "a\\b", "..\\a"];

struct Tree {
    root: PathBuf,
    base: PathBuf,
}

static TREE: OnceLock<Tree> = OnceLock::new();

fn populate(dir: &Path, rel: &str, depth: usize, tag: &str) {
    std::fs::create_dir_all(dir).expect("mkdir");
    for f in FILES {
        let relp = if rel.is_empty() { f.to_string() } else { format!("{rel}/{f}") };
        std::fs::write(dir.join(f), format!("{tag}:{relp}")).expect("write");
    }
    if depth > 0 {
        for d in DIRS {
            let relp = if rel.is_empty() { d.to_string() } else { format!("{rel}/{d}") };
            populate(&dir.join(d), &relp, depth - 1, tag);
        }
    }
}

fn tree() -> &'static Tree {
    TREE.get_or_init(|| {
        let root = verif_root()
            .join("out")
            .join(format!("c17-tree-{}", std::process::id()));
        let _ = std::fs::remove_dir_all(&root);
        let base = root.join("base");
        populate(&base, "", 3, "INSIDE");
        // canaries outside the base: siblings, the parent, and same-named trees next to it
        populate(&root, "", 1, "OUTSIDE");
        populate(&root.join("base2"), "", 1, "OUTSIDE");
        std::fs::write(root.join("canary"), "OUTSIDE:canary").unwrap();
        std::fs::write(root.join("sibling"), "OUTSIDE:sibling").unwrap();
        // files next to the base whose names extend the base directory's name
        for suffix in [".j2", ".jinja", ".html", ".txt", ".bak", "~"] {
            std::fs::write(root.join(format!("base{suffix}")), format!("OUTSIDE:base{suffix}")).unwrap();
        }
        Tree { root, base }
    })
}

pub fn cleanup() {
    if let Some(t) = TREE.get() {
        let _ = std::fs::remove_dir_all(&t.root);
    }
}

#[derive(Clone, Debug, Serialize, Deserialize)]
pub struct NameCase {
    pub name: String,
}

pub struct Names;

fn classify(content: &str, name: &str) -> Option<(&'static str, String)> {
    let segs: Vec<&str> = name.split('/').filter(|s| !s.is_empty()).collect();
    let clean = segs.iter().all(|s| !s.starts_with('.'));
    let want = format!("INSIDE:{}", segs.join("/"));
    if content.starts_with("OUTSIDE:") {
        Some(("escaped_base", format!("name {name:?} returned {content:?}, a file outside the base directory")))
    } else if (content == want && clean) || (name.starts_with('/') && content.starts_with("INSIDE:") && absolute_spelling(name)) {
        // an absolute spelling of a file inside the base may be refused or served: either way
        // nothing outside the base was returned
        None
    } else if content.starts_with("INSIDE:") && !clean {
        Some(("hidden_or_dot_segment_loaded", format!("name {name:?} (with a dot-initial segment) returned {content:?}")))
    } else {
        Some(("wrong_file", format!("name {name:?} returned {content:?}, expected {want:?} or an error")))
    }
}

/// true for names built from the scratch tree's own absolute path
fn absolute_spelling(name: &str) -> bool {
    TREE.get().is_some_and(|t| name.contains(t.root.to_string_lossy().as_ref()))
}

/// `<<BASE>>` / `<<ROOT>>` stand for the absolute path of the scratch base directory and of its
/// parent (they differ per process, so cases store the placeholder)
fn substitute(name: &str) -> String {
    let t = tree();
    name.replace("<<BASE>>", &t.base.to_string_lossy())
        .replace("<<ROOT>>", &t.root.to_string_lossy())
}

const ABS_PREFIX: [&str; 6] = ["<<BASE>>", "<<ROOT>>", "/<<BASE>>", "<<ROOT>>/base", "<<ROOT>>/bas", "<<ROOT>>/base/../base"];
const ABS_SUFFIX: [&str; 14] = [
    "", "/", "2", "2/a.", "2/a/a.", "/a.", "/a/a.", "/../canary", "/../base2/a.", "/canary", "/sibling", "2/%2e%2e", "/a..b/a.", "2/a..b/a.",
];

impl Names {
    fn check_name(name: &str) -> Verdict {
        let t = tree();
        let segs: Vec<&str> = name.split('/').collect();
        let nontrivial = segs.len() > 2
            || segs
                .iter()
                .any(|s| s.is_empty() || s.starts_with('.') || s.contains('\\') || s.contains('\0'));
        let mut v = Verdict::pass(nontrivial);
        if segs.iter().any(|s| *s == "..") {
            v.labels.push("has_dotdot");
        }
        if name.contains('\0') {
            v.labels.push("has_nul");
        }
        if name.contains('\\') {
            v.labels.push("has_backslash");
        }

        // the pure function
        match minijinja::verif::safe_join(&t.base, name) {
            None => v.labels.push("safe_join_rejects"),
            Some(p) => {
                v.labels.push("safe_join_accepts");
                match p.strip_prefix(&t.base) {
                    Err(_) => v.set_fail("safe_join_outside", format!("safe_join(base, {name:?}) = {p:?} is not below the base")),
                    Ok(rest) => {
                        let comps: Vec<Component> = rest.components().collect();
                        let want: Vec<&str> = name.split('/').filter(|s| !s.is_empty()).collect();
                        let got: Vec<String> = comps
                            .iter()
                            .map(|c| match c {
                                Component::Normal(s) => s.to_string_lossy().to_string(),
                                other => format!("<{other:?}>"),
                            })
                            .collect();
                        if comps.iter().any(|c| !matches!(c, Component::Normal(_)))
                            || got.iter().map(|s| s.as_str()).collect::<Vec<_>>() != want
                            || want.iter().any(|s| s.starts_with('.') || s.contains('\\'))
                        {
                            v.set_fail(
                                "safe_join_components",
                                format!("safe_join(base, {name:?}) = {p:?}: components {got:?}, segments {want:?}"),
                            );
                        }
                    }
                }
            }
        }

        // the pure function under other spellings of a base directory: empty (= the current
        // directory), relative, with a trailing separator, the file-system root. The result must
        // lie below the base as written - in particular stay relative for a relative base.
        for base in ["", ".", "rel", "rel/", "./rel/sub", "/", "/abs/base/", "a b", "\u{e9}t\u{e9}"] {
            let base = std::path::Path::new(base);
            if let Some(p) = minijinja::verif::safe_join(base, name) {
                let want: Vec<&str> = name.split('/').filter(|s| !s.is_empty()).collect();
                let ok = match p.strip_prefix(base) {
                    Err(_) => false,
                    Ok(rest) => {
                        rest.components().all(|c| matches!(c, Component::Normal(_)))
                            && rest.components().map(|c| c.as_os_str().to_string_lossy().to_string()).collect::<Vec<_>>() == want
                    }
                };
                if !ok || p.has_root() != base.has_root() {
                    v.set_fail("safe_join_outside", format!("safe_join({base:?}, {name:?}) = {p:?} is not the base followed by the segments {want:?}"));
                }
            }
        }

        // through the environment, by the host and from inside templates
        let mut env = Environment::new();
        env.set_loader(path_loader(&t.base));
        env.add_template("inc.txt", "{% include n %}").unwrap();
        env.add_template("ext.txt", "{% extends n %}").unwrap();
        env.add_template("imp.txt", "{% import n as m %}ok").unwrap();
        env.add_template("inclist.txt", "{% include [n, n] %}").unwrap();
        let ctx = Value::from_pairs([("n", Value::from(name))]);

        let direct = env.get_template(name).and_then(|t| t.render(()));
        let mut outcomes: Vec<(&str, Result<String, minijinja::Error>)> = vec![("get_template", direct)];
        for via in ["inc.txt", "ext.txt", "inclist.txt"] {
            // fresh environment so that the memoised template of the direct access is not reused
            let mut env2 = Environment::new();
            env2.set_loader(path_loader(&t.base));
            env2.add_template("inc.txt", "{% include n %}").unwrap();
            env2.add_template("ext.txt", "{% extends n %}").unwrap();
            env2.add_template("inclist.txt", "{% include [n, n] %}").unwrap();
            let r = env2.get_template(via).and_then(|t| t.render(ctx.clone()));
            outcomes.push((via, r));
        }
        let imp = env.get_template("imp.txt").and_then(|t| t.render(ctx.clone()));
        let direct_ok = outcomes[0].1.is_ok();
        for (via, r) in &outcomes {
            match r {
                Ok(content) => {
                    v.labels.push("loaded");
                    if let Some((sig, detail)) = classify(content, name) {
                        v.set_fail(sig, format!("via {via}: {detail}"));
                    }
                }
                Err(e) => {
                    // missing or unreadable: both are allowed outcomes; anything else is not
                    let mut kinds = vec![e.kind()];
                    let mut src: Option<&dyn std::error::Error> = std::error::Error::source(e);
                    while let Some(s) = src {
                        if let Some(me) = s.downcast_ref::<minijinja::Error>() {
                            kinds.push(me.kind());
                        }
                        src = s.source();
                    }
                    let ok = kinds.iter().any(|k| {
                        matches!(
                            k,
                            minijinja::ErrorKind::TemplateNotFound | minijinja::ErrorKind::InvalidOperation
                        )
                    });
                    if !ok {
                        v.set_fail("unexpected_error_kind", format!("via {via}: name {name:?} gave {e:?}"));
                    }
                }
            }
            if r.is_ok() != direct_ok {
                v.set_fail(
                    "access_paths_disagree",
                    format!("name {name:?}: get_template ok={direct_ok} but via {via} ok={}", r.is_ok()),
                );
            }
        }
        if imp.is_ok() != direct_ok {
            v.set_fail(
                "access_paths_disagree",
                format!("name {name:?}: get_template ok={direct_ok} but import ok={}", imp.is_ok()),
            );
        }
        v
    }
}

fn noise_name() -> BoxedStrategy<String> {
    let alphabet: Vec<&'static str> = vec![
        "/", "/", "/", ".", ".", "..", "\\", "a", "b", "\0", "%", "2", "e", " ", "\u{ff0e}", "\u{2025}",
        "\u{2024}", "~", ":", "a.", TOO_LONG, LONG, "base", "base2", "canary", "sibling", "%2f", "%5c", "\u{2215}", "\u{ff0f}", "\n", "\r",
    ];
    prop::collection::vec(0..alphabet.len(), 0..12)
        .prop_map(move |idx| idx.into_iter().map(|i| alphabet[i]).collect::<String>())
        .boxed()
}

impl Part for Names {
    type Case = NameCase;
    const NAME: &'static str = "template_names";

    fn strategy(_tier: Tier) -> BoxedStrategy<NameCase> {
        prop_oneof![
            // segment joins with slash decorations
            3 => (prop::collection::vec(0..SEGMENTS.len(), 1..=6), 0u8..8).prop_map(|(idx, deco)| {
                let mut name = idx.iter().map(|&i| SEGMENTS[i]).collect::<Vec<_>>().join("/");
                if deco & 1 != 0 { name = format!("/{name}"); }
                if deco & 2 != 0 { name = format!("{name}/"); }
                if deco & 4 != 0 { name = name.replacen('/', "//", 1); }
                NameCase { name }
            }),
            2 => noise_name().prop_map(|name| NameCase { name }),
            // absolute spellings built from the scratch tree's own path: the base itself, its
            // parent, and siblings whose name extends the base's name
            1 => (0..ABS_PREFIX.len(), 0..ABS_SUFFIX.len(), prop::collection::vec(0..SEGMENTS.len(), 0..=2)).prop_map(|(p, s, idx)| {
                let mut name = format!("{}{}", ABS_PREFIX[p], ABS_SUFFIX[s]);
                for i in idx {
                    name.push('/');
                    name.push_str(SEGMENTS[i]);
                }
                NameCase { name }
            }),
        ]
        .boxed()
    }

    fn check(c: &NameCase) -> Verdict {
        let mut v = Self::check_name(&substitute(&c.name));
        if c.name.contains("<<") {
            v.labels.push("absolute_spelling_of_tree_path");
        }
        v
    }
}

/// all joins of 1..=max segments of the alphabet
pub fn enumerate(max: usize) -> Vec<NameCase> {
    let mut out = vec![];
    let mut cur: Vec<usize> = vec![];
    fn rec(cur: &mut Vec<usize>, max: usize, out: &mut Vec<NameCase>) {
        if !cur.is_empty() {
            out.push(NameCase {
                name: cur.iter().map(|&i| SEGMENTS[i]).collect::<Vec<_>>().join("/"),
            });
        }
        if cur.len() == max {
            return;
        }
        for i in 0..SEGMENTS.len() {
            cur.push(i);
            rec(cur, max, out);
            cur.pop();
        }
    }
    rec(&mut cur, max, &mut out);
    for p in ABS_PREFIX {
        for s in ABS_SUFFIX {
            out.push(NameCase { name: format!("{p}{s}") });
        }
    }
    out
}

crate::declare_parts!(Names);

pub fn run(ctx: &mut Ctx) {
    ctx.rule = "all joins by '/' of 1..=N segments from the 14-entry alphabet {'', '.', '..', '...', 'a', '.a', 'a.', 'a..b', 'a\\\\b', '..\\\\a', NUL, '%2e%2e', fullwidth dots, 200-char} (N = 5, enumerated completely in both tiers) plus generated names with leading/trailing/doubled slashes and character noise (slash look-alikes, percent escapes, newlines, canary names) and absolute spellings built from the scratch tree's own path (base, parent, siblings whose name extends the base's name; 6 prefixes x 14 suffixes enumerated); each name is passed to safe_join (hook; with the scratch base and with 9 other spellings of a base: empty, relative, trailing separator, root), Environment::get_template, and to include / include-list / extends / import inside templates against a real scratch tree with OUTSIDE canaries next to and above the base, among them files named like the base directory plus a suffix (.j2, .jinja, .html, .txt, .bak, ~). Non-trivial: a dot-initial, backslash, NUL or empty segment, or more than two segments. Distinct by name.".into();
    ctx.assumptions = vec![
        "no symbolic links inside the base (the property exempts them)".into(),
        "Linux path semantics (backslash is an ordinary file-name character)".into(),
    ];
    let _ = tree();
    preamble(ctx);
    let t = ctx.tier;
    ctx.run_enumerated::<Names>(enumerate(5), true);
    ctx.run_part::<Names>(t.pick(50_000, 20_000_000));
    cleanup();
}
