//! C09 — subscripts and slices follow Python's rules for every bound and step.
use std::sync::Arc;

use minijinja::value::{Tuple, ValueKind};
use minijinja::{Environment, Value};
use proptest::prelude::*;
use serde::{Deserialize, Serialize};

use crate::model::pyslice;
use crate::runner::{Ctx, Part, ReplayFile, Tier, Verdict};

#[derive(Clone, Copy, Debug, Serialize, Deserialize, PartialEq, Eq, Hash)]
pub enum Kind {
    AsciiStr,
    MultiStr,
    ArcStr,
    List,
    Tuple,
    Bytes,
    SizedIter,
    UnsizedIter,
}

pub const KINDS: [Kind; 8] = [
    Kind::AsciiStr,
    Kind::MultiStr,
    Kind::ArcStr,
    Kind::List,
    Kind::Tuple,
    Kind::Bytes,
    Kind::SizedIter,
    Kind::UnsizedIter,
];

const ASCII: [char; 6] = ['a', 'b', 'c', 'd', 'e', 'f'];
const MULTI: [char; 6] = ['a', 'ß', '€', '😀', 'é', 'z'];

/// the value under test plus its items in the harness' own terms
enum Items {
    Chars(Vec<char>),
    Bytes(Vec<u8>),
    Ints(Vec<i64>),
}

fn make(kind: Kind, len: usize) -> (Value, Items) {
    match kind {
        Kind::AsciiStr => {
            let cs: Vec<char> = ASCII[..len].to_vec();
            (Value::from(cs.iter().collect::<String>()), Items::Chars(cs))
        }
        Kind::MultiStr => {
            let cs: Vec<char> = MULTI[..len].to_vec();
            (Value::from(cs.iter().collect::<String>()), Items::Chars(cs))
        }
        Kind::ArcStr => {
            let cs: Vec<char> = MULTI[..len].to_vec();
            let s: Arc<str> = Arc::from(cs.iter().collect::<String>());
            (Value::from(s), Items::Chars(cs))
        }
        Kind::Bytes => {
            let b: Vec<u8> = (0..len as u8).map(|i| b'a' + i).collect();
            (Value::from_bytes(b.clone()), Items::Bytes(b))
        }
        Kind::List => {
            let v: Vec<i64> = (0..len as i64).map(|i| 10 + i).collect();
            (
                Value::from(v.iter().map(|x| Value::from(*x)).collect::<Vec<_>>()),
                Items::Ints(v),
            )
        }
        Kind::Tuple => {
            let v: Vec<i64> = (0..len as i64).map(|i| 10 + i).collect();
            (
                Value::from(Tuple::new(v.iter().map(|x| Value::from(*x)).collect())),
                Items::Ints(v),
            )
        }
        Kind::SizedIter => {
            let v: Vec<i64> = (0..len as i64).map(|i| 10 + i).collect();
            let vv = v.clone();
            (
                Value::make_iterable(move || vv.clone().into_iter()),
                Items::Ints(v),
            )
        }
        Kind::UnsizedIter => {
            let v: Vec<i64> = (0..len as i64).map(|i| 10 + i).collect();
            let vv = v.clone();
            (
                Value::make_iterable(move || vv.clone().into_iter().filter(|_| true)),
                Items::Ints(v),
            )
        }
    }
}

fn beyond_value(code: i8) -> Option<i128> {
    Some(match code {
        1 => 1i128 << 63,
        2 => 1i128 << 64,
        3 => i128::MAX,
        -1 => -(1i128 << 63) - 1,
        -2 => -(1i128 << 64),
        -3 => i128::MIN + 1,
        _ => return None,
    })
}

fn eff(b: Option<i64>, code: i8) -> Option<i128> {
    b.map(|v| beyond_value(code).unwrap_or(v as i128))
}

/// the same integer in another internal width: 1 = i128, 2 = u128 / u64 where it is not negative,
/// 3 = what the `int` filter makes of its decimal string (0 = the narrowest, as `big_value`)
fn repr_value(v: i128, repr: u8) -> Value {
    match repr % 4 {
        1 => Value::from(v),
        2 if v >= 0 => {
            if v % 2 == 0 {
                Value::from(v as u128)
            } else {
                u64::try_from(v).map(Value::from).unwrap_or_else(|_| Value::from(v as u128))
            }
        }
        3 => {
            let env = Environment::new();
            env.compile_expression("s|int").and_then(|e| e.eval(Value::from_pairs([("s", Value::from(v.to_string()))]))).unwrap_or_else(|_| big_value(v))
        }
        _ => big_value(v),
    }
}

fn big_value(v: i128) -> Value {
    if let Ok(x) = i64::try_from(v) {
        Value::from(x)
    } else if let Ok(x) = u64::try_from(v) {
        Value::from(x)
    } else {
        Value::from(v)
    }
}

fn bound_src(b: Option<i128>, name: &str, lit: bool) -> String {
    match (b, lit) {
        (None, _) => String::new(),
        (Some(v), true) => {
            if v < 0 {
                // -9223372036854775808 is written as a negated literal, like a template author would
                format!("-{}", v.unsigned_abs())
            } else {
                v.to_string()
            }
        }
        (Some(_), false) => name.to_string(),
    }
}

fn eval(src: &str, pairs: Vec<(&'static str, Value)>) -> Result<Value, String> {
    let env = Environment::new();
    let expr = env.compile_expression(src).map_err(|e| format!("{e}"))?;
    expr.eval(Value::from_pairs(pairs)).map_err(|e| format!("{e}"))
}

fn describe(v: &Value) -> String {
    format!("{v:?} (kind {:?}, tuple={})", v.kind(), v.is_tuple())
}

/// Second-level operations on a slice result `r` whose items are `idx` of the original:
/// `r|length`, `r[-1]`, `r[0]` and four slices of it, judged by the same model.
fn follow_ups(r: &Value, items: &Items, idx: &[usize], tuple: bool) -> Option<String> {
    let n = idx.len();
    let run = |src: &str| eval(src, vec![("r", r.clone())]);
    match run("r|length") {
        Ok(l) if l.as_usize() == Some(n) => {}
        // a lazy result over an iterable of unknown length has no length of its own
        Err(_) if r.kind() == ValueKind::Iterable && r.len().is_none() => {}
        other => return Some(format!("`r|length` gives {other:?} for a result of {n} items")),
    }
    for (src, start, stop, step) in [
        ("r[-2:]", Some(-2i128), None, None),
        ("r[:-1]", None, Some(-1i128), None),
        ("r[::-1]", None, None, Some(-1i128)),
        ("r[-3:-1:2]", Some(-3), Some(-1), Some(2)),
        ("r[1:]", Some(1), None, None),
    ] {
        let sel = pyslice::slice_indices(n, start, stop, step).unwrap();
        let g = match run(src) {
            Ok(g) => g,
            Err(e) => return Some(format!("`{src}` of the result fails: {e}")),
        };
        let ok = match items {
            Items::Chars(cs) => {
                let w: String = sel.iter().map(|&j| cs[idx[j]]).collect();
                g.as_str() == Some(w.as_str())
            }
            Items::Bytes(bs) => {
                let w: Vec<u8> = sel.iter().map(|&j| bs[idx[j]]).collect();
                g.as_bytes() == Some(&w[..])
            }
            Items::Ints(xs) => {
                let w: Vec<Value> = sel.iter().map(|&j| Value::from(xs[idx[j]])).collect();
                let got: Option<Vec<Value>> = g.try_iter().ok().map(|i| i.collect());
                got.as_ref() == Some(&w) && g.is_tuple() == tuple
            }
        };
        if !ok {
            return Some(format!("`{src}` of the result (items at {idx:?}) gives {}, python selects positions {sel:?} of it", describe(&g)));
        }
    }
    for (src, pos) in [("r[-1]", n.checked_sub(1)), ("r[0]", if n > 0 { Some(0) } else { None }), ("r[-2]", n.checked_sub(2))] {
        let g = match run(src) {
            Ok(g) => g,
            Err(e) => return Some(format!("`{src}` of the result fails: {e}")),
        };
        let ok = match (pos, items) {
            (None, _) => g.is_undefined(),
            (Some(j), Items::Chars(cs)) => g.as_str() == Some(cs[idx[j]].to_string().as_str()),
            (Some(_), Items::Bytes(_)) => true, // what a byte subscript yields is not part of the statement
            (Some(j), Items::Ints(xs)) => g == Value::from(xs[idx[j]]),
        };
        if !ok {
            return Some(format!("`{src}` of the result (items at {idx:?}) gives {}", describe(&g)));
        }
    }
    None
}

// ------------------------------------------------------------------ slices

#[derive(Clone, Debug, Serialize, Deserialize)]
pub struct SliceCase {
    pub kind: Kind,
    pub len: u8,
    pub start: Option<i64>,
    pub stop: Option<i64>,
    pub step: Option<i64>,
    pub lit: bool,
    /// per bound (start, stop, step): 0 = use the i64 as is; +1/+2/+3 = 2^63, 2^64, 2^127;
    /// -1/-2/-3 = -2^63-1, -2^64, -2^127 (integers a template can write that exceed i64)
    #[serde(default)]
    pub beyond: [i8; 3],
    /// internal width of the bounds when they are supplied as variables (see `repr_value`)
    #[serde(default)]
    pub repr: u8,
}

pub struct Slices;

fn class_of(b: Option<i64>, len: i64) -> &'static str {
    match b {
        None => "omitted",
        Some(v) if v < -len => "below_-len",
        Some(v) if v < 0 => "negative",
        Some(v) if v > len => "above_len",
        Some(_) => "in_range",
    }
}

impl Slices {
    fn check_impl(c: &SliceCase) -> Verdict {
        let len = c.len as usize;
        let (val, items) = make(c.kind, len);
        let (start, stop, step) = (
            eff(c.start, c.beyond[0]),
            eff(c.stop, c.beyond[1]),
            eff(c.step, c.beyond[2]),
        );
        let want = pyslice::slice_indices(len, start, stop, step);
        let nontrivial = step.map_or(false, |s| s < 0)
            || start.map_or(false, |s| s < 0 || s > len as i128)
            || stop.map_or(false, |s| s < 0 || s > len as i128)
            || len == 0;
        let mut v = Verdict::pass(nontrivial);
        if step.map_or(false, |s| s < 0) {
            v.labels.push("neg_step");
        }
        if [start, stop, step].iter().any(|b| b.map_or(false, |x| i64::try_from(x).is_err())) {
            v.labels.push("beyond_i64");
        }
        if len == 0 {
            v.labels.push("empty");
        }
        let extreme = |b: Option<i128>| b.map_or(false, |x| x.unsigned_abs() > 1 << 62);
        if extreme(start) || extreme(stop) || extreme(step) {
            v.labels.push("i64_boundary");
        }
        let _ = class_of;
        let src = if c.step.is_some() {
            format!(
                "v[{}:{}:{}]",
                bound_src(start, "a", c.lit),
                bound_src(stop, "b", c.lit),
                bound_src(step, "c", c.lit)
            )
        } else {
            format!(
                "v[{}:{}]",
                bound_src(start, "a", c.lit),
                bound_src(stop, "b", c.lit)
            )
        };
        let mut pairs = vec![("v", val)];
        if !c.lit {
            if let Some(x) = start {
                pairs.push(("a", repr_value(x, c.repr)));
            }
            if let Some(x) = stop {
                pairs.push(("b", repr_value(x, c.repr / 4)));
            }
            if let Some(x) = step {
                pairs.push(("c", repr_value(x, c.repr / 16)));
            }
        }
        let dir = if step.map_or(true, |s| s > 0) { "fwd" } else { "bwd" };
        let got = eval(&src, pairs);
        match (want, got) {
            (None, Err(_)) => {}
            (None, Ok(g)) => v.set_fail(
                "slice_zero_step_ok",
                format!("{:?} len {len} `{src}`: zero step must be an error, got {}", c.kind, describe(&g)),
            ),
            (Some(idx), Err(e)) => v.set_fail(
                format!("slice_err:{dir}"),
                format!("len {len} `{src}` ({c:?}): python selects {idx:?} but got error {e}"),
            ),
            (Some(idx), Ok(g)) => {
                let ok = match &items {
                    Items::Chars(cs) => {
                        let w: String = idx.iter().map(|&i| cs[i]).collect();
                        g.kind() == ValueKind::String && g.as_str() == Some(w.as_str())
                    }
                    Items::Bytes(bs) => {
                        let w: Vec<u8> = idx.iter().map(|&i| bs[i]).collect();
                        g.kind() == ValueKind::Bytes && g.as_bytes() == Some(&w[..])
                    }
                    Items::Ints(xs) => {
                        let w: Vec<Value> = idx.iter().map(|&i| Value::from(xs[i])).collect();
                        let kind_ok = if c.kind == Kind::Tuple {
                            g.is_tuple()
                        } else {
                            !g.is_tuple() && matches!(g.kind(), ValueKind::Seq | ValueKind::Iterable)
                        };
                        let got_items: Option<Vec<Value>> = g.try_iter().ok().map(|i| i.collect());
                        // iterate twice: a lazy result must be stable
                        let again: Option<Vec<Value>> = g.try_iter().ok().map(|i| i.collect());
                        kind_ok && got_items.as_ref() == Some(&w) && again == got_items
                    }
                };
                let family = match c.kind {
                    Kind::UnsizedIter => "unsized",
                    _ => "sized",
                };
                if ok {
                    // the result is a sequence in its own right: its length, end-relative
                    // subscripts and a second slice of it follow the same rules
                    if let Some(why) = follow_ups(&g, &items, &idx, c.kind == Kind::Tuple) {
                        v.labels.push("result_resliced");
                        v.set_fail(
                            format!("slice_of_slice_wrong:{family}"),
                            format!("{:?} len {len} `{src}` ({c:?}) selects the right items, but then {why}", c.kind),
                        );
                    }
                }
                if !ok {
                    v.set_fail(
                        format!("slice_wrong:{dir}:{family}"),
                        format!(
                            "{:?} len {len} `{src}` ({c:?}): python selects indices {idx:?} but got {}",
                            c.kind,
                            describe(&g)
                        ),
                    );
                }
            }
        }
        v
    }
}

fn small_bound() -> BoxedStrategy<Option<i64>> {
    prop_oneof![
        2 => Just(None),
        8 => (-9i64..=9).prop_map(Some),
        2 => crate::runner::one_of(&[
            i64::MIN, i64::MIN + 1, i64::MAX, i64::MAX - 1, -(1i64 << 62), 1i64 << 62, 1 << 32, -(1 << 32)
        ]).prop_map(Some),
    ]
    .boxed()
}

fn small_step() -> BoxedStrategy<Option<i64>> {
    prop_oneof![
        2 => Just(None),
        8 => (-4i64..=4).prop_map(Some),
        2 => crate::runner::one_of(&[
            i64::MIN, i64::MIN + 1, i64::MAX, i64::MAX - 1, 1 << 32, -(1 << 32)
        ]).prop_map(Some),
    ]
    .boxed()
}

impl Part for Slices {
    type Case = SliceCase;
    const NAME: &'static str = "slices";

    fn strategy(_tier: Tier) -> BoxedStrategy<SliceCase> {
        (
            0..KINDS.len(),
            0u8..=6,
            small_bound(),
            small_bound(),
            small_step(),
            any::<bool>(),
            prop_oneof![
                4 => Just([0i8; 3]),
                1 => [-3i8..=3, -3i8..=3, -3i8..=3],
            ],
            0u8..64,
        )
            .prop_map(|(k, len, start, stop, step, lit, beyond, repr)| SliceCase {
                kind: KINDS[k],
                len,
                start,
                stop,
                step,
                lit,
                beyond,
                repr,
            })
            .boxed()
    }

    fn check(c: &SliceCase) -> Verdict {
        Self::check_impl(c)
    }
}

/// The complete box of the quantifier (small bounds) plus the boundary rows.
pub fn slice_box(stride: usize, offset: usize) -> Vec<SliceCase> {
    let mut bounds: Vec<Option<i64>> = vec![None];
    bounds.extend((-9..=9).map(Some));
    let extremes = [i64::MIN, i64::MIN + 1, i64::MAX - 1, i64::MAX];
    let mut steps: Vec<Option<i64>> = vec![None];
    steps.extend((-4..=4).map(Some));
    let mut out = vec![];
    let mut n = 0usize;
    for kind in KINDS {
        for len in 0u8..=6 {
            for &start in &bounds {
                for &stop in &bounds {
                    for &step in &steps {
                        n += 1;
                        if n % stride == offset {
                            out.push(SliceCase {
                                kind,
                                len,
                                start,
                                stop,
                                step,
                                lit: n % 2 == 0,
                                beyond: [0; 3],
                                repr: (n % 64) as u8,
                            });
                        }
                    }
                }
            }
            // integers beyond i64 in each position
            for code in [-3i8, -2, -1, 1, 2, 3] {
                for &x in &[None, Some(-2i64), Some(0), Some(2), Some(9)] {
                    for &st in &[None, Some(-2i64), Some(-1), Some(1), Some(3)] {
                        for lit in [false, true] {
                            out.push(SliceCase { kind, len, start: Some(0), stop: x, step: st, lit, beyond: [code, 0, 0], repr: 0 });
                            out.push(SliceCase { kind, len, start: x, stop: Some(0), step: st, lit, beyond: [0, code, 0], repr: 0 });
                            out.push(SliceCase { kind, len, start: x, stop: st, step: Some(0), lit, beyond: [0, 0, code], repr: 0 });
                        }
                    }
                }
            }
            // boundary rows: every extreme in each position against a reduced set of the others
            let few: [Option<i64>; 5] = [None, Some(-2), Some(0), Some(2), Some(9)];
            let few_steps: [Option<i64>; 5] = [None, Some(-2), Some(-1), Some(1), Some(3)];
            for &e in &extremes {
                for &x in &few {
                    for &s in &few_steps {
                        for lit in [false, true] {
                            out.push(SliceCase { kind, len, start: Some(e), stop: x, step: s, lit, beyond: [0; 3], repr: 0 });
                            out.push(SliceCase { kind, len, start: x, stop: Some(e), step: s, lit, beyond: [0; 3], repr: 0 });
                        }
                    }
                    for &y in &few {
                        out.push(SliceCase { kind, len, start: x, stop: y, step: Some(e), lit: false, beyond: [0; 3], repr: 21 });
                        out.push(SliceCase { kind, len, start: x, stop: y, step: Some(e), lit: true, beyond: [0; 3], repr: 0 });
                    }
                }
                for &e2 in &extremes {
                    out.push(SliceCase { kind, len, start: Some(e), stop: Some(e2), step: Some(-1), lit: false, beyond: [0; 3], repr: 21 });
                    out.push(SliceCase { kind, len, start: Some(e), stop: Some(e2), step: Some(e2), lit: false, beyond: [0; 3], repr: 21 });
                }
            }
        }
    }
    out
}

// ------------------------------------------------------------------ subscripts

#[derive(Clone, Debug, Serialize, Deserialize)]
pub struct IndexCase {
    pub kind: Kind,
    pub len: u8,
    pub idx: i64,
    pub lit: bool,
}

pub struct Subscripts;

impl Part for Subscripts {
    type Case = IndexCase;
    const NAME: &'static str = "subscripts";

    fn strategy(_tier: Tier) -> BoxedStrategy<IndexCase> {
        (
            0..KINDS.len(),
            0u8..=6,
            prop_oneof![
                8 => -9i64..=9,
                2 => crate::runner::one_of(&[i64::MIN, i64::MIN + 1, i64::MAX, i64::MAX - 1, 1 << 32, -(1 << 32)]),
            ],
            any::<bool>(),
        )
            .prop_map(|(k, len, idx, lit)| IndexCase {
                kind: KINDS[k],
                len,
                idx,
                lit,
            })
            .boxed()
    }

    fn check(c: &IndexCase) -> Verdict {
        let len = c.len as usize;
        let (val, items) = make(c.kind, len);
        let want = pyslice::subscript(len, c.idx as i128);
        let mut v = Verdict::pass(c.idx < 0 || c.idx >= len as i64);
        if c.idx < 0 {
            v.labels.push("negative_index");
        }
        let src = format!("v[{}]", bound_src(Some(c.idx as i128), "i", c.lit));
        let mut pairs = vec![("v", val)];
        if !c.lit {
            pairs.push(("i", Value::from(c.idx)));
        }
        let got = eval(&src, pairs);
        let family = if c.kind == Kind::UnsizedIter { "unsized" } else { "sized" };
        match got {
            Err(e) => v.set_fail(
                format!("subscript_err:{family}"),
                format!("{:?} len {len} `{src}` idx {}: got error {e}", c.kind, c.idx),
            ),
            Ok(g) => {
                let ok = match (want, &items) {
                    // out of range: Jinja yields undefined where Python raises IndexError
                    (None, _) => g.is_undefined(),
                    (Some(i), Items::Chars(cs)) => g.as_str() == Some(cs[i].to_string().as_str()),
                    (Some(i), Items::Bytes(bs)) => g == Value::from(bs[i]),
                    (Some(i), Items::Ints(xs)) => g == Value::from(xs[i]) && g.is_integer(),
                };
                if !ok {
                    v.set_fail(
                        format!("subscript_wrong:{family}"),
                        format!(
                            "{:?} len {len} `{src}` idx {}: python selects {want:?} but got {}",
                            c.kind,
                            c.idx,
                            describe(&g)
                        ),
                    );
                }
            }
        }
        v
    }
}

pub fn index_box() -> Vec<IndexCase> {
    let mut out = vec![];
    let mut idxs: Vec<i64> = (-9..=9).collect();
    idxs.extend([i64::MIN, i64::MIN + 1, i64::MAX - 1, i64::MAX]);
    for kind in KINDS {
        for len in 0u8..=6 {
            for &idx in &idxs {
                for lit in [false, true] {
                    out.push(IndexCase { kind, len, idx, lit });
                }
            }
        }
    }
    out
}


/// The rows of the box in which a bound lies at or beyond the i64 boundaries, run once more in
/// isolated worker processes: a slice that *aborts* the process (an allocation sized by a bound)
/// cannot be observed from inside, and "nothing else about a slice can fail" includes that.
pub struct SliceBoundaries;

impl Part for SliceBoundaries {
    type Case = SliceCase;
    const NAME: &'static str = "slices_at_integer_boundaries";

    fn strategy(tier: Tier) -> BoxedStrategy<SliceCase> {
        Slices::strategy(tier)
    }

    fn enumeration(_tier: Tier) -> Vec<SliceCase> {
        let extreme = |b: Option<i64>| b.map_or(false, |x| x.unsigned_abs() > 1 << 62);
        slice_box(1, 0)
            .into_iter()
            .filter(|c| c.beyond != [0; 3] || extreme(c.start) || extreme(c.stop) || extreme(c.step))
            .collect()
    }

    fn check(c: &SliceCase) -> Verdict {
        Slices::check_impl(c)
    }
}

crate::declare_parts!(Slices, Subscripts, SliceBoundaries);

pub fn run(ctx: &mut Ctx) {
    ctx.rule = "complete enumeration of kind in {ascii/multibyte/arc string, list, tuple, bytes, sized and unsized lazy iterable} x len 0..=6 x start, stop in {omitted} U [-9,9] x step in {omitted} U [-4,4] (both tiers enumerate the whole box), plus rows with i64::MIN/MIN+1/MAX-1/MAX in each position, plus random cases incl. +-2^32, +-2^62; bounds as literals and as variables of every internal width (i64, u64, i128, u128, the result of `|int`); judged against Python's slice.indices model; every result is sliced, subscripted from the end and measured again; the rows with a bound at or beyond the i64 boundaries also run in isolated worker processes (so that an abort is attributed to its case). Non-trivial: negative step, negative or out-of-range bound, or length 0. Distinct by (kind, len, start, stop, step, literal/variable).".into();
    ctx.assumptions = vec![
        "model/pyslice.rs implements Python's slice.indices (unit-tested against CPython examples; cross-checked against python3 in the thorough tier)".into(),
        "an out-of-range subscript is expected to yield undefined (Jinja) where Python raises IndexError".into(),
        "lazy iterables are judged as the list of their items".into(),
    ];
    let t = ctx.tier;
    let (stride, offset) = match t {
        Tier::Quick => (1, 0),
        Tier::Thorough => (1, 0),
    };
    // the boundary rows first, in worker processes (an abort there is attributed to its case);
    // if one of them kills its worker the in-process parts below could die of the same cause
    ctx.run_enum_isolated::<SliceBoundaries>("MJV_DEV", "isolated", 60);
    if !ctx.violations.is_empty() {
        return;
    }
    preamble(ctx);
    ctx.run_enumerated::<Slices>(slice_box(stride, offset), true);
    ctx.run_enumerated::<Subscripts>(index_box(), true);
    ctx.run_part::<Slices>(t.pick(20_000, 20_000_000));
    ctx.run_part::<Subscripts>(t.pick(5_000, 5_000_000));
    if t == Tier::Thorough {
        python_crosscheck(ctx);
    }
}

fn python_crosscheck(ctx: &mut Ctx) {
    // validates the oracle, not the engine
    let mut lines = String::new();
    let mut wants = vec![];
    let fmt = |b: Option<i128>| b.map_or("None".to_string(), |x| x.to_string());
    for c in slice_box(7, 3).into_iter().filter(|c| c.kind == Kind::List) {
        lines.push_str(&format!(
            "{} {} {} {}\n",
            c.len,
            fmt(eff(c.start, c.beyond[0])),
            fmt(eff(c.stop, c.beyond[1])),
            fmt(eff(c.step, c.beyond[2]))
        ));
        let (start, stop, step) = (eff(c.start, c.beyond[0]), eff(c.stop, c.beyond[1]), eff(c.step, c.beyond[2]));
        wants.push(
            match pyslice::slice_indices(c.len as usize, start, stop, step) {
                Some(v) => format!("{v:?}"),
                None => "ERR".to_string(),
            },
        );
    }
    let script = r#"
import sys
for line in sys.stdin:
    n, a, b, c = line.split()
    conv = lambda x: None if x == 'None' else int(x)
    try:
        print(list(range(int(n))[slice(conv(a), conv(b), conv(c))]))
    except ValueError:
        print('ERR')
"#;
    use std::io::Write;
    let Ok(mut child) = std::process::Command::new("python3")
        .arg("-c")
        .arg(script)
        .stdin(std::process::Stdio::piped())
        .stdout(std::process::Stdio::piped())
        .spawn()
    else {
        ctx.extra.insert("python_crosscheck".into(), "python3 not available".into());
        return;
    };
    let mut stdin = child.stdin.take().unwrap();
    let writer = std::thread::spawn(move || {
        let _ = stdin.write_all(lines.as_bytes());
    });
    let out = child.wait_with_output().expect("python");
    let _ = writer.join();
    let text = String::from_utf8_lossy(&out.stdout);
    let got: Vec<&str> = text.lines().collect();
    let mismatches = if got.len() != wants.len() {
        wants.len()
    } else {
        got.iter().zip(&wants).filter(|(g, w)| *g != w).count()
    };
    ctx.extra.insert(
        "python_crosscheck".into(),
        serde_json::json!({"cases": wants.len(), "oracle_mismatches": mismatches}),
    );
    if mismatches > 0 {
        eprintln!("oracle self-check failed: pyslice model disagrees with python3 on {mismatches} cases");
        std::process::exit(2);
    }
}

#[allow(dead_code)]
fn _unused(_: &ReplayFile) {}
