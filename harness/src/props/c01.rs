//! C01 — loading and rendering a template never crashes the host process.
use minijinja::{Environment, UndefinedBehavior, Value};
use proptest::prelude::*;
use serde::{Deserialize, Serialize};

use crate::gen::free::{self, Opts};
use crate::gen::print;
use crate::gen::value::Val;
use crate::runner::{guarded, Ctx, Part, ReplayFile, Tier, Verdict};

#[derive(Clone, Debug, Serialize, Deserialize)]
pub struct RenderCase {
    pub main_name: String,
    pub source: String,
    pub companions: Vec<(String, String)>,
    /// context variables; None = the standard context `std_ctx()`
    pub ctx: Option<Vec<(String, Val)>>,
    pub undefined: u8,
    pub debug: bool,
    /// stack of the rendering thread in KiB (2048 = default thread, 8192 = main thread)
    pub stack_kib: u32,
    pub fuel: Option<u64>,
    /// also run the source through compile_expression + eval
    pub as_expression: bool,
}

pub fn behavior(n: u8) -> UndefinedBehavior {
    match n % 4 {
        0 => UndefinedBehavior::Lenient,
        1 => UndefinedBehavior::Strict,
        2 => UndefinedBehavior::Chainable,
        _ => UndefinedBehavior::SemiStrict,
    }
}

/// the standard context for free-mode templates (statement domain: none/bool/int/float/string/list/map)
pub fn std_ctx() -> Vec<(String, Val)> {
    let s = |x: &str| Val::Str(x.to_string());
    vec![
        ("n".into(), Val::None),
        ("b".into(), Val::Bool(true)),
        ("i".into(), Val::I64(3)),
        ("big".into(), Val::U64(1 << 63)),
        ("f".into(), Val::f(1.5)),
        ("s".into(), s("a.txt")),
        ("e".into(), s("")),
        ("l".into(), Val::List(vec![Val::I64(1), Val::I64(2), Val::I64(3)])),
        ("ls".into(), Val::List(vec![s("b"), s("<A>"), s("c")])),
        (
            "m".into(),
            Val::Map(vec![
                (s("k"), Val::I64(1)),
                (s("a"), Val::List(vec![Val::I64(1)])),
                (s("id"), s("x")),
            ]),
        ),
        (
            "ll".into(),
            Val::List(vec![
                Val::List(vec![Val::I64(1), Val::List(vec![Val::I64(2)])]),
                Val::List(vec![]),
                Val::Map(vec![(s("k"), Val::List(vec![Val::I64(3)]))]),
            ]),
        ),
        ("x".into(), Val::I64(0)),
        ("y".into(), s("y")),
    ]
}

fn ctx_strategy() -> BoxedStrategy<Option<Vec<(String, Val)>>> {
    let scalar = prop_oneof![
        Just(Val::None),
        any::<bool>().prop_map(Val::Bool),
        crate::gen::value::int_val(),
        crate::gen::value::float_val(),
        crate::runner::one_of(&["", "a", "<x>", "a.txt", "1", "%s", "{}"]).prop_map(|s| Val::Str(s.to_string())),
    ];
    let val = prop_oneof![
        3 => scalar.clone(),
        1 => prop::collection::vec(scalar.clone(), 0..4).prop_map(Val::List),
        1 => prop::collection::vec((crate::runner::one_of(&["k", "a", "id"]).prop_map(|s| Val::Str(s.to_string())), scalar), 0..3).prop_map(Val::Map),
    ];
    prop_oneof![
        3 => Just(None),
        1 => prop::collection::vec((0..free::VARS.len(), val), 0..8).prop_map(|v| {
            let mut out = std_ctx();
            for (i, val) in v {
                let name = free::VARS[i];
                if name == "u" { continue; }
                out.retain(|(n, _)| n != name);
                out.push((name.to_string(), val));
            }
            Some(out)
        }),
        1 => Just(Some(vec![])),
    ]
    .boxed()
}

/// operator / postfix ladders that stress the recursive descent without parentheses
fn ladder() -> BoxedStrategy<String> {
    let unit = crate::runner::one_of(&[
        ("not ", "", "x"),
        ("-", "", "1"),
        ("", " + 1", "1"),
        ("", " ~ 'a'", "'a'"),
        ("", " and x", "x"),
        ("", " or x", "x"),
        ("", "|string", "x"),
        ("", ".a", "m"),
        ("", "[0]", "ll"),
        ("", "()", "x"),
        ("", " is defined", "x"),
        ("", " if x else 1", "1"),
        ("", " == 1", "1"),
        ("", " < 2", "1"),
        ("", " * 2", "1"),
        ("", " ** 1", "2"),
        ("", " in l", "1"),
        ("(", ")", "1"),
        ("[", "]", "1"),
        ("{'a': ", "}", "1"),
    ]);
    (unit, 1usize..120, any::<bool>())
        .prop_map(|((pre, post, base), n, as_if)| {
            let e = format!("{}{}{}", pre.repeat(n), base, post.repeat(n));
            if as_if {
                format!("{{% if {e} %}}a{{% endif %}}")
            } else {
                format!("{{{{ {e} }}}}")
            }
        })
        .boxed()
}

fn nested_stmts() -> BoxedStrategy<String> {
    let unit = crate::runner::one_of(&[
        ("{% if x %}", "{% endif %}"),
        ("{% for q in l %}", "{% endfor %}"),
        ("{% with q = 1 %}", "{% endwith %}"),
        ("{% filter upper %}", "{% endfilter %}"),
        ("{% set q %}", "{% endset %}"),
        ("{% autoescape true %}", "{% endautoescape %}"),
        ("{% if x %}{% elif x %}", "{% endif %}"),
        ("{% macro q() %}", "{% endmacro %}"),
        ("{% call q() %}", "{% endcall %}"),
    ]);
    (unit, 1usize..180)
        .prop_map(|((open, close), n)| format!("{}x{}", open.repeat(n), close.repeat(n)))
        .boxed()
}

fn elif_ladder() -> BoxedStrategy<String> {
    (1usize..150).prop_map(|n| format!("{{% if x %}}a{}{{% endif %}}", "{% elif x %}b".repeat(n))).boxed()
}

fn mutate(src: String, ops: Vec<(u8, u16, u8)>) -> String {
    let mut b: Vec<char> = src.chars().collect();
    const INS: [&str; 16] = ["{{", "}}", "{%", "%}", "{#", "#}", "-", "(", ")", "[", "]", "|", "\"", "'", ".", "\u{e9}"];
    for (kind, pos, what) in ops {
        if b.is_empty() {
            break;
        }
        let p = crate::runner::pick_idx(pos, b.len());
        match kind % 4 {
            0 => {
                b.remove(p);
            }
            1 => {
                let ins: Vec<char> = INS[what as usize % INS.len()].chars().collect();
                for (i, c) in ins.into_iter().enumerate() {
                    b.insert(p + i, c);
                }
            }
            2 => b.truncate(p),
            _ => {
                let q = (p + 1 + what as usize).min(b.len());
                b.drain(p..q);
            }
        }
    }
    b.into_iter().collect()
}

fn source_strategy(tier: Tier) -> BoxedStrategy<String> {
    let o = Opts {
        sdepth: tier.pick(3, 4),
        ..Opts::default()
    };
    let printed = free::template(o).prop_map(|b| print::template_default(&b));
    prop_oneof![
        12 => printed.clone(),
        3 => (printed, prop::collection::vec((any::<u8>(), any::<u16>(), any::<u8>()), 1..4)).prop_map(|(s, ops)| mutate(s, ops)),
        2 => ladder(),
        1 => nested_stmts(),
        1 => elif_ladder(),
    ]
    .boxed()
}

pub struct Render;

type Job = (RenderCase, std::sync::mpsc::Sender<Result<(bool, bool, usize), (String, String)>>);

/// Long-lived render threads, one per stack size, so that a case does not pay for a thread
/// spawn. A panic is caught inside the thread; a stack overflow kills the whole (worker)
/// process, which is what the parent watches for.
fn run_on_stack(c: &RenderCase) -> Result<Result<(bool, bool, usize), (String, String)>, ()> {
    use std::collections::HashMap;
    use std::sync::mpsc;
    thread_local! {
        static POOL: std::cell::RefCell<HashMap<u32, mpsc::Sender<Job>>> = std::cell::RefCell::new(HashMap::new());
    }
    let (rtx, rrx) = mpsc::channel();
    POOL.with(|p| {
        let mut p = p.borrow_mut();
        let tx = p.entry(c.stack_kib).or_insert_with(|| {
            let (tx, rx) = mpsc::channel::<Job>();
            std::thread::Builder::new()
                .stack_size(c.stack_kib as usize * 1024)
                .spawn(move || {
                    while let Ok((case, reply)) = rx.recv() {
                        let r = guarded(|| exercise(&case));
                        let _ = reply.send(r);
                    }
                })
                .expect("spawn render thread");
            tx
        });
        tx.send((c.clone(), rtx)).map_err(|_| ())
    })?;
    rrx.recv().map_err(|_| ())
}

pub fn build_env(c: &RenderCase) -> Environment<'static> {
    let mut env = Environment::new();
    env.set_debug(c.debug);
    env.set_undefined_behavior(behavior(c.undefined));
    env.set_fuel(c.fuel);
    for (name, src) in &c.companions {
        // a companion that does not compile is simply missing
        let _ = env.add_template_owned(name.clone(), src.clone());
    }
    env
}

fn format_all(e: &minijinja::Error) {
    let _ = format!("{e}");
    let _ = format!("{e:#}");
    let _ = format!("{e:?}");
    let _ = format!("{e:#?}");
    let _ = format!("{}", e.display_debug_info());
    let _ = (e.kind(), e.name(), e.line(), e.range(), e.detail());
    let mut src = std::error::Error::source(e);
    let mut n = 0;
    while let Some(s) = src {
        let _ = format!("{s} {s:?}");
        src = s.source();
        n += 1;
        if n > 64 {
            break;
        }
    }
}

/// What happened: (loaded, rendered ok)
fn exercise(c: &RenderCase) -> (bool, bool, usize) {
    let mut env = build_env(c);
    let ctx_vals = c.ctx.clone().unwrap_or_else(std_ctx);
    let ctx = Value::from_pairs(ctx_vals.iter().map(|(k, v)| (k.clone(), v.to_value())));
    let mut loaded = false;
    let mut ok = false;
    let mut tokens = 0;
    match env.add_template_owned(c.main_name.clone(), c.source.clone()) {
        Err(e) => {
            format_all(&e);
            tokens = e.line().unwrap_or(0);
        }
        Ok(()) => {
            loaded = true;
            let t = env.get_template(&c.main_name).expect("just added");
            let _ = t.undeclared_variables(true);
            match t.render(ctx.clone()) {
                Ok(s) => {
                    ok = true;
                    std::hint::black_box(s.len());
                }
                Err(e) => format_all(&e),
            }
        }
    }
    if c.as_expression {
        // the same text inside an expression context
        let inner = c
            .source
            .trim()
            .trim_start_matches("{{")
            .trim_end_matches("}}")
            .to_string();
        match env.compile_expression_owned(inner) {
            Ok(expr) => {
                let _ = expr.undeclared_variables(false);
                match expr.eval(ctx) {
                    Ok(v) => {
                        let _ = format!("{v} {v:?}");
                        let _ = v.len();
                        let _ = v.is_true();
                    }
                    Err(e) => format_all(&e),
                }
            }
            Err(e) => format_all(&e),
        }
    }
    (loaded, ok, tokens)
}

impl Part for Render {
    type Case = RenderCase;
    const NAME: &'static str = "render_cases";

    fn strategy(tier: Tier) -> BoxedStrategy<RenderCase> {
        let o = Opts {
            sdepth: 2,
            edepth: 2,
            ..Opts::default()
        };
        let companion = free::template(o).prop_map(|b| print::template_default(&b));
        (
            source_strategy(tier),
            prop::collection::vec(companion, 3),
            ctx_strategy(),
            any::<u8>(),
            any::<bool>(),
            any::<bool>(),
            prop_oneof![3 => Just(Some(10_000u64)), 1 => Just(Some(2_000)), 1 => Just(None)],
            any::<bool>(),
            prop::bool::weighted(0.15),
        )
            .prop_map(|(source, comps, ctx, undefined, debug, small_stack, fuel, html, as_expression)| RenderCase {
                main_name: if html { "main.html".into() } else { "main.txt".into() },
                // no fuel limit only for sources that cannot loop for long
                fuel: if fuel.is_none()
                    && (source.contains("range")
                        || source.contains("recursive")
                        || source.contains("loop(")
                        || source.matches("for ").count() > 2
                        || source.contains("include")
                        || source.contains("import")
                        || source.contains("extends"))
                {
                    Some(10_000)
                } else {
                    fuel
                },
                source,
                companions: free::COMPANIONS
                    .iter()
                    .zip(comps)
                    .map(|(n, s)| (n.to_string(), s))
                    .collect(),
                ctx,
                undefined,
                debug,
                stack_kib: if small_stack { 2048 } else { 8192 },
                as_expression,
            })
            .boxed()
    }

    fn check(c: &RenderCase) -> Verdict {
        match run_on_stack(c) {
            Ok(Ok((loaded, ok, err_line))) => {
                let mut v = Verdict::pass(loaded || err_line >= 1 && c.source.len() > 12);
                if loaded {
                    v.labels.push("loaded");
                }
                if ok {
                    v.labels.push("rendered_ok");
                }
                for kw in [
                    "for ", "macro ", "call ", "include ", "extends ", "import ", "block ", "filter ", "set ",
                    "with ", "autoescape ", "break", "continue", "recursive", "loop.cycle", "namespace", "range(",
                ] {
                    if c.source.contains(kw) {
                        v.labels.push(match kw {
                            "for " => "has_for",
                            "macro " => "has_macro",
                            "call " => "has_call",
                            "include " => "has_include",
                            "extends " => "has_extends",
                            "import " => "has_import",
                            "block " => "has_block",
                            "filter " => "has_filter_block",
                            "set " => "has_set",
                            "with " => "has_with",
                            "autoescape " => "has_autoescape",
                            "break" => "has_break",
                            "continue" => "has_continue",
                            "recursive" => "has_recursive",
                            "loop.cycle" => "has_loop_cycle",
                            "namespace" => "has_namespace",
                            _ => "has_range",
                        });
                    }
                }
                v
            }
            Ok(Err((sig, raw))) => Verdict::fail(sig, format!("panicked: {raw}\nsource: {}", c.source)),
            Err(_) => Verdict::fail("panic:thread", "render thread panicked outside the guard"),
        }
    }

    fn show(c: &RenderCase) -> serde_json::Value {
        serde_json::json!({"source": c.source, "main": c.main_name, "stack_kib": c.stack_kib, "fuel": c.fuel})
    }

    fn shrink_candidates(c: &RenderCase) -> Vec<RenderCase> {
        // delta debugging on the source text: drop halves, quarters, ... then single chars
        let chars: Vec<char> = c.source.chars().collect();
        let n = chars.len();
        let mut out = vec![];
        let with = |src: String, out: &mut Vec<RenderCase>| {
            let mut x = c.clone();
            x.source = src;
            out.push(x);
        };
        if !c.companions.is_empty() {
            let mut x = c.clone();
            x.companions.clear();
            out.push(x);
        }
        if c.ctx.as_ref().map_or(true, |x| !x.is_empty()) {
            let mut x = c.clone();
            x.ctx = Some(vec![]);
            out.push(x);
        }
        for i in 0..c.companions.len() {
            let mut x = c.clone();
            x.companions.remove(i);
            out.push(x);
            // halves, quarters, ... of the companion's text
            let chars: Vec<char> = c.companions[i].1.chars().collect();
            let n = chars.len();
            let mut chunk = n / 2;
            while chunk >= 1 && out.len() < 600 {
                let mut start = 0;
                while start < n {
                    let end = (start + chunk).min(n);
                    let mut x = c.clone();
                    x.companions[i].1 = chars[..start].iter().chain(chars[end..].iter()).collect();
                    out.push(x);
                    start += chunk;
                }
                chunk /= 2;
            }
        }
        let mut chunk = n / 2;
        while chunk >= 1 {
            let mut start = 0;
            while start < n {
                let end = (start + chunk).min(n);
                let s: String = chars[..start].iter().chain(chars[end..].iter()).collect();
                with(s, &mut out);
                start += chunk;
            }
            if out.len() > 400 {
                break;
            }
            chunk /= 2;
        }
        out
    }
}

// ------------------------------------------------------------------ systematic built-in x boundary-argument grid

pub struct Grid;

const SUBJECTS: [&str; 20] = [
    "n", "b", "i", "big", "f", "s", "e", "l", "ls", "m", "ll", "u", "(1, 2)", "'abc'", "range(3)", "-1", "0",
    // strings that start with / consist of multi-byte characters (byte-offset slips)
    "'\u{e9}l\u{e0}n \u{df}x'", "'\u{1F600}\u{e9} \u{1F600}'", "['\u{e9}a', '\u{df}']",
];

/// names registered in `get_builtin_filters` / `get_builtin_tests` of the tree under test, read
/// from its source so that a filter added (or renamed) there is in the grid without touching the
/// harness; the static lists are the fallback and are always included
fn discovered(section: &str) -> Vec<String> {
    let repo = std::env::var("VERIF_REPO").unwrap_or_else(|_| "/repo".into());
    let Ok(src) = std::fs::read_to_string(format!("{repo}/minijinja/src/defaults.rs")) else {
        return vec![];
    };
    let Some(at) = src.find(section) else { return vec![] };
    let body = &src[at..];
    let end = body[1..].find("\nfn ").or_else(|| body[1..].find("\npub fn ")).map(|e| e + 1).unwrap_or(body.len());
    let mut out = vec![];
    let mut rest = &body[..end];
    while let Some(q) = rest.find('"') {
        let after = &rest[q + 1..];
        let Some(e) = after.find('"') else { break };
        let name = &after[..e];
        if after[e + 1..].starts_with(".into()") && !name.is_empty() && name.chars().all(|c| c.is_ascii_alphanumeric() || c == '_') {
            out.push(name.to_string());
        }
        rest = &after[e + 1..];
    }
    out
}

fn grid_filters() -> Vec<String> {
    let mut v: Vec<String> = free::FILTERS.iter().map(|s| s.to_string()).collect();
    v.extend(free::EXTRA_FILTERS.iter().filter(|f| **f != "nosuchfilter").map(|s| s.to_string()));
    for d in discovered("fn build_builtin_filters") {
        if !v.contains(&d) {
            v.push(d);
        }
    }
    v
}

fn grid_tests() -> Vec<String> {
    let mut v: Vec<String> = free::TESTS.iter().map(|s| s.to_string()).collect();
    for d in discovered("fn build_builtin_tests") {
        if !v.contains(&d) {
            v.push(d);
        }
    }
    v
}

const ARGS: [&str; 20] = [
    "0",
    "1",
    "-1",
    "2",
    "9223372036854775807",
    "9223372036854775808",
    "-9223372036854775808",
    "'a'",
    "none",
    "l",
    "2001",
    "100001",
    "2147483648",
    "18446744073709551616",
    "''",
    "true",
    "m",
    "1.5",
    "u",
    "3",
];

const KWARGS: [&str; 18] = [
    "width", "first", "blank", "indent", "reverse", "case_sensitive", "attribute", "by", "default", "boolean",
    "precision", "method", "fill_with", "start", "sep", "maxsplit", "chars", "count",
];

const FORMATS: [&str; 36] = [
    "%d", "%5d", "%-5d", "%05.2f", "%s", "%r", "%x", "%c", "%%", "%1000000000000d", "%.1000000000000f", "%*d",
    // width and precision taken from the arguments, and precisions at the limit of what std::fmt accepts
    "%.*f", "%.*e", "%.*g", "%*.*f", "%0*d", "%-*s", "%.*s", "%.*d",
    "%.65535f", "%.65535e", "%.65535g", "%.65533g", "%.65534E", "%65535.65535f",
    "%(a)s", "%",
    // multi-byte characters in every syntactic position of a format spec
    "%(\u{e9})s", "%(\u{e9}", "%\u{e9}", "%5\u{e9}", "%.\u{e9}f", "\u{1F600}%(\u{1F600}k)d\u{e9}", "%(a)\u{e9}", "%-\u{df}d",
];

fn grid_sources(tier: Tier) -> Vec<String> {
    let mut out = vec![];
    let n1 = tier.pick(12, 20);
    let n2 = tier.pick(8, 20);
    let n3 = tier.pick(0, 7);
    let arg_lists = |out: &mut Vec<String>| {
        out.push(String::new());
        for a in &ARGS[..n1] {
            out.push(a.to_string());
        }
        for a in &ARGS[..n2] {
            for b in &ARGS[..n2] {
                out.push(format!("{a}, {b}"));
            }
        }
        for a in &ARGS[..n3] {
            for b in &ARGS[..n3] {
                for c in &ARGS[..n3] {
                    out.push(format!("{a}, {b}, {c}"));
                }
            }
        }
    };
    let mut lists = vec![];
    arg_lists(&mut lists);
    let subjects = &SUBJECTS[..];
    let filters = grid_filters();
    for f in &filters {
        for subj in subjects {
            for a in &lists {
                if a.is_empty() {
                    out.push(format!("{{{{ {subj}|{f} }}}}"));
                } else {
                    out.push(format!("{{{{ {subj}|{f}({a}) }}}}"));
                }
            }
        }
        for subj in ["s", "l", "m", "i", "ls", "ll"] {
            for kw in KWARGS {
                for a in &ARGS[..n1] {
                    out.push(format!("{{{{ {subj}|{f}({kw}={a}) }}}}"));
                    out.push(format!("{{{{ {subj}|{f}(1, {kw}={a}) }}}}"));
                }
            }
        }
    }
    let tests = grid_tests();
    for t in &tests {
        if t == "==" {
            continue;
        }
        for subj in subjects {
            for a in lists.iter().take(1 + n1 + n2 * n2) {
                if a.is_empty() {
                    out.push(format!("{{{{ {subj} is {t} }}}}"));
                } else {
                    out.push(format!("{{{{ {subj} is {t}({a}) }}}}"));
                }
            }
        }
    }
    for func in ["range", "dict", "namespace", "debug"] {
        for a in &lists {
            out.push(format!("{{{{ {func}({a})|list }}}}"));
        }
        for kw in ["a", "k", "x"] {
            for a in &ARGS[..n1] {
                out.push(format!("{{{{ {func}({kw}={a}) }}}}"));
                out.push(format!("{{{{ {func}(**{a}) }}}}"));
                out.push(format!("{{{{ {func}(*{a}) }}}}"));
            }
        }
    }
    // loop object methods and attributes
    for a in lists.iter().take(1 + n1 + n2 * n2) {
        for m in ["cycle", "changed"] {
            out.push(format!("{{% for x in l %}}{{{{ loop.{m}({a}) }}}}{{% endfor %}}"));
            out.push(format!("{{% for x in ll recursive %}}{{{{ loop.{m}({a}) }}}}{{{{ loop(x) if x is sequence }}}}{{% endfor %}}"));
        }
        out.push(format!("{{% for x in l %}}{{{{ loop({a}) }}}}{{% endfor %}}"));
        out.push(format!("{{% for x in ll recursive %}}{{{{ loop({a}) }}}}{{% endfor %}}"));
        out.push(format!("{{% set ns = namespace({a}) %}}{{% set ns.k = {} %}}{{{{ ns.k }}}}{{{{ ns }}}}", if a.is_empty() { "1" } else { a.split(',').next().unwrap() }));
    }
    // many distinct filter / test names in one template (the per-template slot tables are finite):
    // n unknown names in a branch that never runs, then known ones that do run
    for n in 40..70usize {
        let unknown_f: String = (0..n).map(|k| format!("|nofilter{k}")).collect();
        out.push(format!("{{% if false %}}{{{{ x{unknown_f} }}}}{{% endif %}}{{{{ s|upper }}}}{{{{ s|lower|title|trim }}}}"));
        let unknown_t: String = (0..n).map(|k| format!("{{{{ x is notest{k} }}}}")).collect();
        out.push(format!("{{% if false %}}{unknown_t}{{% endif %}}{{{{ i is odd }}}}{{{{ i is even }}}}{{{{ s is string }}}}"));
        let known: String = filters.iter().cycle().take(n).enumerate().map(|(k, f)| format!("{{% if false %}}{{{{ x|{f}|nofilter{k} }}}}{{% endif %}}")).collect();
        out.push(format!("{known}{{{{ s|upper }}}}{{{{ l|join(',') }}}}{{{{ i is odd }}}}"));
    }
    // parenthesised assignment targets nested up to and far beyond the parser's recursion limit
    for n in [1usize, 10, 149, 150, 151, 400, 3000, 20_000] {
        let (open, close) = ("(".repeat(n), ")".repeat(n));
        out.push(format!("{{% set {open}x{close} = 1 %}}{{{{ x }}}}"));
        out.push(format!("{{% for {open}x{close} in [1] %}}{{{{ x }}}}{{% endfor %}}"));
        out.push(format!("{{% with {open}x{close} = 1 %}}{{{{ x }}}}{{% endwith %}}"));
        let (open, close) = ("(".repeat(n), ",)".repeat(n));
        out.push(format!("{{% set {open}x{close} = 1 %}}{{{{ x }}}}"));
    }
    // range() over all triples of boundary integers (the length and every element are computed
    // from start, stop and step: each intermediate product and sum must stay in range)
    const RANGE_ARGS: [&str; 16] = [
        "0", "1", "-1", "2", "-2", "9223372036854775807", "9223372036854775806", "-9223372036854775808", "-9223372036854775807",
        "4611686018427387904", "-4611686018427387904", "9223372036854775808", "100000", "100001", "-100000", "3074457345618258603",
    ];
    for a in RANGE_ARGS {
        for b in RANGE_ARGS {
            out.push(format!("{{{{ range({a}, {b})|list|length }}}}{{{{ range({a}, {b})|last }}}}"));
            for c in RANGE_ARGS {
                out.push(format!("{{{{ range({a}, {b}, {c})|list }}}}{{{{ range({a}, {b}, {c})|length }}}}{{{{ range({a}, {b}, {c})|last }}}}{{{{ range({a}, {b}, {c})[-1] }}}}"));
            }
        }
    }
    // string literals: every sequence of up to three escape pieces (surrogate halves in every
    // order, truncated and malformed \u, \x and octal escapes, unknown escapes, a trailing backslash)
    const ESCAPES: [&str; 26] = [
        "\\u0041", "\\ud7ff", "\\ud800", "\\udbff", "\\udc00", "\\udfff", "\\ue000", "\\uffff", "\\ud83d", "\\ude00", "\\u00", "\\u", "\\uzzzz",
        "\\x41", "\\xff", "\\x4", "\\x", "\\777", "\\400", "\\7", "\\0", "\\8", "\\q", "a", "\u{e9}", "\u{1F600}",
    ];
    let n_esc = tier.pick(2, 3);
    let mut seqs: Vec<String> = vec![String::new()];
    let mut level: Vec<String> = vec![String::new()];
    for _ in 0..n_esc {
        let mut next = vec![];
        for p in &level {
            for e in ESCAPES {
                next.push(format!("{p}{e}"));
            }
        }
        seqs.extend(next.iter().cloned());
        level = next;
    }
    for e in ESCAPES.iter().take(13) {
        // the surrogate pieces also three deep in the quick tier
        for f in ESCAPES.iter().take(13) {
            for g in ESCAPES.iter().take(13) {
                seqs.push(format!("{e}{f}{g}"));
            }
        }
    }
    for q in &seqs {
        out.push(format!("{{{{ \"{q}\" }}}}{{{{ '{q}'|length }}}}"));
    }
    for q in seqs.iter().take(27 * 26) {
        out.push(format!("{{{{ \"{q}\\\" }}}}"));
        out.push(format!("{{% set x = {{'{q}': \"{q}\"}} %}}{{{{ x }}}}{{{{ x|tojson }}}}"));
        out.push(format!("{{% include \"{q}\" ignore missing %}}{{{{ s|replace('{q}', \"{q}\") }}}}"));
    }
    // repetition, formatting, concatenation with boundary counts
    for a in &ARGS[..n1] {
        for subj in ["s", "'ab'", "l", "(1, 2)", "range(3)", "ll", "e", "[]", "()"] {
            out.push(format!("{{{{ {subj} * {a} }}}}"));
            out.push(format!("{{{{ {a} * {subj} }}}}"));
            out.push(format!("{{{{ ({subj} * {a})|length }}}}"));
            out.push(format!("{{{{ {subj} + {a} }}}}"));
            out.push(format!("{{{{ {subj} ~ {a} }}}}"));
            out.push(format!("{{{{ {subj} % {a} }}}}"));
            out.push(format!("{{{{ {subj}[{a}] }}}}"));
            out.push(format!("{{{{ {subj}[{a}:] }}}}"));
            out.push(format!("{{{{ {subj}[:{a}:{a}] }}}}"));
            out.push(format!("{{{{ {subj}[::{a}] }}}}"));
        }
        for fmt in FORMATS {
            for fl in ["0.0001", "1.5", "1e300", "-0.0", "123456789.125"] {
                out.push(format!("{{{{ '{fmt}'|format({fl}) }}}}{{{{ '{fmt}'|format({a}, {fl}) }}}}{{{{ '{fmt}'|format({a}, {a}, {fl}) }}}}"));
            }
            out.push(format!("{{{{ '{fmt}'|format(**{{'\u{e9}': {a}, 'a': 1, '\u{1F600}k': 2}}) }}}}"));
            out.push(format!("{{{{ '{fmt}'|format({a}) }}}}"));
            out.push(format!("{{{{ '{fmt}'|format({a}, {a}) }}}}"));
            out.push(format!("{{{{ '{fmt}' % {a} }}}}"));
            out.push(format!("{{{{ '{fmt}' % ({a}, {a}) }}}}"));
        }
        for brace in [
            "{}", "{0}", "{:>5}", "{:>1000000000000}", "{:.1000000000000f}", "{a}", "{0.a}", "{!r}", "{:x}", "{:c}", "{", "}",
            "{\u{e9}}", "{\u{e9}", "{:\u{e9}}", "{:\u{e9}>5}", "{0.\u{e9}}", "{0[\u{e9}]}", "{!\u{e9}}", "{:5\u{e9}}", "\u{1F600}{}\u{e9}{",
        ] {
            out.push(format!("{{{{ '{brace}'.format({a}) }}}}"));
            out.push(format!("{{{{ '{brace}'|format({a}) }}}}"));
        }
    }
    // a loop object that outlives its loop (stored in a namespace) and is read after the loop
    // ended normally, early, or never ran
    for it in ["l", "[]", "range(3)", "'ab'", "m", "[1]", "ll"] {
        for stop in ["", "{% if loop.index == 2 %}{% break %}{% endif %}", "{% if loop.first %}{% continue %}{% endif %}"] {
            for attr in ["revindex0", "revindex", "last", "first", "index", "index0", "length", "depth", "depth0", "previtem", "nextitem", "cycle(1, 2)", "changed(1)"] {
                out.push(format!(
                    "{{% set ns = namespace(l=none) %}}{{% for x in {it} %}}{{% set ns.l = loop %}}{stop}{{% endfor %}}[{{{{ ns.l.{attr} }}}}|{{{{ ns.l }}}}|{{{{ ns.l.{attr} }}}}]{{% for y in [1] %}}{{{{ ns.l.{attr} }}}}{{% endfor %}}"
                ));
            }
        }
    }
    // format strings that are marked safe (their arguments get escaped first), with arguments
    // that are undefined, none, safe, unsafe, or not strings; each row four times in a row so that
    // it runs under all four undefined behaviours (the mode is the row index modulo 4)
    for fmt in FORMATS {
        for arg in ["missing", "o.missing", "none", "'<x>'", "s|safe", "true", "1.5", "l", "m", "missing|e", "missing|safe"] {
            for _ in 0..4 {
                out.push(format!(
                    "{{{{ '{fmt}'|safe|format({arg}) }}}}{{{{ ('<b>{fmt}</b>'|safe) % {arg} }}}}{{% set f %}}<i>{fmt}{{% endset %}}{{{{ f|format({arg}, {arg}) }}}}{{{{ f % ({arg}, {arg}) }}}}{{{{ f|format(a={arg}) }}}}"
                ));
            }
        }
    }
    out
}

static GRID: std::sync::OnceLock<Vec<String>> = std::sync::OnceLock::new();

fn grid_case(src: &str, i: usize) -> RenderCase {
    RenderCase {
        main_name: if i % 5 == 0 { "main.html".into() } else { "main.txt".into() },
        source: src.to_string(),
        companions: vec![],
        ctx: None,
        undefined: (i % 4) as u8,
        debug: i % 2 == 0,
        stack_kib: if i % 3 == 0 { 2048 } else { 8192 },
        fuel: Some(200_000),
        as_expression: i % 7 == 0,
    }
}

impl Part for Grid {
    type Case = RenderCase;
    const NAME: &'static str = "builtin_grid";

    fn strategy(_tier: Tier) -> BoxedStrategy<RenderCase> {
        let grid = GRID.get_or_init(|| grid_sources(Tier::Thorough));
        let n = grid.len();
        (0..n).prop_map(move |i| grid_case(&GRID.get().unwrap()[i], i)).boxed()
    }

    fn enumeration(tier: Tier) -> Vec<RenderCase> {
        grid_sources(tier)
            .iter()
            .enumerate()
            .map(|(i, s)| grid_case(s, i))
            .collect()
    }

    fn check(c: &RenderCase) -> Verdict {
        let mut v = Render::check(c);
        v.labels.clear();
        v.nontrivial = true;
        v
    }

    fn show(c: &RenderCase) -> serde_json::Value {
        serde_json::json!({"source": c.source})
    }

    fn shrink_candidates(c: &RenderCase) -> Vec<RenderCase> {
        Render::shrink_candidates(c)
    }
}


// ------------------------------------------------------------------ accumulators: values grown step by step in a loop

/// Values built up over thousands of loop iterations (prepend/append/concatenate/chain/merge) and
/// then consumed: lazily composed values must not turn the number of steps into native recursion.
/// (Wrapping the accumulator into a new container each step — `[ns.a]`, `{"k": ns.a}` — is the
/// listed deep-value finding and is left to its witness.)
pub struct Accumulators;

const ACC_STEPS: [(&str, &str, bool); 15] = [
    // (initial value, step expression, constant cost per step)
    ("[]", "[i] + ns.a", true),
    ("[]", "ns.a + [i]", true),
    ("[]", "[i] + ns.a + [i]", true),
    ("[]", "ns.a|chain([i])", true),
    ("[]", "[i]|chain(ns.a)", true),
    ("[]", "(ns.a + [i])|list", false),
    ("[]", "ns.a|reverse", true),
    ("[]", "(ns.a|map('string')|list)[:50] + [i]", false),
    ("()", "ns.a + (i,)", true),
    ("''", "ns.a ~ i", false),
    ("''", "i ~ ns.a", false),
    ("''", "'x' + ns.a", false),
    ("{}", "dict(ns.a, k=i)", true),
    ("{}", "ns.a|items|list|batch(3)|first|default([], true)", true),
    ("0", "ns.a + i", true),
    // not here: `ns.a[:] + [i]` — slices are lazy adapters that nest without bound (listed finding
    // F-C01-lazyslice, run through its witness)
];

const ACC_USES: [&str; 8] = [
    "{{ ns.a|length }}",
    "{% for x in ns.a %}{% endfor %}",
    "{{ ns.a|last }}",
    "{{ ns.a|string|length }}",
    "{{ ns.a == ns.a }}",
    "{{ ns.a|tojson|length }}",
    "{{ (ns.a|list|sort)[:3] }}",
    "{{ ns.a is sequence }}{{ ns.a|first }}",
];

fn accumulator_cases(tier: Tier) -> Vec<RenderCase> {
    let mut out = vec![];
    let mut i = 0usize;
    for (init, step, cheap) in ACC_STEPS {
        let mut sizes = vec![6_000u32];
        if cheap {
            sizes.push(tier.pick(30_000, 120_000));
        }
        for n in sizes {
            for use_ in ACC_USES {
                // the most expensive consumers only on the smaller size
                if n > 6_000 && (use_.contains("sort") || use_.contains("tojson") || use_.contains("string")) {
                    continue;
                }
                let source = format!(
                    "{{% set ns = namespace(a={init}) %}}{{% for i in range({n}) %}}{{% set ns.a = {step} %}}{{% endfor %}}{use_}"
                );
                out.push(RenderCase {
                    main_name: "main.txt".into(),
                    source,
                    companions: vec![],
                    ctx: None,
                    undefined: 0,
                    debug: false,
                    stack_kib: if i % 2 == 0 { 2048 } else { 8192 },
                    fuel: Some(20_000_000),
                    as_expression: false,
                });
                i += 1;
            }
        }
    }
    // doubling: the value is combined with itself, so 40-70 steps describe astronomically many
    // items while every step is cheap (lazy concatenation, lazy repetition); nothing may try to
    // allocate room for all of them at once
    for (init, step) in [
        ("[1]", "ns.a + ns.a"),
        ("[1, 2]", "ns.a + ns.a + [i]"),
        ("[1]", "ns.a|chain(ns.a)"),
        ("[1]", "[ns.a, ns.a]|sum(start=[])"),
        ("[[1]]", "ns.a + ns.a|map('first')|list if i < 3 else ns.a + ns.a"),
    ] {
        for n in [34u32, 48, 70] {
            for use_ in ["{{ ns.a|length }}", "{{ ns.a|first }}", "{{ (ns.a + [0])|length }}", ""] {
                out.push(RenderCase {
                    main_name: "main.txt".into(),
                    source: format!("{{% set ns = namespace(a={init}) %}}{{% for i in range({n}) %}}{{% set ns.a = {step} %}}{{% endfor %}}{use_}"),
                    companions: vec![],
                    ctx: None,
                    undefined: 0,
                    debug: false,
                    stack_kib: if i % 2 == 0 { 2048 } else { 8192 },
                    fuel: Some(2_000_000),
                    as_expression: false,
                });
                i += 1;
            }
        }
    }
    out
}

impl Part for Accumulators {
    type Case = RenderCase;
    const NAME: &'static str = "accumulators";

    fn strategy(_tier: Tier) -> BoxedStrategy<RenderCase> {
        let all = accumulator_cases(Tier::Quick);
        (0..all.len()).prop_map(move |i| all[i].clone()).boxed()
    }

    fn enumeration(tier: Tier) -> Vec<RenderCase> {
        accumulator_cases(tier)
    }

    fn check(c: &RenderCase) -> Verdict {
        let mut v = Render::check(c);
        v.labels.clear();
        v.nontrivial = true;
        v
    }

    fn show(c: &RenderCase) -> serde_json::Value {
        serde_json::json!({"source": c.source, "stack_kib": c.stack_kib})
    }

    fn shrink_candidates(c: &RenderCase) -> Vec<RenderCase> {
        // fewer steps first
        let mut out = vec![];
        if let Some(at) = c.source.find("range(") {
            let rest = &c.source[at + 6..];
            if let Some(end) = rest.find(')') {
                if let Ok(n) = rest[..end].parse::<u32>() {
                    for m in [n / 2, n - n / 4, n - 1] {
                        if m > 0 && m < n {
                            let mut d = c.clone();
                            d.source = format!("{}range({m}){}", &c.source[..at], &rest[end + 1..]);
                            out.push(d);
                        }
                    }
                }
            }
        }
        out
    }
}


// ------------------------------------------------------------------ loop objects that travel

/// A (recursive) loop object reaching code that does not run where the loop was started: passed to
/// macros of the same and of an imported template, closed over, called from included templates,
/// blocks, call blocks, filters; kept in a variable past the end of its loop.
pub struct LoopFlows;

fn loop_flow_cases() -> Vec<RenderCase> {
    let call_forms = ["loop(x) if x is sequence else x", "loop(x)", "loop()", "loop([x])", "loop(x, x)"];
    let data = ["ll", "[[1, [2]], [3]]", "[1]", "m", "'ab'"];
    let mut sources: Vec<(String, Vec<(String, String)>)> = vec![];
    for d in data {
        for rec in ["recursive ", ""] {
            for cf in call_forms {
                let lv = cf.replace("loop(", "l(");
                let ov = cf.replace("loop(", "outer(");
                let c = |s: &str| s.to_string();
                // where the call sits
                sources.push((format!("{{% for x in {d} {rec}%}}[{{{{ {cf} }}}}]{{% endfor %}}"), vec![]));
                // statements whose result is dropped, in front of a recursion inside an expression
                sources.push((format!("{{% for x in {d} {rec}%}}{{% do range(1) %}}{{% for y in ['s'] if ({cf}) %}}{{% endfor %}}{{{{ [1, {cf}, 3] }}}}{{% endfor %}}|after"), vec![]));
                sources.push((
                    format!("{{% for x in {d} {rec}%}}{{% from 'a.txt' import mm %}}{{% for y in [7] if ({cf}) %}}{{% endfor %}}{{{{ [1, {cf}, 3] }}}}{{% endfor %}}|after"),
                    vec![(c("a.txt"), c("{% macro mm() %}{% endmacro %}"))],
                ));
                // else blocks and filters of the (recursive) loop itself and of loops nested in it
                sources.push((format!("{{% for x in {d} {rec}%}}{{{{ '<' ~ ({cf}) ~ '>' }}}}{{% else %}}E{{% endfor %}}|after"), vec![]));
                sources.push((format!("{{% for x in {d} {rec}%}}{{% for y in [-5] if ({cf}) or true %}}{{{{ y }}}}{{% else %}}e{{% endfor %}}{{% else %}}E{{% endfor %}}|after"), vec![]));
                sources.push((format!("{{% for x in {d} if x {rec}%}}[{{{{ {cf} }}}}]{{% else %}}E{{% endfor %}}{{{{ 1 + 1 }}}}"), vec![]));
                sources.push((format!("{{% for x in {d} {rec}%}}{{% block item scoped %}}[{{{{ {cf} }}}}]{{% endblock %}}{{% endfor %}}"), vec![]));
                sources.push((format!("{{% for x in {d} {rec}%}}{{% include 'a.txt' %}}{{% endfor %}}"), vec![(c("a.txt"), format!("<{{{{ {cf} }}}}>"))]));
                sources.push((format!("{{% for x in {d} {rec}%}}{{% macro mm() %}}{{{{ {cf} }}}}{{% endmacro %}}{{{{ mm() }}}}{{% endfor %}}|after"), vec![]));
                sources.push((format!("{{% macro w() %}}({{{{ caller() }}}}){{% endmacro %}}{{% for x in {d} {rec}%}}{{% call w() %}}{{{{ {cf} }}}}{{% endcall %}}{{% endfor %}}|after"), vec![]));
                sources.push((format!("{{% macro mm(l, x) %}}[{{{{ {lv} }}}}]{{% endmacro %}}{{% for x in {d} {rec}%}}{{{{ mm(loop, x) }}}}{{% endfor %}}|after"), vec![]));
                sources.push((
                    format!("{{% from 'a.txt' import mm %}}{{% for x in {d} {rec}%}}{{{{ mm(loop, x) }}}}{{% endfor %}}|after"),
                    vec![(c("a.txt"), format!("{{% macro mm(l, x) %}}[{{{{ {lv} }}}}{{% for q in [1, 2] %}}{{{{ q }}}}{{% endfor %}}{{{{ [1, 2]|join(',') }}}}]{{% endmacro %}}"))],
                ));
                sources.push((
                    format!("{{% import 'a.txt' as lib %}}{{% for x in {d} {rec}%}}{{{{ lib.mm(loop, x) }}}}{{% endfor %}}|after"),
                    vec![(c("a.txt"), format!("{{% macro mm(l, x) %}}{{% for q in [1] %}}[{{{{ {lv} }}}}]{{% endfor %}}{{% endmacro %}}"))],
                ));
                sources.push((format!("{{% for x in {d} {rec}%}}{{% set outer = loop %}}{{% for y in [1] %}}{{{{ {ov} }}}}{{% endfor %}}{{% endfor %}}"), vec![]));
                sources.push((format!("{{% set ns = namespace(l=none) %}}{{% for x in {d} {rec}%}}{{% set ns.l = loop %}}{{% endfor %}}{{% set l = ns.l %}}{{% set x = [1] %}}[{{{{ {lv} }}}}]{{{{ ns.l.index }}}}{{{{ ns.l.cycle(1, 2) }}}}{{{{ ns.l.changed(1) }}}}"), vec![]));
                sources.push((format!("{{% for x in {d} {rec}%}}{{{{ [loop]|map('string')|list }}}}{{{{ loop|list }}}}{{{{ {{'k': loop}}|tojson }}}}{{{{ loop is callable }}}}{{% set l = loop %}}{{% filter upper %}}{{{{ {lv} }}}}{{% endfilter %}}{{% endfor %}}"), vec![]));
                sources.push((
                    format!("{{% extends 'a.txt' %}}{{% block body %}}{{% for x in {d} {rec}%}}{{{{ super() }}}}{{{{ {cf} }}}}{{% endfor %}}{{% endblock %}}"),
                    vec![(c("a.txt"), format!("[{{% block body %}}{{{{ {cf} }}}}{{% endblock %}}]"))],
                ));
            }
        }
    }
    sources
        .into_iter()
        .enumerate()
        .map(|(i, (source, companions))| RenderCase {
            main_name: "main.txt".into(),
            source,
            companions,
            ctx: None,
            undefined: (i % 4) as u8,
            debug: i % 2 == 0,
            stack_kib: if i % 3 == 0 { 2048 } else { 8192 },
            fuel: Some(100_000),
            as_expression: false,
        })
        .collect()
}

impl Part for LoopFlows {
    type Case = RenderCase;
    const NAME: &'static str = "loop_object_flows";

    fn strategy(_tier: Tier) -> BoxedStrategy<RenderCase> {
        let all = loop_flow_cases();
        (0..all.len()).prop_map(move |i| all[i].clone()).boxed()
    }

    fn enumeration(_tier: Tier) -> Vec<RenderCase> {
        loop_flow_cases()
    }

    fn check(c: &RenderCase) -> Verdict {
        let mut v = Render::check(c);
        v.labels.clear();
        v.nontrivial = true;
        v
    }

    fn show(c: &RenderCase) -> serde_json::Value {
        serde_json::json!({"source": c.source, "companions": c.companions})
    }

    fn shrink_candidates(c: &RenderCase) -> Vec<RenderCase> {
        Render::shrink_candidates(c)
    }
}

crate::declare_parts!(Render, Grid, Accumulators, LoopFlows);

pub fn replay_any(ctx: &mut Ctx, rf: &ReplayFile) -> bool {
    ctx.replay_isolated::<Render>(rf) || ctx.replay_isolated::<Grid>(rf) || ctx.replay_isolated::<Accumulators>(rf) || ctx.replay_isolated::<LoopFlows>(rf) || replay(ctx, rf)
}

pub fn run(ctx: &mut Ctx) {
    ctx.rule = "free-mode templates from a grammar over every statement and expression kind, every built-in filter/test/function/loop method with boundary arguments (0, +-1, 2^31, 2^63, 2^64, 2^127, 10^5+1, 2001 ...), companions a.txt/b.html/c.txt generated the same way (include/import/extends incl. cycles), 15% random character-level mutations (delete/insert delimiter/truncate), unparenthesised operator/postfix/elif ladders and statement nestings up to length 180, contexts of none/bool/int/float/string/list/map; run in worker processes of the debug (opt-level 0, overflow checks) and release builds on 2 MiB and 8 MiB threads; every returned error is formatted in all forms; part accumulators grows a namespace attribute over 6 000 - 120 000 loop steps with 15 step expressions (prepend/append/concatenate/chain/reverse/merge) and consumes it in 8 ways; part loop_object_flows enumerates 850 programs in which a (recursive) loop object is called from a block, an included template, a closure, a call block, a macro of the same and of an imported template, an inner loop, a filter block, or after its loop has ended. Oracle: the worker survives and no panic is caught. Non-trivial: the template loaded (the VM ran) or a syntax error was reported beyond line 0 of a source longer than 12 bytes. Distinct by case.".into();
    ctx.assumptions = vec![
        "worker address space is limited to 6 GiB so template-chosen allocation sizes fail fast; a watchdog hit (no progress for 60 s) is counted as inconclusive, not as a violation".into(),
        "ladder lengths are capped (120/180) so that the listed deep-recursion finding does not end every campaign; its witness is run separately".into(),
    ];
    let t = ctx.tier;
    for label in ["debug", "release"] {
        ctx.run_finding_witnesses_isolated::<Render>(label);
        ctx.run_regressions_isolated::<Render>(label);
    }
    ctx.run_enum_isolated::<Grid>("MJV_DBG", "debug", 30);
    ctx.run_enum_isolated::<Grid>("MJV_REL", "release", 30);
    ctx.run_enum_isolated::<LoopFlows>("MJV_DBG", "debug", 30);
    ctx.run_enum_isolated::<LoopFlows>("MJV_REL", "release", 30);
    ctx.run_enum_isolated::<Accumulators>("MJV_DBG", "debug", 120);
    ctx.run_enum_isolated::<Accumulators>("MJV_REL", "release", 120);
    ctx.run_part_isolated::<Render>("MJV_DBG", "debug", t.pick(60_000, 1_000_000), 30);
    ctx.run_part_isolated::<Render>("MJV_REL", "release", t.pick(200_000, 5_000_000), 30);
}
