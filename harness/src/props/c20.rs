//! C20 — the auto-reloader never loses a reload request.
use std::sync::atomic::{AtomicBool, AtomicU64, Ordering};
use std::sync::{Arc, Mutex};

use minijinja::Environment;
use minijinja_autoreload::{AutoReloader, Notifier};
use proptest::prelude::*;
use serde::{Deserialize, Serialize};

use crate::runner::{Ctx, Part, Tier, Verdict};

/// places where a request can be issued relative to one acquire_env call
pub const POINTS: [&str; 7] = [
    "before", // between the previous operation and this acquire
    "locked",
    "after_check",
    "after_reset",
    "in_creator",
    "after_rebuild",
    "before_return",
];

#[derive(Clone, Debug, Serialize, Deserialize)]
pub struct Schedule {
    /// per acquire: which points issue a request_reload
    pub acquires: Vec<Vec<bool>>,
    pub fast_reload: bool,
    /// 0 = no freshness callback, 1 = callback returning false, 2 = callback true once (armed before acquire #armed_at)
    pub callback: u8,
    pub armed_at: u8,
    /// the creator fails on its n-th invocation (0 = never)
    pub creator_fails_at: u8,
    /// ... by panicking (contained by the caller, as a worker thread or catch_unwind would)
    /// instead of returning an error
    #[serde(default)]
    pub creator_panics: bool,
}

#[derive(Default)]
struct World {
    clock: AtomicU64,
    creator_calls: AtomicU64,
    loader_calls: AtomicU64,
    /// start time of the creator run that produced the current environment
    created_at: AtomicU64,
    /// time of the last cache clear observed through the loader
    creator_running: AtomicBool,
    callback_armed: AtomicBool,
    in_creator_request: AtomicBool,
    fail_at: AtomicU64,
    fail_by_panic: AtomicBool,
    log: Mutex<Vec<String>>,
}

impl World {
    fn tick(&self) -> u64 {
        self.clock.fetch_add(1, Ordering::SeqCst) + 1
    }
}

pub struct Reloader;

fn run_schedule(s: &Schedule) -> Result<Vec<String>, (String, String)> {
    let w = Arc::new(World::default());
    w.fail_at.store(s.creator_fails_at as u64, Ordering::SeqCst);
    w.fail_by_panic.store(s.creator_panics, Ordering::SeqCst);
    let requests: Arc<Mutex<Vec<u64>>> = Arc::new(Mutex::new(vec![])); // return times
    // the same, never consumed (what justifies a creator call)
    let all_requests: Arc<Mutex<Vec<u64>>> = Arc::new(Mutex::new(vec![]));
    let mut last_reset: u64 = 0;
    let wc = w.clone();
    let reqc = requests.clone();
    let allc = all_requests.clone();
    let fast = s.fast_reload;
    let cb_mode = s.callback;
    let reloader = AutoReloader::new(move |notifier: Notifier| {
        let w = wc.clone();
        let start = w.tick();
        w.creator_running.store(true, Ordering::SeqCst);
        let n = w.creator_calls.fetch_add(1, Ordering::SeqCst) + 1;
        notifier.set_fast_reload(fast);
        if cb_mode > 0 {
            let w2 = w.clone();
            notifier.set_callback(move || w2.callback_armed.swap(false, Ordering::SeqCst));
        }
        if w.in_creator_request.swap(false, Ordering::SeqCst) {
            notifier.request_reload();
            let t = w.tick();
            reqc.lock().unwrap().push(t);
            allc.lock().unwrap().push(t);
        }
        if w.fail_at.load(Ordering::SeqCst) == n {
            w.creator_running.store(false, Ordering::SeqCst);
            if w.fail_by_panic.load(Ordering::SeqCst) {
                panic!("creator panicked");
            }
            return Err(minijinja::Error::new(minijinja::ErrorKind::InvalidOperation, "creator failed"));
        }
        let mut env = Environment::new();
        env.add_global("created_at", start);
        let w3 = w.clone();
        env.set_loader(move |name| {
            w3.loader_calls.fetch_add(1, Ordering::SeqCst);
            Ok(Some(format!("template {name}")))
        });
        w.created_at.store(start, Ordering::SeqCst);
        w.creator_running.store(false, Ordering::SeqCst);
        Ok(env)
    });
    let notifier = reloader.notifier();
    let mut problems: Vec<(String, String)> = vec![];
    // time from which the cached templates are known to be fresh (fast reload)
    let mut cache_fresh_since: u64;
    for (ai, points) in s.acquires.iter().enumerate() {
        if s.callback == 2 && s.armed_at as usize == ai {
            w.callback_armed.store(true, Ordering::SeqCst);
        }
        if points[0] {
            notifier.request_reload();
            let t = w.tick();
            requests.lock().unwrap().push(t);
            all_requests.lock().unwrap().push(t);
        }
        // requests at the interior yield points
        let plan: Vec<bool> = points.clone();
        let w2 = w.clone();
        let n2 = notifier.clone();
        let req2 = requests.clone();
        let all2 = all_requests.clone();
        w.in_creator_request.store(plan[4], Ordering::SeqCst);
        // logical time at which the reload flag had been reset in this acquire: the cache clear (or
        // the creator) runs after it, so it satisfies every request that returned before this time
        let reset_done_at = Arc::new(AtomicU64::new(0));
        let rda = reset_done_at.clone();
        // ... and the time right after the reset, before any request planned for that point
        let reset_at = Arc::new(AtomicU64::new(0));
        let ra = reset_at.clone();
        minijinja_autoreload::verif::set_yield_callback(Some(Box::new(move |name: &'static str| {
            let idx = POINTS.iter().position(|p| *p == name).unwrap_or(usize::MAX);
            if name == "after_reset" {
                ra.store(w2.tick(), Ordering::SeqCst);
            }
            if idx != 4 && idx < plan.len() && plan[idx] {
                n2.request_reload();
                let t = w2.tick();
                req2.lock().unwrap().push(t);
                all2.lock().unwrap().push(t);
            }
            if name == "after_reset" {
                rda.store(w2.tick(), Ordering::SeqCst);
            }
        })));
        let start = w.tick();
        let creator_before = w.creator_calls.load(Ordering::SeqCst);
        let pending_before: Vec<u64> = requests.lock().unwrap().iter().copied().filter(|t| *t < start).collect();
        let armed_before = w.callback_armed.load(Ordering::SeqCst);
        // a panic of the creator (or of a reloader that refuses to go on after one) is contained:
        // such an acquire hands out nothing
        let res = match std::panic::catch_unwind(std::panic::AssertUnwindSafe(|| reloader.acquire_env())) {
            Ok(r) => r,
            Err(_) => {
                minijinja_autoreload::verif::set_yield_callback(None);
                w.in_creator_request.store(false, Ordering::SeqCst);
                w.creator_running.store(false, Ordering::SeqCst);
                if !s.creator_panics || w.creator_calls.load(Ordering::SeqCst) < s.creator_fails_at as u64 {
                    problems.push(("acquire_panicked".into(), format!("acquire {ai} panicked although the creator did not")));
                }
                w.log.lock().unwrap().push(format!("acquire {ai} panicked"));
                if reset_at.load(Ordering::SeqCst) != 0 {
                    last_reset = reset_at.load(Ordering::SeqCst);
                }
                continue;
            }
        };
        minijinja_autoreload::verif::set_yield_callback(None);
        // a request planned for the creator that did not run is simply not issued
        w.in_creator_request.store(false, Ordering::SeqCst);
        let prev_last_reset = last_reset;
        if reset_at.load(Ordering::SeqCst) != 0 {
            last_reset = reset_at.load(Ordering::SeqCst);
        }
        match res {
            Err(e) => {
                w.log.lock().unwrap().push(format!("acquire {ai} failed: {e}"));
                if w.fail_at.load(Ordering::SeqCst) == 0 || w.creator_calls.load(Ordering::SeqCst) != w.fail_at.load(Ordering::SeqCst) {
                    problems.push(("acquire_failed".into(), format!("acquire {ai} failed although the creator did not: {e}")));
                }
                // the failed acquire handed out nothing: requests stay owed to the next one
                continue;
            }
            Ok(guard) => {
                let loader_before = w.loader_calls.load(Ordering::SeqCst);
                let stamp: u64 = guard
                    .get_template("probe.txt")
                    .ok()
                    .and_then(|_| guard.globals().find(|(k, _)| *k == "created_at").map(|(_, v)| v))
                    .and_then(|v| u64::try_from(v).ok())
                    .unwrap_or(0);
                let loader_hit = w.loader_calls.load(Ordering::SeqCst) > loader_before;
                // with fast reload a cleared cache shows as a fresh loader call at this acquire
                cache_fresh_since = if loader_hit { reset_done_at.load(Ordering::SeqCst).max(start) } else { 0 };
                let creator_ran = w.creator_calls.load(Ordering::SeqCst) > creator_before;
                // every request that returned before this acquire started must be reflected
                let mut owed: Vec<u64> = pending_before.clone();
                owed.retain(|t| {
                    let satisfied_by_creation = stamp > *t;
                    let satisfied_by_clear = s.fast_reload && cache_fresh_since > *t;
                    !(satisfied_by_creation || satisfied_by_clear)
                });
                if !owed.is_empty() {
                    problems.push((
                        "reload_request_lost".into(),
                        format!(
                            "acquire {ai} started at {start} after request(s) returned at {owed:?}, but its environment was created at {stamp}{}",
                            if s.fast_reload { format!(" and its template cache was not cleared (loader hit: {loader_hit})") } else { String::new() }
                        ),
                    ));
                }
                // satisfied requests are consumed (they are owed to the *next* acquire only)
                // (also those that arrived during this acquire but before its rebuild / cache clear)
                requests.lock().unwrap().retain(|t| *t >= start && !(stamp > *t || (s.fast_reload && cache_fresh_since > *t)));
                // without a request (and with the callback silent) the creator is not called again
                // (a request counts from the moment the reload flag was last reset: one that arrives
                // between the reset and the creator legitimately causes one more rebuild)
                let this_reset = reset_at.load(Ordering::SeqCst);
                let justified = all_requests.lock().unwrap().iter().any(|t| *t > prev_last_reset && (this_reset == 0 || *t < this_reset));
                if creator_ran && ai > 0 && !justified && !armed_before && s.creator_fails_at == 0 {
                    problems.push((
                        "creator_called_without_request".into(),
                        format!("acquire {ai}: the creator ran although no request was pending"),
                    ));
                }
                // while the guard is held the environment is not replaced, whatever is requested
                // (slot 7 of the acquire: a request issued under the held guard; schedules without
                // it leave later acquires free of pending requests, which is what makes the
                // "no creator call without a request" clause bite)
                let held_stamp = stamp;
                if points.get(7).copied().unwrap_or(false) {
                    notifier.request_reload();
                    let t = w.tick();
                    requests.lock().unwrap().push(t);
                    all_requests.lock().unwrap().push(t);
                }
                let again: u64 = guard
                    .globals()
                    .find(|(k, _)| *k == "created_at")
                    .and_then(|(_, v)| u64::try_from(v).ok())
                    .unwrap_or(0);
                if again != held_stamp || w.creator_running.load(Ordering::SeqCst) {
                    problems.push(("environment_replaced_under_guard".into(), format!("stamp {held_stamp} became {again} while the guard was held")));
                }
                // that extra request is part of the history: the next acquire owes it too
                drop(guard);
            }
        }
    }
    if let Some(p) = problems.into_iter().next() {
        return Err(p);
    }
    let log = w.log.lock().unwrap().clone();
    Ok(log)
}

impl Part for Reloader {
    type Case = Schedule;
    const NAME: &'static str = "reload_schedules";

    fn strategy(_tier: Tier) -> BoxedStrategy<Schedule> {
        (
            prop::collection::vec(prop::collection::vec(prop::bool::weighted(0.25), 8), 1..6),
            any::<bool>(),
            0u8..3,
            0u8..5,
            0u8..4,
            prop::bool::weighted(0.3),
        )
            .prop_map(|(acquires, fast_reload, callback, armed_at, creator_fails_at, creator_panics)| Schedule {
                acquires,
                fast_reload,
                callback,
                armed_at,
                creator_fails_at,
                creator_panics: creator_panics && creator_fails_at > 0,
            })
            .boxed()
    }

    fn check(s: &Schedule) -> Verdict {
        let interior = s.acquires.iter().any(|a| a[2] || a[3] || a[4] || a[5]);
        let mut v = Verdict::pass(interior);
        if s.acquires.iter().any(|a| a[4]) {
            v.labels.push("request_inside_creator");
        }
        if s.creator_fails_at > 0 {
            v.labels.push(if s.creator_panics { "creator_panics_once" } else { "creator_fails_once" });
        }
        match run_schedule(s) {
            Ok(_) => {}
            Err((sig, detail)) => v.set_fail(sig, format!("{detail}\nschedule: {s:?}")),
        }
        v
    }
}

/// all schedules with up to `max_acquires` acquires and up to `max_requests` requests
pub fn enumerate(max_acquires: usize, max_requests: usize) -> Vec<Schedule> {
    let mut out = vec![];
    for n in 1..=max_acquires {
        let slots = n * 8;
        // choose up to max_requests slots
        let choose = |k: usize, out: &mut Vec<Schedule>| {
            let mut idx: Vec<usize> = (0..k).collect();
            loop {
                let mut acquires = vec![vec![false; 8]; n];
                for &i in &idx {
                    acquires[i / 8][i % 8] = true;
                }
                for fast_reload in [false, true] {
                    for (callback, armed_at) in [(0u8, 0u8), (1, 0), (2, 1), (2, 2)] {
                        for (creator_fails_at, creator_panics) in [(0u8, false), (2, false), (2, true)] {
                            out.push(Schedule {
                                acquires: acquires.clone(),
                                fast_reload,
                                callback,
                                armed_at,
                                creator_fails_at,
                                creator_panics,
                            });
                        }
                    }
                }
                // next combination
                let mut i = k;
                loop {
                    if i == 0 {
                        return;
                    }
                    i -= 1;
                    if idx[i] != i + slots - k {
                        break;
                    }
                    if i == 0 {
                        return;
                    }
                }
                idx[i] += 1;
                for j in i + 1..k {
                    idx[j] = idx[j - 1] + 1;
                }
            }
        };
        for k in 0..=max_requests.min(slots) {
            if k == 0 {
                for fast_reload in [false, true] {
                    for (callback, armed_at) in [(0u8, 0u8), (1, 0), (2, 1), (2, 2)] {
                        for (creator_fails_at, creator_panics) in [(0u8, false), (2, false), (2, true)] {
                            out.push(Schedule {
                                acquires: vec![vec![false; 8]; n],
                                fast_reload,
                                callback,
                                armed_at,
                                creator_fails_at,
                                creator_panics,
                            });
                        }
                    }
                }
            } else {
                choose(k, &mut out);
            }
        }
    }
    out
}

// ------------------------------------------------------------------ real threads (smoke)

#[derive(Clone, Debug, Serialize, Deserialize)]
pub struct StressCase {
    pub threads: u8,
    pub ops: u16,
    pub fast_reload: bool,
}

pub struct ThreadStress;

impl Part for ThreadStress {
    type Case = StressCase;
    const NAME: &'static str = "thread_stress";

    fn strategy(_tier: Tier) -> BoxedStrategy<StressCase> {
        (2u8..5, 50u16..400, any::<bool>())
            .prop_map(|(threads, ops, fast_reload)| StressCase { threads, ops, fast_reload })
            .boxed()
    }

    fn check(c: &StressCase) -> Verdict {
        // requesting threads record the creator count they saw when their request returned; an
        // acquire that starts afterwards on the same thread must see a later creation (or clear)
        let creations = Arc::new(AtomicU64::new(0));
        let clears = Arc::new(AtomicU64::new(0));
        let cr = creations.clone();
        let fast = c.fast_reload;
        let cl = clears.clone();
        let reloader = Arc::new(AutoReloader::new(move |n: Notifier| {
            n.set_fast_reload(fast);
            let stamp = cr.fetch_add(1, Ordering::SeqCst) + 1;
            let mut env = Environment::new();
            env.add_global("stamp", stamp);
            let cl2 = cl.clone();
            env.set_loader(move |name| {
                cl2.fetch_add(1, Ordering::SeqCst);
                Ok(Some(format!("t {name}")))
            });
            Ok(env)
        }));
        let failed = Arc::new(Mutex::new(None::<String>));
        let mut handles = vec![];
        for t in 0..c.threads {
            let r = reloader.clone();
            let creations = creations.clone();
            let clears = clears.clone();
            let failed = failed.clone();
            let ops = c.ops;
            handles.push(std::thread::spawn(move || {
                for i in 0..ops {
                    if (i + t as u16) % 3 == 0 {
                        let before_creations = creations.load(Ordering::SeqCst);
                        let before_loads = clears.load(Ordering::SeqCst);
                        r.notifier().request_reload();
                        let env = r.acquire_env().unwrap();
                        let _ = env.get_template("x.txt");
                        let stamp = env
                            .globals()
                            .find(|(k, _)| *k == "stamp")
                            .and_then(|(_, v)| u64::try_from(v).ok())
                            .unwrap_or(0);
                        let fresh = if fast {
                            clears.load(Ordering::SeqCst) > before_loads || stamp > before_creations
                        } else {
                            stamp > before_creations
                        };
                        if !fresh {
                            *failed.lock().unwrap() = Some(format!(
                                "thread {t} op {i}: after its own request the acquired environment has stamp {stamp}, creations before the request: {before_creations}"
                            ));
                        }
                    } else {
                        let env = r.acquire_env().unwrap();
                        let _ = env.get_template("x.txt");
                    }
                }
            }));
        }
        for h in handles {
            let _ = h.join();
        }
        let mut v = Verdict::pass(true);
        if let Some(f) = failed.lock().unwrap().take() {
            v.set_fail("reload_request_lost_threads", f);
        }
        v
    }
}


// ------------------------------------------------------------------ real threads: acquirers queued behind a held guard

/// k threads call acquire_env while the calling thread still holds a guard and exactly r reload
/// requests are pending: whatever the interleaving, the creator runs at most once more per
/// request made since the environment was built ("without a request the creator function is not
/// called again"), every acquirer gets an environment younger than the requests, and all of them
/// get the same one when nothing else was requested. Timing only decides how the threads
/// interleave, never what is accepted.
#[derive(Clone, Debug, Serialize, Deserialize)]
pub struct QueueCase {
    pub acquirers: u8,
    pub requests: u8,
    pub rounds: u8,
    pub hold_ms: u8,
}

pub struct QueuedAcquirers;

impl Part for QueuedAcquirers {
    type Case = QueueCase;
    const NAME: &'static str = "acquirers_queued_behind_a_guard";

    fn strategy(_tier: Tier) -> BoxedStrategy<QueueCase> {
        (2u8..5, 0u8..3, 2u8..6, 1u8..6).prop_map(|(acquirers, requests, rounds, hold_ms)| QueueCase { acquirers, requests, rounds, hold_ms }).boxed()
    }

    fn check(c: &QueueCase) -> Verdict {
        let creations = Arc::new(AtomicU64::new(0));
        let cr = creations.clone();
        let reloader = Arc::new(AutoReloader::new(move |_n: Notifier| {
            let stamp = cr.fetch_add(1, Ordering::SeqCst) + 1;
            let mut env = Environment::new();
            env.add_global("stamp", stamp);
            Ok(env)
        }));
        let stamp_of = |env: &Environment<'static>| env.globals().find(|(k, _)| *k == "stamp").and_then(|(_, v)| u64::try_from(v).ok()).unwrap_or(0);
        let mut v = Verdict::pass(c.requests > 0);
        for round in 0..c.rounds {
            let guard = reloader.acquire_env().unwrap();
            let held_stamp = stamp_of(&guard);
            let before = creations.load(Ordering::SeqCst);
            for _ in 0..c.requests {
                reloader.notifier().request_reload();
            }
            let handles: Vec<_> = (0..c.acquirers)
                .map(|_| {
                    let r = reloader.clone();
                    std::thread::spawn(move || {
                        let env = r.acquire_env().unwrap();
                        let stamp = env.globals().find(|(k, _)| *k == "stamp").and_then(|(_, v)| u64::try_from(v).ok()).unwrap_or(0);
                        drop(env);
                        stamp
                    })
                })
                .collect();
            // let the acquirers reach the lock the guard holds
            std::thread::sleep(std::time::Duration::from_millis(c.hold_ms as u64));
            if stamp_of(&guard) != held_stamp {
                v.set_fail("environment_replaced_under_guard", format!("round {round}: the held environment changed its stamp\ncase: {c:?}"));
            }
            drop(guard);
            let stamps: Vec<u64> = handles.into_iter().map(|h| h.join().unwrap()).collect();
            let after = creations.load(Ordering::SeqCst);
            let allowed = if c.requests > 0 { 1 } else { 0 };
            if after - before > allowed {
                v.set_fail(
                    "creator_called_without_request",
                    format!("round {round}: {} request(s) were pending and {} threads acquired; the creator ran {} times (stamps handed out: {stamps:?})\ncase: {c:?}", c.requests, c.acquirers, after - before),
                );
                return v;
            }
            if c.requests > 0 && stamps.iter().any(|s| *s <= held_stamp) {
                v.set_fail("reload_request_lost_threads", format!("round {round}: after a request an acquirer got stamp {stamps:?}, the environment before the request had {held_stamp}\ncase: {c:?}"));
                return v;
            }
        }
        v
    }
}


// ------------------------------------------------------------------ real threads: a request while the notifier is busy

/// Thread B calls request_reload() while thread A's acquire_env() is inside the freshness
/// callback (the notifier is locked there, so B has to wait for it). However the two interleave,
/// the request has returned before the next acquire starts, so that acquire must rebuild.
#[derive(Clone, Debug, Serialize, Deserialize)]
pub struct BusyCase {
    pub fast_reload: bool,
    pub rounds: u8,
    pub linger_ms: u8,
}

pub struct RequestWhileBusy;

impl Part for RequestWhileBusy {
    type Case = BusyCase;
    const NAME: &'static str = "request_while_notifier_is_busy";

    fn strategy(_tier: Tier) -> BoxedStrategy<BusyCase> {
        (any::<bool>(), 1u8..4, 1u8..8).prop_map(|(fast_reload, rounds, linger_ms)| BusyCase { fast_reload, rounds, linger_ms }).boxed()
    }

    fn check(c: &BusyCase) -> Verdict {
        use std::sync::mpsc;
        let creations = Arc::new(AtomicU64::new(0));
        let loads = Arc::new(AtomicU64::new(0));
        // the callback tells the requester when it runs and waits for the requester to get going
        let (in_cb_tx, in_cb_rx) = mpsc::channel::<()>();
        let (go_tx, go_rx) = mpsc::channel::<()>();
        let in_cb_tx = Arc::new(Mutex::new(in_cb_tx));
        let go_rx = Arc::new(Mutex::new(go_rx));
        let armed = Arc::new(AtomicBool::new(false));
        let (cr, ld, fast, linger) = (creations.clone(), loads.clone(), c.fast_reload, c.linger_ms);
        let (a2, tx2, rx2) = (armed.clone(), in_cb_tx.clone(), go_rx.clone());
        let reloader = Arc::new(AutoReloader::new(move |n: Notifier| {
            n.set_fast_reload(fast);
            let (a3, tx3, rx3) = (a2.clone(), tx2.clone(), rx2.clone());
            n.set_callback(move || {
                if a3.swap(false, Ordering::SeqCst) {
                    let _ = tx3.lock().unwrap().send(());
                    let _ = rx3.lock().unwrap().recv_timeout(std::time::Duration::from_millis(500));
                    std::thread::sleep(std::time::Duration::from_millis(linger as u64));
                }
                false
            });
            let stamp = cr.fetch_add(1, Ordering::SeqCst) + 1;
            let mut env = Environment::new();
            env.add_global("stamp", stamp);
            let ld2 = ld.clone();
            env.set_loader(move |name| {
                ld2.fetch_add(1, Ordering::SeqCst);
                Ok(Some(format!("t {name}")))
            });
            Ok(env)
        }));
        let stamp_of = |env: &Environment<'static>| env.globals().find(|(k, _)| *k == "stamp").and_then(|(_, v)| u64::try_from(v).ok()).unwrap_or(0);
        let mut v = Verdict::pass(true);
        {
            let first = reloader.acquire_env().unwrap();
            let _ = first.get_template("probe.txt");
        }
        for round in 0..c.rounds {
            let before_creations = creations.load(Ordering::SeqCst);
            armed.store(true, Ordering::SeqCst);
            let r2 = reloader.clone();
            let notifier = reloader.notifier();
            std::thread::scope(|sc| {
                let acq = sc.spawn(move || {
                    let env = r2.acquire_env().unwrap();
                    let _ = env.get_template("probe.txt");
                });
                // this thread is the requester: wait until the acquirer is inside the freshness
                // callback (which holds the notifier), announce itself, request
                let _ = in_cb_rx.recv_timeout(std::time::Duration::from_millis(500));
                let _ = go_tx.send(());
                notifier.request_reload();
                let _ = acq.join();
            });
            // the request has returned: the next acquire must hand out something younger
            let loads_before = loads.load(Ordering::SeqCst);
            let env = reloader.acquire_env().unwrap();
            let _ = env.get_template("probe.txt");
            let stamp = stamp_of(&env);
            let fresh = stamp > before_creations || (c.fast_reload && loads.load(Ordering::SeqCst) > loads_before);
            if !fresh {
                v.set_fail(
                    "reload_request_lost_threads",
                    format!("round {round}: request_reload() returned while another thread's acquire_env was polling the freshness callback, but the next acquire_env handed out the environment with stamp {stamp} (creations before the request: {before_creations}) and did not clear the cache\ncase: {c:?}"),
                );
                return v;
            }
        }
        v
    }
}


crate::declare_parts!(Reloader, ThreadStress, QueuedAcquirers, RequestWhileBusy);

pub fn run(ctx: &mut Ctx) {
    ctx.rule = "schedules at the granularity of the reloader's lock acquisitions: up to 3 acquire_env calls (thorough: 4) with up to 3 request_reload calls placed before the acquire, right after the cache lock, between the reload check and the flag reset, between the reset and the creator, inside the creator (through the notifier handed to it), after the rebuild, before the guard is returned (verif_hooks yield points) and while the returned guard is held, x fast reload on/off x freshness callback absent / false / true-once x creator failing on its second call (by returning an error, or by panicking with the panic contained by the caller: such an acquire - and any later one that refuses to continue - hands out nothing): enumerated completely; proptest samples longer schedules (up to 5 acquires). Oracle: a logical clock; for every request that returned at t, the first successful acquire that started after t returns an environment whose creator started after t (or, with fast reload, whose template cache was cleared, observed as a loader call); while a guard is held the stamp does not change and the creator is not running; without a pending request the creator is not called again. A real-thread stress run (2-4 threads) is a smoke test; a second real-thread part queues 2-4 acquirers behind a held guard with 0-2 pending requests: at most one rebuild per request, whatever the interleaving. Non-trivial: a request at an interior yield point or inside the creator. Distinct by schedule.".into();
    ctx.assumptions = vec![
        "file-change notifications set the same flag under the same lock as request_reload and are represented by it".into(),
        "interleavings are produced on one thread through the hook callback; the real-thread part only samples".into(),
    ];
    preamble(ctx);
    let t = ctx.tier;
    let (a, r) = t.pick((3, 3), (4, 3));
    ctx.run_enumerated::<Reloader>(enumerate(a, r), true);
    ctx.run_part::<Reloader>(t.pick(20_000, 20_000_000));
    ctx.run_part::<ThreadStress>(t.pick(40, 1_000));
    ctx.run_part::<QueuedAcquirers>(t.pick(300, 6_000));
    ctx.run_part::<RequestWhileBusy>(t.pick(150, 3_000));
}
