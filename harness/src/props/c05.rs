//! C05 — scoped constructs restore scope, capture and escape state on every path.
use minijinja::{Environment, Value};
use proptest::prelude::*;
use serde::{Deserialize, Serialize};

use crate::gen::ast::*;
use crate::gen::print;
use crate::runner::{Ctx, Part, Tier, Verdict};

/// A scoped-construct skeleton; conditions and loop lengths are context driven.
#[derive(Clone, Debug, Serialize, Deserialize)]
pub enum Node {
    /// plain text marker
    Mark,
    For {
        els: bool,
        filter: bool,
        recursive: bool,
        body: Vec<Node>,
        else_body: Vec<Node>,
        /// how a recursive loop calls itself at the end of its body: 0 not at all, 1 `{{ loop(x) }}`,
        /// 2 the result assigned and printed, 3 the result filtered, 4 / 5 the result used as a
        /// value with a lazy argument of unknown length that is empty / not empty
        #[serde(default)]
        rec_call: u8,
    },
    With(Vec<Node>),
    SetBlock(Vec<Node>),
    FilterBlock(Vec<Node>),
    AutoEscape(bool, Vec<Node>),
    If(Vec<Node>, Vec<Node>),
    MacroCall(Vec<Node>),
    CallBlock(Vec<Node>),
    Block(Vec<Node>),
    /// a block whose own body assigns nothing (whatever an include inside it assigns must still
    /// stay inside)
    BlockBare(Vec<Node>),
    Include,
    /// include of a template that itself extends a layout
    IncludeExtending,
    /// `from` import out of a template that itself extends a layout (its body runs with the
    /// output discarded)
    FromImportExtending,
    /// plain import of such a template
    ImportExtending,
    Break,
    Continue,
    Assign,
}

#[derive(Clone, Debug, Serialize, Deserialize)]
pub struct ScopeCase {
    pub nodes: Vec<Node>,
    pub html: bool,
    /// seed selecting which paths are driven when there are more than the cap
    pub path_seed: u64,
}

struct Builder {
    n_cond: usize,
    n_list: usize,
    n_id: usize,
    in_loop: bool,
    in_macro: bool,
    blocks: usize,
    n_probe: usize,
}

impl Builder {
    fn id(&mut self) -> usize {
        self.n_id += 1;
        self.n_id
    }
    fn cond(&mut self) -> Expr {
        self.n_cond += 1;
        Expr::Var(format!("c{}", self.n_cond))
    }
    fn list(&mut self) -> Expr {
        self.n_list += 1;
        Expr::Var(format!("l{}", self.n_list))
    }

    fn body(&mut self, nodes: &[Node]) -> Vec<Stmt> {
        let mut out = vec![];
        for n in nodes {
            // escape-state probes around every nested scoped construct: what `"<"` renders as
            // right before it and right after it (on the paths that reach both) must agree
            let scoped = !matches!(n, Node::Mark | Node::Assign | Node::Break | Node::Continue | Node::Include | Node::IncludeExtending | Node::FromImportExtending | Node::ImportExtending);
            let pid = if scoped {
                self.n_probe += 1;
                let pid = self.n_probe;
                out.push(Stmt::Text(format!("\u{27e6}p{pid}:")));
                out.push(Stmt::Emit(Expr::str("<")));
                out.push(Stmt::Text("\u{27e7}".into()));
                Some(pid)
            } else {
                None
            };
            self.node(n, &mut out);
            if let Some(pid) = pid {
                out.push(Stmt::Text(format!("\u{27e6}r{pid}:")));
                out.push(Stmt::Emit(Expr::str("<")));
                out.push(Stmt::Text("\u{27e7}".into()));
            }
        }
        out
    }

    /// nested construct: inner marker before/after so that every path writes something
    fn node(&mut self, n: &Node, out: &mut Vec<Stmt>) {
        let k = self.id();
        let inner_mark = |k: usize, tag: &str| Stmt::Text(format!("\u{2039}{k}{tag}\u{203a}"));
        match n {
            Node::Mark => out.push(inner_mark(k, "")),
            Node::Assign => out.push(Stmt::Set {
                target: Target::Name(format!("q{k}")),
                value: Expr::Int("1".into()),
            }),
            Node::Break => {
                if self.in_loop {
                    let c = self.cond();
                    out.push(Stmt::If {
                        branches: vec![(c, vec![Stmt::Break])],
                        else_: None,
                    });
                }
            }
            Node::Continue => {
                if self.in_loop {
                    let c = self.cond();
                    out.push(Stmt::If {
                        branches: vec![(c, vec![Stmt::Continue])],
                        else_: None,
                    });
                }
            }
            Node::For { els, filter, recursive, body, else_body, rec_call } => {
                let iter = self.list();
                let filter = if *filter { Some(self.cond()) } else { None };
                let was = std::mem::replace(&mut self.in_loop, true);
                let mut b = vec![Stmt::Set {
                    target: Target::Name(format!("q{k}")),
                    value: Expr::Int("1".into()),
                }];
                b.push(inner_mark(k, "f"));
                b.extend(self.body(body));
                if *recursive && *rec_call > 0 {
                    let x = Expr::var(&format!("x{k}"));
                    let call = |arg: Expr| Expr::Call(Box::new(Expr::var("loop")), vec![Arg::Pos(arg)]);
                    let rec: Vec<Stmt> = match *rec_call % 6 {
                        1 => vec![Stmt::Emit(call(x.clone()))],
                        2 => vec![Stmt::Set { target: Target::Name(format!("r{k}")), value: call(x.clone()) }, Stmt::Emit(Expr::var(&format!("r{k}")))],
                        3 => vec![Stmt::Emit(call(x.clone()).filter("upper", vec![]))],
                        // `a|chain(a|reverse)` is a lazy iterable of unknown length; over an empty slice it
                        // yields nothing
                        4 => {
                            let empty = Expr::Slice(Box::new(x.clone()), Some(Box::new(Expr::int(9))), None, None);
                            let arg = empty.clone().filter("chain", vec![Arg::Pos(empty.filter("reverse", vec![]))]);
                            vec![Stmt::Emit(call(arg).filter("string", vec![]))]
                        }
                        _ => {
                            let arg = x.clone().filter("chain", vec![Arg::Pos(x.clone().filter("reverse", vec![]))]);
                            vec![Stmt::Emit(call(arg).filter("string", vec![]))]
                        }
                    };
                    b.push(Stmt::If { branches: vec![(Expr::Test(Box::new(x), "sequence".into(), vec![], false), rec)], else_: None });
                }
                self.in_loop = was;
                // the else block is outside of the loop
                let e = if *els { Some(self.body(else_body)) } else { None };
                out.push(Stmt::For {
                    target: Target::Name(format!("x{k}")),
                    iter,
                    filter,
                    recursive: *recursive,
                    body: b,
                    else_: e,
                });
            }
            Node::With(body) => {
                let mut b = vec![inner_mark(k, "w")];
                b.extend(self.body(body));
                out.push(Stmt::With {
                    bindings: vec![(Target::Name(format!("q{k}")), Expr::Int("1".into()))],
                    body: b,
                });
            }
            Node::SetBlock(body) => {
                let mut b = vec![inner_mark(k, "s")];
                b.extend(self.body(body));
                out.push(Stmt::SetBlock {
                    name: format!("cap{k}"),
                    filter: None,
                    body: b,
                });
            }
            Node::FilterBlock(body) => {
                let mut b = vec![inner_mark(k, "u")];
                b.extend(self.body(body));
                out.push(Stmt::FilterBlock {
                    name: "upper".into(),
                    args: vec![],
                    body: b,
                });
            }
            Node::AutoEscape(on, body) => {
                let mut b = vec![inner_mark(k, "a")];
                b.extend(self.body(body));
                out.push(Stmt::AutoEscape {
                    value: Expr::Bool(*on),
                    body: b,
                });
            }
            Node::If(t, e) => {
                let c = self.cond();
                let tb = self.body(t);
                let eb = self.body(e);
                out.push(Stmt::If {
                    branches: vec![(c, tb)],
                    else_: if eb.is_empty() { None } else { Some(eb) },
                });
            }
            Node::MacroCall(body) => {
                let was_loop = std::mem::replace(&mut self.in_loop, false);
                let was_macro = std::mem::replace(&mut self.in_macro, true);
                let mut b = vec![
                    Stmt::Set {
                        target: Target::Name(format!("q{k}")),
                        value: Expr::Int("1".into()),
                    },
                    inner_mark(k, "m"),
                ];
                b.extend(self.body(body));
                self.in_loop = was_loop;
                self.in_macro = was_macro;
                out.push(Stmt::Macro {
                    name: format!("mac{k}"),
                    params: vec![],
                    body: b,
                });
                out.push(Stmt::Emit(Expr::call(&format!("mac{k}"), vec![])));
            }
            Node::CallBlock(body) => {
                let was_loop = std::mem::replace(&mut self.in_loop, false);
                let was_macro = std::mem::replace(&mut self.in_macro, true);
                let mut b = vec![
                    Stmt::Set {
                        target: Target::Name(format!("q{k}")),
                        value: Expr::Int("1".into()),
                    },
                    inner_mark(k, "c"),
                ];
                b.extend(self.body(body));
                self.in_loop = was_loop;
                self.in_macro = was_macro;
                out.push(Stmt::CallBlock {
                    params: vec![],
                    call: Expr::call("callhelper", vec![]),
                    body: b,
                });
            }
            Node::Block(body) | Node::BlockBare(body) => {
                if self.in_macro {
                    // blocks are not allowed inside macros
                    let b = self.body(body);
                    out.extend(b);
                    return;
                }
                self.blocks += 1;
                let block_no = self.blocks;
                let was_loop = std::mem::replace(&mut self.in_loop, false);
                let mut b = vec![
                    Stmt::Set {
                        target: Target::Name(format!("q{k}")),
                        value: Expr::Int("1".into()),
                    },
                    inner_mark(k, "b"),
                ];
                if matches!(n, Node::BlockBare(_)) {
                    b.remove(0);
                }
                b.extend(self.body(body));
                self.in_loop = was_loop;
                out.push(Stmt::Block {
                    name: format!("blk{block_no}"),
                    scoped: true,
                    required: false,
                    body: b,
                });
            }
            Node::IncludeExtending => out.push(Stmt::Include {
                name: Expr::str("ext.txt"),
                ignore_missing: false,
            }),
            Node::FromImportExtending => {
                out.push(Stmt::FromImport { name: Expr::str("ext.txt"), names: vec![("extmac".into(), Some(format!("em{k}")))] });
                out.push(Stmt::Emit(Expr::call(&format!("em{k}"), vec![])));
            }
            Node::ImportExtending => {
                out.push(Stmt::Import { name: Expr::str("ext.txt"), alias: format!("emod{k}") });
                out.push(Stmt::Emit(Expr::Call(Box::new(Expr::Attr(Box::new(Expr::var(&format!("emod{k}"))), "extmac".into())), vec![])));
            }
            Node::Include => out.push(Stmt::Include {
                name: Expr::str("inc.txt"),
                ignore_missing: false,
            }),
        }
    }
}

fn isolates(n: &Node) -> bool {
    matches!(n, Node::For { .. } | Node::With(_) | Node::MacroCall(_) | Node::CallBlock(_) | Node::Block(_) | Node::BlockBare(_))
}

/// can an include inside these nodes run in the scope the nodes themselves run in (not shielded by
/// a construct with a scope of its own)? The included template assigns `incleak` at its top level.
fn include_unshielded(nodes: &[Node]) -> bool {
    nodes.iter().any(|n| match n {
        Node::Include => true,
        Node::For { else_body, .. } => include_unshielded(else_body),
        Node::SetBlock(b) | Node::FilterBlock(b) | Node::AutoEscape(_, b) => include_unshielded(b),
        Node::If(a, b) => include_unshielded(a) || include_unshielded(b),
        _ => false,
    })
}

fn contains_include(nodes: &[Node]) -> bool {
    nodes.iter().any(|n| match n {
        Node::Include => true,
        Node::For { body, else_body, .. } => contains_include(body) || contains_include(else_body),
        Node::With(b) | Node::SetBlock(b) | Node::FilterBlock(b) | Node::AutoEscape(_, b) | Node::MacroCall(b) | Node::CallBlock(b) | Node::Block(b) | Node::BlockBare(b) => contains_include(b),
        Node::If(a, b) => contains_include(a) || contains_include(b),
        _ => false,
    })
}

/// builds the template source; returns (source, number of conditions, number of lists,
/// expected top-level sentinels as (id, isolates))
pub fn build(c: &ScopeCase) -> (String, usize, usize, Vec<(usize, bool)>) {
    let mut b = Builder {
        n_cond: 0,
        n_list: 0,
        n_id: 0,
        in_loop: false,
        in_macro: false,
        blocks: 0,
        n_probe: 0,
    };
    let mut top: Vec<Stmt> = vec![Stmt::Macro {
        name: "callhelper".into(),
        params: vec![],
        body: vec![Stmt::Text("(".into()), Stmt::Emit(Expr::call("caller", vec![])), Stmt::Text(")".into())],
    }];
    top.push(Stmt::Set {
        target: Target::Name("keep".into()),
        value: Expr::str("kept"),
    });
    let mut sentinels = vec![];
    for n in &c.nodes {
        let before = b.n_id + 1; // id the construct itself will get
        b.node(n, &mut top);
        // sentinel: text written after the construct must reach the output, escaping must be the
        // template's initial mode, assignments made inside isolating constructs must be gone,
        // earlier assignments must survive
        let sid = before;
        sentinels.push((sid, isolates(n)));
        top.push(Stmt::Text(format!("\u{ab}{sid}:")));
        top.push(Stmt::Emit(Expr::str("<")));
        top.push(Stmt::Text(":".into()));
        top.push(Stmt::Emit(Expr::Test(Box::new(Expr::Var(format!("q{sid}"))), "defined".into(), vec![], false)));
        top.push(Stmt::Text(":".into()));
        top.push(Stmt::Emit(Expr::var("keep")));
        top.push(Stmt::Text(":".into()));
        top.push(Stmt::Emit(Expr::Test(Box::new(Expr::var("incleak")), "defined".into(), vec![], false)));
        top.push(Stmt::Text("\u{bb}".into()));
    }
    (print::template_default(&top), b.n_cond, b.n_list, sentinels)
}

const INCLUDED: &str = "{% set incleak = 1 %}{% for z in [1, 2, 3] %}{% with t = z %}{% if z == 2 %}{% continue %}{% endif %}{% set cap %}{% if z == 3 %}{% break %}{% endif %}i{% endset %}{% endwith %}{% endfor %}\u{2039}inc\u{203a}";

pub struct Scopes;

fn nodes(depth: u32) -> BoxedStrategy<Vec<Node>> {
    prop::collection::vec(node(depth), 0..4).boxed()
}

fn node(depth: u32) -> BoxedStrategy<Node> {
    let leaf = prop_oneof![
        2 => Just(Node::Mark),
        3 => Just(Node::Break),
        3 => Just(Node::Continue),
        1 => Just(Node::Assign),
        1 => Just(Node::Include),
        1 => prop_oneof![Just(Node::IncludeExtending), Just(Node::FromImportExtending), Just(Node::ImportExtending)],
    ];
    if depth == 0 {
        return leaf.boxed();
    }
    let sub = || nodes(depth - 1);
    prop_oneof![
        4 => leaf,
        4 => (any::<bool>(), prop::bool::weighted(0.2), prop::bool::weighted(0.3), sub(), sub())
            .prop_flat_map(|(els, filter, recursive, body, else_body)| (Just((els, filter, recursive, body, else_body)), 0u8..6))
            .prop_map(|((els, filter, recursive, body, else_body), rec_call)| Node::For { els, filter, recursive, body, else_body, rec_call }),
        2 => sub().prop_map(Node::With),
        2 => sub().prop_map(Node::SetBlock),
        2 => sub().prop_map(Node::FilterBlock),
        2 => (any::<bool>(), sub()).prop_map(|(on, b)| Node::AutoEscape(on, b)),
        2 => (sub(), sub()).prop_map(|(a, b)| Node::If(a, b)),
        1 => sub().prop_map(Node::MacroCall),
        1 => sub().prop_map(Node::CallBlock),
        1 => sub().prop_map(Node::Block),
        1 => sub().prop_map(Node::BlockBare),
    ]
    .boxed()
}

fn has_separated_exit(nodes: &[Node], in_loop: bool, scoped_between: bool) -> bool {
    nodes.iter().any(|n| match n {
        Node::Break | Node::Continue => in_loop && scoped_between,
        Node::For { body, else_body, .. } => has_separated_exit(body, true, false) || has_separated_exit(else_body, in_loop, scoped_between),
        Node::With(b) | Node::SetBlock(b) | Node::FilterBlock(b) | Node::AutoEscape(_, b) => has_separated_exit(b, in_loop, in_loop),
        Node::If(a, b) => has_separated_exit(a, in_loop, scoped_between) || has_separated_exit(b, in_loop, scoped_between),
        Node::MacroCall(b) | Node::CallBlock(b) | Node::Block(b) | Node::BlockBare(b) => has_separated_exit(b, false, false),
        _ => false,
    })
}

impl Part for Scopes {
    type Case = ScopeCase;
    const NAME: &'static str = "scope_capture_escape_balance";

    fn strategy(tier: Tier) -> BoxedStrategy<ScopeCase> {
        (prop::collection::vec(node(tier.pick(3, 4)), 1..4), any::<bool>(), any::<u64>())
            .prop_map(|(nodes, html, path_seed)| ScopeCase { nodes, html, path_seed })
            .boxed()
    }

    fn check(c: &ScopeCase) -> Verdict {
        let (source, n_cond, n_list, sentinels) = build(c);
        let mut env = Environment::new();
        env.set_fuel(Some(200_000));
        let name = if c.html { "t.html" } else { "t.txt" };
        env.add_template_owned("inc.txt".to_string(), INCLUDED.to_string()).unwrap();
        env.add_template_owned(
            "ext.txt".to_string(),
            "{% extends 'extbase.txt' %}dropped{% macro extmac() %}\u{2039}em\u{203a}{% endmacro %}{% block eb %}\u{2039}ext\u{203a}{{ super() }}{% endblock %}".to_string(),
        )
        .unwrap();
        env.add_template_owned("extbase.txt".to_string(), "\u{2039}eb(\u{203a}{% block eb %}\u{2039}base\u{203a}{% endblock %}\u{2039})\u{203a}".to_string()).unwrap();
        let mut v = Verdict::pass(has_separated_exit(&c.nodes, false, false));
        // after which top-level constructs `incleak` may legitimately be defined
        let mut leak_possible = vec![];
        let mut seen = false;
        for n in &c.nodes {
            seen = seen || include_unshielded(std::slice::from_ref(n));
            leak_possible.push(seen);
        }
        fn has_rec(nodes: &[Node]) -> bool {
            nodes.iter().any(|n| match n {
                Node::For { recursive, rec_call, body, else_body, .. } => (*recursive && *rec_call > 0) || has_rec(body) || has_rec(else_body),
                Node::With(b) | Node::SetBlock(b) | Node::FilterBlock(b) | Node::AutoEscape(_, b) | Node::MacroCall(b) | Node::CallBlock(b) | Node::Block(b) | Node::BlockBare(b) => has_rec(b),
                Node::If(a, b) => has_rec(a) || has_rec(b),
                _ => false,
            })
        }
        if has_rec(&c.nodes) {
            v.labels.push("recursive_loop_call");
        }
        if contains_include(&c.nodes) && !seen {
            v.labels.push("include_only_inside_scoped_constructs");
            v.nontrivial = true;
        }
        if let Err(e) = env.add_template_owned(name.to_string(), source.clone()) {
            v.set_fail("generated_template_rejected", format!("{e}\nsource: {source}"));
            return v;
        }
        let t = env.get_template(name).unwrap();
        // all paths: every assignment of the booleans and list lengths 0/1/2, capped
        let total: u128 = (1u128 << n_cond.min(100)) * 3u128.pow(n_list.min(60) as u32);
        let cap: u64 = 160;
        let exhaustive = total <= cap as u128;
        if exhaustive {
            v.labels.push("all_paths_driven");
        } else {
            v.labels.push("paths_sampled");
        }
        let n_paths = if exhaustive { total as u64 } else { cap };
        let mut rng = c.path_seed | 1;
        for p in 0..n_paths {
            // path p -> assignment
            let mut code: u128 = if exhaustive {
                p as u128
            } else {
                rng ^= rng << 13;
                rng ^= rng >> 7;
                rng ^= rng << 17;
                (rng as u128) | ((rng.rotate_left(29) as u128) << 64)
            };
            let mut pairs: Vec<(String, Value)> = vec![];
            for i in 1..=n_cond {
                pairs.push((format!("c{i}"), Value::from(code & 1 == 1)));
                code >>= 1;
                if !exhaustive && i % 100 == 0 {
                    code = rng as u128;
                }
            }
            for i in 1..=n_list {
                let len = (code % 3) as usize;
                code /= 3;
                // recursive loops iterate nested data
                let items: Vec<Value> = (0..len).map(|j| Value::from(vec![Value::from(j as i64)])).collect();
                pairs.push((format!("l{i}"), Value::from(items)));
            }
            let desc = format!("{:?}", pairs.iter().map(|(k, v)| format!("{k}={v}")).collect::<Vec<_>>());
            let _ = minijinja::verif::take_balance_reports();
            let res = t.render(Value::from_pairs(pairs));
            let reports = minijinja::verif::take_balance_reports();
            let out = match res {
                Ok(o) => o,
                Err(e) => {
                    v.set_fail("generated_template_fails", format!("{e:#}\npath {desc}\nsource: {source}"));
                    return v;
                }
            };
            if !reports.is_empty() {
                v.set_fail(
                    "balance_report",
                    format!("the engine's balance monitor reported {reports:?}\npath {desc}\nsource: {source}"),
                );
                return v;
            }
            // sentinels in order, with the expected probes
            let lt = if c.html { "&lt;" } else { "<" };
            let mut pos = 0usize;
            for (idx, (sid, isolating)) in sentinels.iter().enumerate() {
                let head = format!("\u{ab}{sid}:");
                let Some(at) = out[pos..].find(&head) else {
                    v.set_fail(
                        "text_after_construct_lost",
                        format!("the marker written after top-level construct {sid} is missing from the output {out:?}\npath {desc}\nsource: {source}"),
                    );
                    return v;
                };
                let start = pos + at + head.len();
                let end = out[start..].find('\u{bb}').map(|e| start + e).unwrap_or(out.len());
                let fields: Vec<&str> = out[start..end].split(':').collect();
                if fields.len() != 4 {
                    v.set_fail("sentinel_garbled", format!("sentinel {sid} renders {:?}\nsource: {source}", &out[start..end]));
                    return v;
                }
                if fields[0] != lt {
                    v.set_fail(
                        "escape_mode_not_restored",
                        format!("after construct {sid} the string \"<\" renders as {:?} (template mode renders {lt:?})\npath {desc}\nsource: {source}", fields[0]),
                    );
                    return v;
                }
                if *isolating && fields[1] != "False" {
                    v.set_fail(
                        "inner_assignment_visible_outside",
                        format!("q{sid} assigned inside construct {sid} is defined after it\npath {desc}\nsource: {source}"),
                    );
                    return v;
                }
                if !leak_possible[idx] && fields[3] != "False" {
                    v.set_fail(
                        "included_assignment_visible_outside",
                        format!("`incleak`, assigned by a template that was only included inside constructs with a scope of their own, is defined after construct {sid}\npath {desc}\nsource: {source}"),
                    );
                    return v;
                }
                if fields[2] != "kept" {
                    v.set_fail(
                        "outer_assignment_lost",
                        format!("`keep` assigned before construct {sid} renders {:?} after it\npath {desc}\nsource: {source}", fields[2]),
                    );
                    return v;
                }
                pos = end;
            }
            // inner escape probes: pre/post of the same construct must render alike
            {
                let lowered = out.to_lowercase();
                let mut pre: std::collections::HashMap<String, String> = Default::default();
                let mut rest = lowered.as_str();
                while let Some(at) = rest.find('\u{27e6}') {
                    let after = &rest[at + '\u{27e6}'.len_utf8()..];
                    let Some(end) = after.find('\u{27e7}') else { break };
                    let token = &after[..end];
                    rest = &after[end..];
                    let Some((key, val)) = token.split_once(':') else { continue };
                    if let Some(id) = key.strip_prefix('p') {
                        pre.insert(id.to_string(), val.to_string());
                    } else if let Some(id) = key.strip_prefix('r') {
                        if let Some(before) = pre.remove(id) {
                            if before != val {
                                v.set_fail(
                                    "escape_mode_not_restored",
                                    format!("around nested construct #{id} the string \"<\" renders as {before:?} before and {val:?} after it\noutput {out:?}\npath {desc}\nsource: {source}"),
                                );
                                return v;
                            }
                        }
                    }
                }
            }
            if out.matches('\u{ab}').count() != sentinels.len() {
                v.set_fail("sentinel_duplicated", format!("output {out:?} has more sentinels than top-level constructs\nsource: {source}"));
                return v;
            }
        }
        v
    }

    fn show(c: &ScopeCase) -> serde_json::Value {
        serde_json::json!({"source": build(c).0, "html": c.html})
    }
}

// ------------------------------------------------------------------ includes of templates that fail half-way

/// An include - plain, `ignore missing`, or a list of choices - of a template that EXISTS and
/// fails while one of its own constructs is open (a missing template referenced from inside a
/// set-block, a filter block, a loop, ...). Whatever the including template does with that error,
/// it may not go on with the included template's capture, scope or escape mode still in place.
#[derive(Clone, Debug, Serialize, Deserialize)]
pub struct FailingIncludeCase {
    pub failing: u8,
    pub open: u8,
    pub form: u8,
    pub wrapper: u8,
}

pub struct FailingIncludes;

const FAILING: [&str; 7] = [
    "{% include 'nope.txt' %}",
    "{% import 'nope.txt' as nm %}",
    "{% from 'nope.txt' import nm %}",
    "{% include ['nope.txt', 'nope2.txt'] %}",
    "{{ 1 // 0 }}",
    "{{ [1]|nosuchfilter }}",
    "{% include 'inner2.txt' %}",
];
const OPEN: [&str; 10] = [
    "@",
    "{% set cap %}a@b{% endset %}",
    "{% filter upper %}a@b{% endfilter %}",
    "{% for z in [1, 2] %}{% set leak = 1 %}@{% endfor %}",
    "{% with leak = 1 %}@{% endwith %}",
    "{% autoescape true %}@{% endautoescape %}",
    "{% macro fm() %}{% set leak = 1 %}@{% endmacro %}{{ fm() }}",
    "{% macro wrap() %}{{ caller() }}{% endmacro %}{% call wrap() %}@{% endcall %}",
    "{% block fb %}@{% endblock %}",
    "{% set cap %}{% filter upper %}{% for z in [1] %}{% autoescape true %}@{% endautoescape %}{% endfor %}{% endfilter %}{% endset %}",
];
const FORMS: [&str; 5] = [
    "{% include 'inner.txt' ignore missing %}",
    "{% include ['inner.txt', 'ok.txt'] %}",
    "{% include ['nope0.txt', 'inner.txt'] ignore missing %}",
    "{% include ['inner.txt', 'nope0.txt'] ignore missing %}",
    "{% include 'inner.txt' %}",
];
const WRAPPERS: [&str; 5] = [
    "@",
    "{% set o %}@{% endset %}[{{ o }}]",
    "{% for y in [1, 2] %}@{% endfor %}",
    "{% autoescape false %}@{% endautoescape %}",
    "{% filter lower %}@{% endfilter %}",
];

impl Part for FailingIncludes {
    type Case = FailingIncludeCase;
    const NAME: &'static str = "includes_of_failing_templates";

    fn strategy(_tier: Tier) -> BoxedStrategy<FailingIncludeCase> {
        let all = Self::enumeration(Tier::Quick);
        (0..all.len()).prop_map(move |i| all[i].clone()).boxed()
    }

    fn enumeration(_tier: Tier) -> Vec<FailingIncludeCase> {
        let mut out = vec![];
        for failing in 0..FAILING.len() as u8 {
            for open in 0..OPEN.len() as u8 {
                for form in 0..FORMS.len() as u8 {
                    for wrapper in 0..WRAPPERS.len() as u8 {
                        out.push(FailingIncludeCase { failing, open, form, wrapper });
                    }
                }
            }
        }
        out
    }

    fn check(c: &FailingIncludeCase) -> Verdict {
        let failing = FAILING[c.failing as usize % FAILING.len()];
        let open = OPEN[c.open as usize % OPEN.len()];
        let form = FORMS[c.form as usize % FORMS.len()];
        let wrapper = WRAPPERS[c.wrapper as usize % WRAPPERS.len()];
        let inner = format!("in({})", open.replace('@', failing));
        let main = format!("\u{2039}pre\u{203a}{}\u{2039}post\u{203a}{{{{ \"<\" }}}}{{{{ 1 if leak is defined else 0 }}}}{{{{ 1 if cap is defined else 0 }}}}", wrapper.replace('@', form));
        let mut v = Verdict::pass(c.open > 0 && c.form < 4);
        for html in [false, true] {
            let mut env = Environment::new();
            env.set_fuel(Some(100_000));
            let name = if html { "main.html" } else { "main.txt" };
            let inner_name = "inner.txt";
            env.add_template_owned(inner_name.to_string(), inner.clone()).unwrap();
            env.add_template_owned("inner2.txt".to_string(), "{% set cap2 %}x{% include 'nope.txt' %}{% endset %}".to_string()).unwrap();
            env.add_template_owned("ok.txt".to_string(), "ok".to_string()).unwrap();
            if let Err(e) = env.add_template_owned(name.to_string(), main.clone()) {
                v.set_fail("generated_template_fails", format!("{e:#}\nsource: {main}"));
                return v;
            }
            let _ = minijinja::verif::take_balance_reports();
            let res = env.get_template(name).unwrap().render(());
            let reports = minijinja::verif::take_balance_reports();
            match res {
                Err(_) => v.labels.push("render_fails"),
                Ok(out) => {
                    v.labels.push("render_goes_on");
                    let lt = if html { "&lt;" } else { "<" };
                    let tail = format!("\u{2039}post\u{203a}{lt}00");
                    if !out.starts_with("\u{2039}pre\u{203a}") || !out.ends_with(&tail) {
                        v.set_fail(
                            "text_after_failed_include_lost",
                            format!("the render succeeded with {out:?}, which must start with the text before and end with {tail:?}: the text, escape mode and scope after the include\nmain: {main}\ninner.txt: {inner}"),
                        );
                        return v;
                    }
                    if !reports.is_empty() {
                        v.set_fail("balance_report", format!("the engine's balance monitor reported {reports:?}\nmain: {main}\ninner.txt: {inner}"));
                        return v;
                    }
                }
            }
        }
        v
    }

    fn show(c: &FailingIncludeCase) -> serde_json::Value {
        serde_json::json!({
            "inner": OPEN[c.open as usize % OPEN.len()].replace('@', FAILING[c.failing as usize % FAILING.len()]),
            "include": WRAPPERS[c.wrapper as usize % WRAPPERS.len()].replace('@', FORMS[c.form as usize % FORMS.len()]),
        })
    }
}

// ------------------------------------------------------------------ break / continue in an else branch

/// `break` / `continue` written in the `else` branch of a loop belong to the *enclosing* loop, or
/// are rejected when there is none. Whichever the engine does, leaving must not release a
/// construct twice or skip the text after it.
#[derive(Clone, Debug, Serialize, Deserialize)]
pub struct ElseControlCase {
    pub wrapper: u8,
    pub control: u8,
    pub outer_loop: bool,
}

pub struct ControlsInElse;

const ELSE_WRAPPERS: [&str; 7] = [
    "@",
    "{% with w = 1 %}[{{ w }}]@{% endwith %}",
    "{% set c %}cap@{% endset %}[{{ c }}]",
    "{% filter upper %}f@{% endfilter %}",
    "{% autoescape true %}@{{ '<' }}{% endautoescape %}",
    "{% macro em() %}m@{% endmacro %}{{ em() }}",
    "{% with w = 1 %}{% set c %}{% filter upper %}@{% endfilter %}{% endset %}{{ c }}{% endwith %}",
];
const ELSE_CONTROLS: [&str; 4] = ["{% continue %}", "{% break %}", "{% if true %}{% continue %}{% endif %}", "{% with z = 2 %}{% break %}{% endwith %}"];

impl Part for ControlsInElse {
    type Case = ElseControlCase;
    const NAME: &'static str = "loop_controls_in_else_branch";

    fn strategy(_tier: Tier) -> BoxedStrategy<ElseControlCase> {
        let all = Self::enumeration(Tier::Quick);
        (0..all.len()).prop_map(move |i| all[i].clone()).boxed()
    }

    fn enumeration(_tier: Tier) -> Vec<ElseControlCase> {
        let mut out = vec![];
        for wrapper in 0..ELSE_WRAPPERS.len() as u8 {
            for control in 0..ELSE_CONTROLS.len() as u8 {
                for outer_loop in [false, true] {
                    out.push(ElseControlCase { wrapper, control, outer_loop });
                }
            }
        }
        out
    }

    fn check(c: &ElseControlCase) -> Verdict {
        let ctl = ELSE_CONTROLS[c.control as usize % ELSE_CONTROLS.len()];
        let inner = format!("{{% for q in [] %}}body{{% else %}}e{ctl}skipped{{% endfor %}}");
        let wrapped = ELSE_WRAPPERS[c.wrapper as usize % ELSE_WRAPPERS.len()].replace('@', &inner);
        let main = if c.outer_loop {
            format!("\u{2039}pre\u{203a}{{% for o in [1, 2] %}}({wrapped}){{% endfor %}}\u{2039}post\u{203a}{{{{ \"<\" }}}}{{{{ 1 if w is defined else 0 }}}}{{{{ 0 }}}}")
        } else {
            format!("\u{2039}pre\u{203a}{wrapped}\u{2039}post\u{203a}{{{{ \"<\" }}}}{{{{ 1 if w is defined else 0 }}}}{{{{ 0 }}}}")
        };
        let mut v = Verdict::pass(true);
        let mut env = Environment::new();
        env.set_fuel(Some(100_000));
        if env.add_template_owned("main.txt".to_string(), main.clone()).is_err() {
            v.labels.push("rejected_at_load");
            return v;
        }
        let _ = minijinja::verif::take_balance_reports();
        let res = crate::runner::guarded(|| env.get_template("main.txt").unwrap().render(()));
        let reports = minijinja::verif::take_balance_reports();
        match res {
            Err((sig, raw)) => v.set_fail("panic_in_else_branch_control", format!("{sig}: {raw}\nsource: {main}")),
            Ok(Err(_)) => v.labels.push("render_fails"),
            Ok(Ok(out)) => {
                v.labels.push("accepted");
                if !out.starts_with("\u{2039}pre\u{203a}") || !out.ends_with("\u{2039}post\u{203a}<00") || out.matches("\u{2039}pre\u{203a}").count() != 1 {
                    v.set_fail("text_after_construct_lost", format!("rendered {out:?}: the text before must appear once and the text, escape mode and scope after the construct must be intact\nsource: {main}"));
                } else if !reports.is_empty() {
                    v.set_fail("balance_report", format!("the engine's balance monitor reported {reports:?}\nsource: {main}"));
                }
            }
        }
        v
    }

    fn show(c: &ElseControlCase) -> serde_json::Value {
        serde_json::json!({"wrapper": ELSE_WRAPPERS[c.wrapper as usize % ELSE_WRAPPERS.len()], "control": ELSE_CONTROLS[c.control as usize % ELSE_CONTROLS.len()], "outer_loop": c.outer_loop})
    }
}

crate::declare_parts!(Scopes, FailingIncludes, ControlsInElse);

pub fn run(ctx: &mut Ctx) {
    ctx.rule = "skeletons of nested scoped constructs (for with/without else, loop filter, recursive; with; set-block; filter block; autoescape on/off; if/else; macro + call; call block; scoped block; include of a template with its own break/continue; include / import / from-import of a template that itself extends a layout) up to depth 3 (thorough 4), with `break`/`continue` (each guarded by its own boolean) at every position the parser accepts; every if condition is its own context boolean and every loop iterates its own context list, and ALL assignments (2^k booleans x list lengths 0/1/2) are rendered when there are at most 160, else 160 sampled ones; in .txt and .html templates. Oracles per path: the verif_hooks balance monitor reports nothing (frame depth, capture depth, auto-escape stack, operand stack equal at entry and normal exit of every instruction-stream evaluation; no pop of a foreign frame/capture), a marker written after every top-level construct reaches the output in order, `{{ \"<\" }}` after it renders in the template's initial escape mode and `{{ \"<\" }}` printed right before and right after every nested scoped construct renders alike, a variable assigned inside an isolating construct (for, with, macro, call, block) is undefined after it, a variable assigned before keeps its value; no panic. Enumerated besides: includes (plain, ignore missing, lists of choices; 5 wrappers) of a template that exists and fails while one of its own constructs is open (7 failing statements x 10 open constructs): the render fails, or the text, escape mode and scope after the include are intact and the monitor reports nothing; and break/continue written in the else branch of a loop (7 wrappers x 4 controls x with/without an outer loop): rejected at load, or rendered without panic with the text, escape mode and scope after the construct intact. Non-trivial: a break/continue separated from its loop by another scoped construct. Distinct by case.".into();
    ctx.assumptions = vec!["paths beyond the cap of 160 per program are sampled (labelled paths_sampled)".into()];
    preamble(ctx);
    let t = ctx.tier;
    ctx.run_enumerated::<FailingIncludes>(FailingIncludes::enumeration(t), true);
    ctx.run_enumerated::<ControlsInElse>(ControlsInElse::enumeration(t), true);
    ctx.run_part::<Scopes>(t.pick(60_000, 1_000_000));
}
