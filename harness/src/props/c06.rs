//! C06 — inheritance, super(), include and import compose templates as specified.
use std::collections::BTreeMap;

use minijinja::{Environment, ErrorKind, Value};
use proptest::prelude::*;
use serde::{Deserialize, Serialize};

use crate::gen::ast::*;
use crate::gen::print;
use crate::refint::{Interp, RErr, V};
use crate::runner::{Ctx, Part, Tier, Verdict};

// ---------------------------------------------------------------------------
// case: the shape vector of an inheritance chain

pub const BLOCKS: [&str; 4] = ["a", "b", "c", "d"];

/// the block a nested block lives in when its template also defines that block
fn parent_of(bi: usize) -> Option<usize> {
    match bi {
        2 => Some(0),
        3 => Some(2),
        _ => None,
    }
}

#[derive(Clone, Copy, Debug, Serialize, Deserialize, PartialEq, Eq, Hash)]
pub enum BlockChoice {
    Absent,
    Plain,
    SuperBefore,
    SuperAfter,
    SuperTwice,
    /// body calls `self.b()` (only for blocks other than b)
    SelfCall,
}

#[derive(Clone, Copy, Debug, Serialize, Deserialize, PartialEq, Eq, Hash)]
pub enum ExtStyle {
    /// `{% extends "parent" %}` as the first tag
    First,
    /// text, then extends
    AfterText,
    /// `{% if flag %}{% extends "parent" %}{% endif %}`
    InIf,
    /// `{% extends parents[k] %}`
    Dynamic,
    /// `{% extends "parent" if flag else "alt.txt" %}`
    Ternary,
}

#[derive(Clone, Copy, Debug, Serialize, Deserialize, PartialEq, Eq, Hash)]
pub enum ExtraKind {
    Include,
    IncludeDynamic,
    IncludeListFirstMissing,
    IncludeMissingIgnored,
    IncludeListAllMissingIgnored,
    /// `ignore missing` on a list whose first entries are missing and a later one exists
    IncludeListFirstMissingIgnored,
    /// the included template declares no blocks itself but extends a layout that does
    IncludeThinChild,
    /// the included template extends the very root the includer's own chain ends in
    IncludeSameBase,
    /// the included template has an inheritance chain of its own that reuses block name `a`
    IncludeWithOwnChain,
    Import,
    FromImport,
    FromImportUnknownName,
    /// `from "modcap.txt" import banner`: the variable is built by a set block that contains a block
    FromImportCapturedBlock,
    /// `from "mod.txt" import cv as q, range as r`: names the module does not define although
    /// the importer's context (`cv`) or the globals (`range`) do
    FromImportNamesOfImporter,
    /// names that begin with an underscore, dunder names, capitalised names
    FromImportOddNames,
    /// error shapes
    IncludeMissing,
    ImportMissing,
}

#[derive(Clone, Copy, Debug, Serialize, Deserialize, PartialEq, Eq, Hash)]
pub enum Place {
    Top,
    Block,
    LoopInBlock,
    WithInBlock,
    /// inside a macro declared at the template's top level and called from a block
    Macro,
    /// inside a set block at the template's top level (in an extending template that is a real
    /// capture within the discarded region); every block prints the captured value
    #[serde(alias = "TopCapture")]
    TopCapture,
}

#[derive(Clone, Copy, Debug, Serialize, Deserialize, PartialEq, Eq, Hash)]
pub struct Extra {
    pub kind: ExtraKind,
    pub place: Place,
}

#[derive(Clone, Debug, Serialize, Deserialize, PartialEq, Eq, Hash)]
pub struct Level {
    pub blocks: [BlockChoice; 4],
    pub ext: ExtStyle,
    /// `{% set lvK = "vK" %}` at top level (after the extends)
    pub top_set: bool,
    /// text outside blocks (after the extends in an extending template)
    pub text_outside: bool,
    pub extra: Option<Extra>,
}

#[derive(Clone, Debug, Serialize, Deserialize, PartialEq, Eq, Hash)]
pub struct ChainCase {
    /// index 0 is the most derived template (the one rendered), the last one is the root
    pub levels: Vec<Level>,
    /// context variable `flag`
    pub flag: bool,
}

fn tname(k: usize) -> String {
    format!("t{k}.txt")
}

fn s(x: &str) -> Expr {
    Expr::str(x)
}
fn v(x: &str) -> Expr {
    Expr::var(x)
}
fn text(x: impl Into<String>) -> Stmt {
    Stmt::Text(x.into())
}
fn call0(callee: Expr) -> Expr {
    Expr::Call(Box::new(callee), vec![])
}
fn attr(e: Expr, a: &str) -> Expr {
    Expr::Attr(Box::new(e), a.to_string())
}

/// helper templates every environment gets
fn helper_templates() -> BTreeMap<String, Vec<Stmt>> {
    let mut m = BTreeMap::new();
    // prints what it can see of the includer's variables
    m.insert(
        "inc.txt".to_string(),
        vec![text("I("), Stmt::Emit(v("i")), Stmt::Emit(v("wv")), Stmt::Emit(v("cv")), Stmt::Emit(v("lv0")), text(")")],
    );
    m.insert("incm.txt".to_string(), vec![text("IM("), Stmt::Emit(v("p")), Stmt::Emit(v("cv")), text(")")]);
    m.insert(
        "incbase.txt".to_string(),
        vec![text("IB["), Stmt::Block { name: "a".into(), scoped: false, required: false, body: vec![text("iba")] }, text("]")],
    );
    m.insert(
        "inc2.txt".to_string(),
        vec![
            Stmt::Extends(s("incbase.txt")),
            text("DISCARDED"),
            Stmt::Block {
                name: "a".into(),
                scoped: false,
                required: false,
                body: vec![text("i2a+"), Stmt::Emit(call0(v("super")))],
            },
        ],
    );
    // extends a layout with blocks, declares none itself
    m.insert("inc3.txt".to_string(), vec![Stmt::Extends(s("incbase.txt")), text("DISCARDED3"), Stmt::Set { target: Target::Name("thin".into()), value: s("T") }]);
    m.insert(
        "mod.txt".to_string(),
        vec![
            Stmt::Macro { name: "m1".into(), params: vec![("x".into(), None)], body: vec![text("M1("), Stmt::Emit(v("x")), text(")")] },
            text("MODTEXT"),
            Stmt::Macro { name: "m2".into(), params: vec![], body: vec![text("M2")] },
            Stmt::Set { target: Target::Name("mv".into()), value: s("MV") },
            // names of other shapes are exported like any other
            Stmt::Macro { name: "_pm".into(), params: vec![("x".into(), None)], body: vec![text("_PM("), Stmt::Emit(v("x")), text(")")] },
            Stmt::Set { target: Target::Name("_pv".into()), value: s("_PV") },
            Stmt::Set { target: Target::Name("__dv__".into()), value: s("DV") },
            Stmt::Set { target: Target::Name("Upper9".into()), value: s("U9") },
            Stmt::If {
                branches: vec![(Expr::Bool(true), vec![Stmt::Set { target: Target::Name("mi".into()), value: s("MI") }])],
                else_: None,
            },
            Stmt::For {
                target: Target::Name("mloop".into()),
                iter: Expr::List(vec![Expr::int(1)]),
                filter: None,
                recursive: false,
                body: vec![Stmt::Set { target: Target::Name("ml".into()), value: s("ML") }],
                else_: None,
            },
            Stmt::Emit(v("mv")),
        ],
    );
    m.insert(
        "modcap.txt".to_string(),
        vec![
            Stmt::SetBlock {
                name: "banner".into(),
                filter: None,
                body: vec![text("["), Stmt::Block { name: "bn".into(), scoped: false, required: false, body: vec![text("BN")] }, text("]")],
            },
            Stmt::Macro { name: "mc".into(), params: vec![], body: vec![text("MC")] },
        ],
    );
    m.insert(
        "alt.txt".to_string(),
        vec![
            text("ALT["),
            Stmt::Block { name: "a".into(), scoped: false, required: false, body: vec![text("alta")] },
            text("|"),
            Stmt::Block { name: "b".into(), scoped: false, required: false, body: vec![text("altb")] },
            text("]"),
        ],
    );
    m
}

fn extra_stmts(kind: ExtraKind, k: usize, in_macro: bool) -> Vec<Stmt> {
    let inc = if in_macro { "incm.txt" } else { "inc.txt" };
    let h = format!("h{k}");
    let q = format!("q{k}");
    match kind {
        ExtraKind::Include => vec![Stmt::Include { name: s(inc), ignore_missing: false }],
        ExtraKind::IncludeDynamic => vec![Stmt::Include { name: v(if in_macro { "incmname" } else { "incname" }), ignore_missing: false }],
        ExtraKind::IncludeListFirstMissing => {
            vec![Stmt::Include { name: Expr::List(vec![s("missing1.txt"), s(inc), s("alt.txt")]), ignore_missing: false }]
        }
        ExtraKind::IncludeMissingIgnored => vec![text("<"), Stmt::Include { name: s("missing1.txt"), ignore_missing: true }, text(">")],
        ExtraKind::IncludeListAllMissingIgnored => vec![
            text("<"),
            Stmt::Include { name: Expr::List(vec![s("missing1.txt"), s("missing2.txt")]), ignore_missing: true },
            text(">"),
        ],
        ExtraKind::IncludeWithOwnChain => vec![Stmt::Include { name: s("inc2.txt"), ignore_missing: false }],
        ExtraKind::IncludeListFirstMissingIgnored => vec![
            text("<"),
            Stmt::Include { name: Expr::List(vec![s("missing1.txt"), s("missing2.txt"), s(inc)]), ignore_missing: true },
            text(">"),
        ],
        ExtraKind::IncludeThinChild => vec![
            Stmt::Include { name: s("inc3.txt"), ignore_missing: false },
            text("+"),
            Stmt::Include { name: s("inc3.txt"), ignore_missing: false },
        ],
        ExtraKind::IncludeSameBase => vec![text("<"), Stmt::Include { name: s("incsame.txt"), ignore_missing: false }, text(">")],
        ExtraKind::Import => vec![
            Stmt::Import { name: s("mod.txt"), alias: h.clone() },
            Stmt::Emit(Expr::Call(Box::new(attr(v(&h), "m1")), vec![Arg::Pos(v("cv"))])),
            Stmt::Emit(attr(v(&h), "mv")),
            Stmt::Emit(attr(v(&h), "mi")),
            Stmt::Emit(Expr::Test(Box::new(attr(v(&h), "ml")), "defined".into(), vec![], false)),
            Stmt::Emit(Expr::Test(Box::new(attr(v(&h), "mloop")), "defined".into(), vec![], false)),
            Stmt::Emit(Expr::Test(Box::new(attr(v(&h), "nothere")), "defined".into(), vec![], false)),
            Stmt::Emit(call0(attr(v(&h), "m2"))),
            Stmt::Emit(Expr::Call(Box::new(attr(v(&h), "_pm")), vec![Arg::Pos(s("p"))])),
            Stmt::Emit(attr(v(&h), "_pv")),
            Stmt::Emit(attr(v(&h), "__dv__")),
            Stmt::Emit(attr(v(&h), "Upper9")),
        ],
        ExtraKind::FromImport => vec![
            Stmt::FromImport { name: s("mod.txt"), names: vec![("m1".into(), None), ("mv".into(), Some(q.clone())), ("m2".into(), Some(format!("mm{k}")))] },
            Stmt::Emit(Expr::Call(Box::new(v("m1")), vec![Arg::Pos(s("x"))])),
            Stmt::Emit(v(&q)),
            Stmt::Emit(call0(v(&format!("mm{k}")))),
            // the un-aliased names are not bound
            Stmt::Emit(Expr::Test(Box::new(v("mv")), "defined".into(), vec![], false)),
        ],
        ExtraKind::FromImportOddNames => vec![
            Stmt::FromImport {
                name: s("mod.txt"),
                names: vec![("_pm".into(), Some(format!("pm{k}"))), ("_pv".into(), None), ("__dv__".into(), Some(format!("dv{k}"))), ("Upper9".into(), None)],
            },
            Stmt::Emit(Expr::Call(Box::new(v(&format!("pm{k}"))), vec![Arg::Pos(s("q"))])),
            Stmt::Emit(v("_pv")),
            Stmt::Emit(v(&format!("dv{k}"))),
            Stmt::Emit(v("Upper9")),
        ],
        ExtraKind::FromImportUnknownName => vec![
            Stmt::FromImport { name: s("mod.txt"), names: vec![("nothere".into(), None), ("m2".into(), None)] },
            Stmt::Emit(Expr::Test(Box::new(v("nothere")), "defined".into(), vec![], false)),
            Stmt::Emit(call0(v("m2"))),
        ],
        ExtraKind::FromImportCapturedBlock => vec![
            Stmt::FromImport { name: s("modcap.txt"), names: vec![("banner".into(), Some(format!("bq{k}"))), ("mc".into(), Some(format!("mc{k}")))] },
            Stmt::Emit(v(&format!("bq{k}"))),
            Stmt::Emit(call0(v(&format!("mc{k}")))),
        ],
        ExtraKind::FromImportNamesOfImporter => vec![
            Stmt::FromImport {
                name: s("mod.txt"),
                names: vec![("cv".into(), Some(format!("cq{k}"))), ("range".into(), Some(format!("rq{k}"))), ("m2".into(), Some(format!("mq{k}")))],
            },
            text("<"),
            Stmt::Emit(Expr::Test(Box::new(v(&format!("cq{k}"))), "defined".into(), vec![], false)),
            Stmt::Emit(Expr::Test(Box::new(v(&format!("rq{k}"))), "defined".into(), vec![], false)),
            Stmt::Emit(call0(v(&format!("mq{k}")))),
            text(">"),
        ],
        ExtraKind::IncludeMissing => vec![Stmt::Include { name: s("missing1.txt"), ignore_missing: false }],
        ExtraKind::ImportMissing => vec![Stmt::Import { name: s("missing1.txt"), alias: h }],
    }
}

/// wraps the extra's statements according to its place; returns (statements for the block/top
/// position, statements for the template's top level)
fn placed_extra(mut e: Extra, k: usize) -> (Vec<Stmt>, Vec<Stmt>) {
    // the root layout reads template-level variables and fails in its own ways: it is only
    // included where both are specified (inside blocks, not from macros, not in discarded regions)
    if e.kind == ExtraKind::IncludeSameBase && matches!(e.place, Place::Top | Place::Macro | Place::TopCapture) {
        e.kind = ExtraKind::Include;
    }
    match e.place {
        Place::Top | Place::Block => (extra_stmts(e.kind, k, false), vec![]),
        Place::TopCapture => (vec![], vec![Stmt::SetBlock { name: format!("cap{k}"), filter: None, body: extra_stmts(e.kind, k, false) }]),
        Place::LoopInBlock => (
            vec![Stmt::For {
                target: Target::Name("i".into()),
                iter: v("items"),
                filter: None,
                recursive: false,
                body: extra_stmts(e.kind, k, false),
                else_: None,
            }],
            vec![],
        ),
        Place::WithInBlock => (
            vec![Stmt::With { bindings: vec![(Target::Name("wv".into()), s("W"))], body: extra_stmts(e.kind, k, false) }],
            vec![],
        ),
        Place::Macro => {
            let name = format!("mk{k}");
            (
                vec![Stmt::Emit(Expr::Call(Box::new(v(&name)), vec![Arg::Pos(s("P"))]))],
                vec![Stmt::Macro { name, params: vec![("p".into(), None)], body: extra_stmts(e.kind, k, true) }],
            )
        }
    }
}

fn block_stmt(case: &ChainCase, k: usize, bi: usize, extra_here: &mut Option<Vec<Stmt>>) -> Stmt {
    let lvl = &case.levels[k];
    let choice = lvl.blocks[bi];
    let name = BLOCKS[bi];
    let mut body = vec![text(format!("L{k}{name}("))];
    if matches!(choice, BlockChoice::SuperBefore | BlockChoice::SuperTwice) {
        body.push(Stmt::Emit(call0(v("super"))));
    }
    if choice == BlockChoice::SelfCall && bi != 1 {
        body.push(Stmt::Emit(call0(attr(v("self"), "b"))));
    }
    // top-level assignments of every level are visible in blocks (once they ran)
    for j in 0..case.levels.len() {
        if case.levels[j].top_set {
            body.push(Stmt::Emit(v(&format!("lv{j}"))));
        }
    }
    // so are the values captured by top-level set blocks
    for j in 0..case.levels.len() {
        if case.levels[j].extra.map_or(false, |e| e.place == Place::TopCapture) {
            body.push(text("<cap:"));
            body.push(Stmt::Emit(v(&format!("cap{j}"))));
            body.push(text(">"));
        }
    }
    if let Some(x) = extra_here.take() {
        body.extend(x);
    }
    for ci in 0..4 {
        if parent_of(ci) == Some(bi) && lvl.blocks[ci] != BlockChoice::Absent {
            body.push(block_stmt(case, k, ci, extra_here));
        }
    }
    if matches!(choice, BlockChoice::SuperAfter | BlockChoice::SuperTwice) {
        body.push(Stmt::Emit(call0(v("super"))));
    }
    body.push(text(")"));
    Stmt::Block { name: name.into(), scoped: false, required: false, body }
}

pub fn build(case: &ChainCase) -> BTreeMap<String, Vec<Stmt>> {
    let mut out = helper_templates();
    let n = case.levels.len();
    // a template of its own that extends the root of this chain (rendered through an include it
    // has a chain of its own; that the includer has loaded the same root is no cycle)
    out.insert(
        "incsame.txt".to_string(),
        vec![
            Stmt::Extends(s(&tname(n.saturating_sub(1)))),
            Stmt::Block { name: "a".into(), scoped: false, required: false, body: vec![text("SAME")] },
            Stmt::Block { name: "b".into(), scoped: false, required: false, body: vec![text("SAMEB")] },
        ],
    );
    for k in 0..n {
        let lvl = &case.levels[k];
        let is_root = k + 1 == n;
        let mut body = vec![];
        if !is_root {
            let parent = tname(k + 1);
            match lvl.ext {
                ExtStyle::First => body.push(Stmt::Extends(s(&parent))),
                ExtStyle::AfterText => {
                    body.push(text(format!("pre{k};")));
                    body.push(Stmt::Extends(s(&parent)));
                }
                ExtStyle::InIf => body.push(Stmt::If { branches: vec![(v("flag"), vec![Stmt::Extends(s(&parent))])], else_: None }),
                ExtStyle::Dynamic => body.push(Stmt::Extends(Expr::Item(Box::new(v("parents")), Box::new(Expr::int(k as i128))))),
                ExtStyle::Ternary => body.push(Stmt::Extends(Expr::IfExpr(Box::new(v("flag")), Box::new(s(&parent)), Some(Box::new(s("alt.txt")))))),
            }
        } else {
            body.push(text(format!("R{k}[")));
        }
        if lvl.text_outside {
            body.push(text(format!("OUT{k};")));
        }
        // which blocks sit at the top level of this template
        let tops: Vec<usize> = (0..4)
            .filter(|&bi| lvl.blocks[bi] != BlockChoice::Absent && parent_of(bi).map_or(true, |p| lvl.blocks[p] == BlockChoice::Absent))
            .collect();
        let mut block_extra: Option<Vec<Stmt>> = None;
        let mut top_extra: Vec<Stmt> = vec![];
        if let Some(mut e) = lvl.extra {
            // without a block of its own the extra ends up at the template's top level
            if tops.is_empty() && matches!(e.place, Place::Block | Place::LoopInBlock | Place::WithInBlock) {
                e.place = Place::Top;
            }
            let (at, top) = placed_extra(e, k);
            body.extend(top);
            if e.place == Place::Top || tops.is_empty() {
                top_extra = at;
            } else {
                block_extra = Some(at);
            }
        }
        let set = Stmt::Set { target: Target::Name(format!("lv{k}")), value: s(&format!("v{k}")) };
        if lvl.top_set && !is_root {
            body.push(set.clone());
        }
        for (n_top, bi) in tops.iter().enumerate() {
            body.push(block_stmt(case, k, *bi, &mut block_extra));
            if is_root {
                body.push(text("|"));
                // the root's assignment runs between its first and second block
                if n_top == 0 && lvl.top_set {
                    body.push(set.clone());
                }
            }
            if n_top == 0 {
                body.append(&mut top_extra);
            }
        }
        if is_root && tops.is_empty() && lvl.top_set {
            body.push(set);
        }
        body.append(&mut top_extra);
        if is_root {
            body.push(text("]"));
        }
        out.insert(tname(k), body);
    }
    out
}

fn model_ctx(case: &ChainCase) -> (Vec<(&'static str, Value)>, BTreeMap<String, V>) {
    let parents: Vec<String> = (0..6).map(|k| tname(k + 1)).collect();
    let engine = vec![
        ("flag", Value::from(case.flag)),
        ("parents", Value::from(parents.clone())),
        ("items", Value::from(vec![1, 2])),
        ("cv", Value::from("CV")),
        ("incname", Value::from("inc.txt")),
        ("incmname", Value::from("incm.txt")),
    ];
    let mut model = BTreeMap::new();
    model.insert("flag".to_string(), V::Bool(case.flag));
    model.insert("parents".to_string(), V::List(parents.into_iter().map(V::Str).collect()));
    model.insert("items".to_string(), V::List(vec![V::Int(1), V::Int(2)]));
    model.insert("cv".to_string(), V::Str("CV".into()));
    model.insert("incname".to_string(), V::Str("inc.txt".into()));
    model.insert("incmname".to_string(), V::Str("incm.txt".into()));
    (engine, model)
}

/// the innermost engine error of a source chain
fn innermost_kind(e: &minijinja::Error) -> ErrorKind {
    let mut cur: &dyn std::error::Error = e;
    let mut kind = e.kind();
    while let Some(next) = cur.source() {
        if let Some(me) = next.downcast_ref::<minijinja::Error>() {
            kind = me.kind();
        }
        cur = next;
    }
    kind
}

/// does the engine's error match the documented failure?
fn kind_agrees(want: &RErr, got: &minijinja::Error) -> Option<bool> {
    let k = innermost_kind(got);
    match want {
        RErr::TemplateNotFound(_) => Some(k == ErrorKind::TemplateNotFound),
        RErr::InheritanceCycle | RErr::DoubleExtends | RErr::SuperOutsideBlock | RErr::NoParentBlock | RErr::RequiredBlock => {
            Some(k == ErrorKind::InvalidOperation)
        }
        // include cycles end at the recursion limit; which call notices first is not specified
        _ => None,
    }
}

fn sources(templates: &BTreeMap<String, Vec<Stmt>>) -> BTreeMap<String, String> {
    templates.iter().map(|(k, b)| (k.clone(), print::template_default(b))).collect()
}

fn compare(templates: &BTreeMap<String, Vec<Stmt>>, case_ctx: &ChainCase, v: &mut Verdict) {
    let (engine_ctx, mctx) = model_ctx(case_ctx);
    let want = Interp::new(templates, mctx).render("t0.txt");
    let srcs = sources(templates);
    let mut env = Environment::new();
    env.set_fuel(Some(2_000_000));
    env.set_keep_trailing_newline(true);
    let mut load_err = None;
    for (name, src) in &srcs {
        if let Err(e) = env.add_template_owned(name.clone(), src.clone()) {
            load_err = Some((name.clone(), e));
            break;
        }
    }
    let got = match load_err {
        Some((_, e)) => Err(e),
        None => env.get_template("t0.txt").unwrap().render(Value::from_pairs(engine_ctx)),
    };
    let dump = || {
        srcs.iter()
            .filter(|(k, _)| k.starts_with('t'))
            .map(|(k, s)| format!("  {k}: {s}"))
            .collect::<Vec<_>>()
            .join("\n")
    };
    match (want, got) {
        (Err(RErr::Unsupported(why)), _) => {
            if std::env::var_os("MJV_DEBUG_UNSUPPORTED").is_some() {
                eprintln!("UNSUPPORTED {why}");
            }
            v.nontrivial = false;
            v.labels.push("outside_fragment");
        }
        (Ok(w), Ok(g)) => {
            if w != g {
                v.set_fail(
                    "composition_differs_from_specification",
                    format!("specified composition gives {w:?}\nthe engine renders           {g:?}\n{}", dump()),
                );
            }
        }
        (Ok(w), Err(e)) => v.set_fail(
            "engine_fails_on_valid_composition",
            format!("specified composition gives {w:?} but the engine fails: {e:#}\n{}", dump()),
        ),
        (Err(e), Ok(g)) => v.set_fail(
            "error_shape_rendered_as_success",
            format!("the composition is an error ({e:?}) but the engine reports success with {g:?}\n{}", dump()),
        ),
        (Err(w), Err(e)) => {
            v.labels.push("both_fail");
            if kind_agrees(&w, &e) == Some(false) {
                v.set_fail(
                    "wrong_error_kind",
                    format!("the composition fails with {w:?}; the engine's innermost error kind is {:?}: {e:#}\n{}", innermost_kind(&e), dump()),
                );
            }
        }
    }
}

fn labels_for(case: &ChainCase, v: &mut Verdict) {
    let n = case.levels.len();
    // a block defined at non-adjacent levels with an undefined level between
    let mut gap = false;
    for bi in 0..4 {
        let defined: Vec<usize> = (0..n).filter(|&k| case.levels[k].blocks[bi] != BlockChoice::Absent).collect();
        if defined.windows(2).any(|w| w[1] > w[0] + 1) {
            gap = true;
        }
    }
    let placed = case
        .levels
        .iter()
        .any(|l| l.extra.map_or(false, |e| matches!(e.place, Place::LoopInBlock | Place::Macro | Place::Block | Place::WithInBlock | Place::TopCapture)));
    v.nontrivial = (n >= 3 && gap) || placed;
    if gap {
        v.labels.push("super_or_fallthrough_across_gap");
    }
    if case.levels.iter().any(|l| l.blocks.iter().any(|b| matches!(b, BlockChoice::SuperBefore | BlockChoice::SuperAfter | BlockChoice::SuperTwice))) {
        v.labels.push("has_super");
    }
    if case.levels.iter().take(n.saturating_sub(1)).any(|l| matches!(l.ext, ExtStyle::InIf | ExtStyle::Dynamic | ExtStyle::Ternary)) {
        v.labels.push("conditional_or_dynamic_extends");
    }
    if case.levels.iter().any(|l| l.extra.map_or(false, |e| matches!(e.kind, ExtraKind::Import | ExtraKind::FromImport | ExtraKind::FromImportUnknownName | ExtraKind::FromImportCapturedBlock | ExtraKind::FromImportNamesOfImporter | ExtraKind::FromImportOddNames))) {
        v.labels.push("has_import");
    }
    if case.levels.iter().any(|l| l.extra.map_or(false, |e| e.kind == ExtraKind::FromImportUnknownName)) {
        v.labels.push("from_import_unknown_name");
    }
    if case.levels.iter().any(|l| {
        l.extra.map_or(false, |e| {
            matches!(
                e.kind,
                ExtraKind::Include
                    | ExtraKind::IncludeDynamic
                    | ExtraKind::IncludeListFirstMissing
                    | ExtraKind::IncludeMissingIgnored
                    | ExtraKind::IncludeListAllMissingIgnored
                    | ExtraKind::IncludeWithOwnChain
                    | ExtraKind::IncludeListFirstMissingIgnored
                    | ExtraKind::IncludeThinChild
                    | ExtraKind::IncludeSameBase
            )
        })
    }) {
        v.labels.push("has_include");
    }
    if case.levels.iter().any(|l| l.extra.map_or(false, |e| e.place == Place::TopCapture)) {
        v.labels.push("extra_inside_top_level_capture");
    }
    if !case.flag {
        v.labels.push("flag_false");
    }
}

// ---------------------------------------------------------------------------
// part 1: generated chains

pub struct Chains;

fn choice_strategy() -> BoxedStrategy<BlockChoice> {
    prop_oneof![
        4 => Just(BlockChoice::Absent),
        4 => Just(BlockChoice::Plain),
        2 => Just(BlockChoice::SuperBefore),
        2 => Just(BlockChoice::SuperAfter),
        1 => Just(BlockChoice::SuperTwice),
        1 => Just(BlockChoice::SelfCall),
    ]
    .boxed()
}

fn extra_strategy() -> BoxedStrategy<Option<Extra>> {
    let kind = prop_oneof![
        3 => Just(ExtraKind::Include),
        1 => Just(ExtraKind::IncludeDynamic),
        2 => Just(ExtraKind::IncludeListFirstMissing),
        1 => Just(ExtraKind::IncludeMissingIgnored),
        1 => Just(ExtraKind::IncludeListAllMissingIgnored),
        2 => Just(ExtraKind::IncludeWithOwnChain),
        2 => Just(ExtraKind::IncludeListFirstMissingIgnored),
        2 => Just(ExtraKind::IncludeThinChild),
        2 => Just(ExtraKind::IncludeSameBase),
        3 => Just(ExtraKind::Import),
        3 => Just(ExtraKind::FromImport),
        1 => Just(ExtraKind::FromImportUnknownName),
        2 => Just(ExtraKind::FromImportCapturedBlock),
        2 => Just(ExtraKind::FromImportNamesOfImporter),
        2 => Just(ExtraKind::FromImportOddNames),
    ];
    let place = prop_oneof![
        Just(Place::Top),
        Just(Place::Block),
        Just(Place::LoopInBlock),
        Just(Place::WithInBlock),
        Just(Place::Macro),
        Just(Place::TopCapture),
    ];
    prop_oneof![
        3 => Just(None),
        2 => (kind, place).prop_map(|(kind, place)| Some(Extra { kind, place })),
    ]
    .boxed()
}

fn level_strategy() -> BoxedStrategy<Level> {
    (
        [choice_strategy(), choice_strategy(), choice_strategy(), choice_strategy()],
        prop_oneof![
            5 => Just(ExtStyle::First),
            1 => Just(ExtStyle::AfterText),
            1 => Just(ExtStyle::InIf),
            1 => Just(ExtStyle::Dynamic),
            1 => Just(ExtStyle::Ternary),
        ],
        prop::bool::weighted(0.3),
        prop::bool::weighted(0.3),
        extra_strategy(),
    )
        .prop_map(|(blocks, ext, top_set, text_outside, extra)| Level { blocks, ext, top_set, text_outside, extra })
        .boxed()
}

/// the root has no parent: a `super()` there is an error shape (kept, but rarer)
fn tame_root(mut c: ChainCase, keep_root_super: bool) -> ChainCase {
    if !keep_root_super {
        if let Some(root) = c.levels.last_mut() {
            for b in root.blocks.iter_mut() {
                if matches!(b, BlockChoice::SuperBefore | BlockChoice::SuperAfter | BlockChoice::SuperTwice) {
                    *b = BlockChoice::Plain;
                }
            }
        }
    }
    // `self.b()` needs a block b in the table: the calling template defines one itself
    for l in c.levels.iter_mut() {
        if l.blocks.iter().enumerate().any(|(bi, b)| bi != 1 && *b == BlockChoice::SelfCall) && l.blocks[1] == BlockChoice::Absent {
            l.blocks[1] = BlockChoice::Plain;
        }
        if l.blocks[1] == BlockChoice::SelfCall {
            l.blocks[1] = BlockChoice::Plain;
        }
    }
    c
}

impl Part for Chains {
    type Case = ChainCase;
    const NAME: &'static str = "generated_chains";

    fn strategy(_tier: Tier) -> BoxedStrategy<ChainCase> {
        (prop::collection::vec(level_strategy(), 1..=5), prop::bool::weighted(0.85), prop::bool::weighted(0.1))
            .prop_map(|(levels, flag, keep)| tame_root(ChainCase { levels, flag }, keep))
            .boxed()
    }

    fn check(c: &ChainCase) -> Verdict {
        let mut v = Verdict::pass(false);
        labels_for(c, &mut v);
        let templates = build(c);
        compare(&templates, c, &mut v);
        v
    }

    fn show(c: &ChainCase) -> serde_json::Value {
        let t = build(c);
        let srcs: BTreeMap<String, String> = sources(&t).into_iter().filter(|(k, _)| k.starts_with('t')).collect();
        serde_json::json!({"templates": srcs, "flag": c.flag})
    }
}

// ---------------------------------------------------------------------------
// part 2: exhaustive shape vectors over {a, c nested in a}

pub struct Shapes;

const ENUM_CHOICES: [BlockChoice; 5] =
    [BlockChoice::Absent, BlockChoice::Plain, BlockChoice::SuperBefore, BlockChoice::SuperAfter, BlockChoice::SuperTwice];

fn shape_vectors(max_levels: usize, with_b: bool) -> Vec<ChainCase> {
    let per_level: Vec<[BlockChoice; 4]> = {
        let mut v = vec![];
        for a in ENUM_CHOICES {
            for c in ENUM_CHOICES {
                if with_b {
                    for b in [BlockChoice::Absent, BlockChoice::Plain, BlockChoice::SuperBefore] {
                        v.push([a, b, c, BlockChoice::Absent]);
                    }
                } else {
                    v.push([a, BlockChoice::Absent, c, BlockChoice::Absent]);
                }
            }
        }
        v
    };
    let mut out = vec![];
    for n in 1..=max_levels {
        let mut idx = vec![0usize; n];
        loop {
            // a super() in the root is an error shape of its own (part error_shapes)
            let root_has_super = per_level[idx[n - 1]].iter().any(|b| matches!(b, BlockChoice::SuperBefore | BlockChoice::SuperAfter | BlockChoice::SuperTwice));
            if !root_has_super {
            out.push(ChainCase {
                levels: idx
                    .iter()
                    .map(|&i| Level { blocks: per_level[i], ext: ExtStyle::First, top_set: false, text_outside: false, extra: None })
                    .collect(),
                flag: true,
            });
            }
            let mut p = 0;
            loop {
                if p == n {
                    break;
                }
                idx[p] += 1;
                if idx[p] < per_level.len() {
                    break;
                }
                idx[p] = 0;
                p += 1;
            }
            if p == n {
                break;
            }
        }
    }
    out
}

impl Part for Shapes {
    type Case = ChainCase;
    const NAME: &'static str = "all_shape_vectors";

    fn strategy(tier: Tier) -> BoxedStrategy<ChainCase> {
        Chains::strategy(tier)
    }

    fn enumeration(tier: Tier) -> Vec<ChainCase> {
        match tier {
            Tier::Quick => shape_vectors(4, false),
            Tier::Thorough => {
                let mut v = shape_vectors(5, false);
                v.extend(shape_vectors(4, true));
                v
            }
        }
    }

    fn check(c: &ChainCase) -> Verdict {
        Chains::check(c)
    }

    fn show(c: &ChainCase) -> serde_json::Value {
        Chains::show(c)
    }
}

// ---------------------------------------------------------------------------
// part 2b: every include / import kind at every place of every level of short chains

pub struct ExtrasGrid;

const GRID_KINDS: [ExtraKind; 15] = [
    ExtraKind::Include,
    ExtraKind::IncludeDynamic,
    ExtraKind::IncludeListFirstMissing,
    ExtraKind::IncludeMissingIgnored,
    ExtraKind::IncludeListAllMissingIgnored,
    ExtraKind::IncludeListFirstMissingIgnored,
    ExtraKind::IncludeThinChild,
    ExtraKind::IncludeSameBase,
    ExtraKind::IncludeWithOwnChain,
    ExtraKind::Import,
    ExtraKind::FromImport,
    ExtraKind::FromImportUnknownName,
    ExtraKind::FromImportCapturedBlock,
    ExtraKind::FromImportNamesOfImporter,
    ExtraKind::FromImportOddNames,
];

const GRID_PLACES: [Place; 6] = [Place::Top, Place::Block, Place::LoopInBlock, Place::WithInBlock, Place::Macro, Place::TopCapture];

impl Part for ExtrasGrid {
    type Case = ChainCase;
    const NAME: &'static str = "include_import_grid";

    fn strategy(tier: Tier) -> BoxedStrategy<ChainCase> {
        Chains::strategy(tier)
    }

    fn enumeration(_tier: Tier) -> Vec<ChainCase> {
        use BlockChoice::*;
        let layouts: [[BlockChoice; 4]; 4] = [
            [Plain, Absent, Absent, Absent],
            [SuperBefore, Absent, Absent, Absent],
            [Plain, Absent, Plain, Absent],
            [Absent, Absent, Absent, Absent],
        ];
        let mut out = vec![];
        for n in 1..=3usize {
            for k in 0..n {
                for kind in GRID_KINDS {
                    for place in GRID_PLACES {
                        for layout in layouts {
                            for (top_set, flag) in [(false, true), (true, true), (false, false)] {
                                let levels = (0..n)
                                    .map(|j| Level {
                                        blocks: if j + 1 == n && layout[0] == SuperBefore { [Plain, Absent, Absent, Absent] } else { layout },
                                        ext: if j == 0 && !flag { ExtStyle::InIf } else { ExtStyle::First },
                                        top_set,
                                        text_outside: j == k,
                                        extra: if j == k { Some(Extra { kind, place }) } else { None },
                                    })
                                    .collect();
                                out.push(ChainCase { levels, flag });
                            }
                        }
                    }
                }
            }
        }
        out
    }

    fn check(c: &ChainCase) -> Verdict {
        Chains::check(c)
    }

    fn show(c: &ChainCase) -> serde_json::Value {
        Chains::show(c)
    }
}

// ---------------------------------------------------------------------------
// part 3: error shapes — must come back as errors (of the documented kind), never as output

#[derive(Clone, Debug, Serialize, Deserialize, PartialEq, Eq, Hash)]
pub enum ErrShape {
    /// t0 -> t1 -> ... -> t(n-1) -> t0
    InheritanceCycle { n: u8, dynamic: bool },
    /// t0 includes t1 ... includes t0 (unconditionally)
    IncludeCycle { n: u8, in_block: bool },
    /// an include cycle through a block of the parent
    IncludeOfChildFromParentBlock,
    DoubleExtends { second_in_if: bool, depth: u8 },
    MissingParent { depth: u8, dynamic: bool },
    MissingInclude { depth: u8, in_list: bool, in_loop: bool },
    MissingImport { from: bool, in_macro: bool },
    SuperWithoutParent { depth: u8 },
    SuperOutsideBlock { extending: bool },
    RequiredNotOverridden { depth: u8 },
    ImportCycle,
    /// an inheritance cycle of n templates of which only those selected by the bit mask define a
    /// block (0 = none does); the others only extend, set a variable or hold text
    SparseInheritanceCycle { n: u8, with_block: u8, filler: u8 },
}

#[derive(Clone, Debug, Serialize, Deserialize, PartialEq, Eq, Hash)]
pub struct ErrCase {
    pub shape: ErrShape,
    /// text before the failing construct (a truncated success would show it)
    pub lead_text: bool,
}

fn blk(name: &str, body: Vec<Stmt>) -> Stmt {
    Stmt::Block { name: name.into(), scoped: false, required: false, body }
}

/// a plain chain t0 -> ... -> t(depth) where t(depth) gets `root_body`, every level passes block
/// `a` through with super()
fn chain_to(depth: usize, last: Vec<Stmt>, templates: &mut BTreeMap<String, Vec<Stmt>>) {
    for k in 0..depth {
        templates.insert(
            tname(k),
            vec![Stmt::Extends(s(&tname(k + 1))), blk("a", vec![text(format!("L{k}a(")), Stmt::Emit(call0(v("super"))), text(")")])],
        );
    }
    templates.insert(tname(depth), last);
}

pub fn build_err(c: &ErrCase) -> BTreeMap<String, Vec<Stmt>> {
    let mut t = helper_templates();
    let lead = |b: &mut Vec<Stmt>| {
        if c.lead_text {
            b.push(text("LEAD;"));
        }
    };
    match &c.shape {
        ErrShape::InheritanceCycle { n, dynamic } => {
            let n = *n as usize;
            for k in 0..n {
                let parent = tname((k + 1) % n);
                let mut b = vec![];
                lead(&mut b);
                if *dynamic {
                    b.push(Stmt::Extends(Expr::Bin(BinOp::Concat, Box::new(s(&parent[..1])), Box::new(s(&parent[1..])))));
                } else {
                    b.push(Stmt::Extends(s(&parent)));
                }
                b.push(blk("a", vec![text(format!("L{k}a"))]));
                t.insert(tname(k), b);
            }
        }
        ErrShape::SparseInheritanceCycle { n, with_block, filler } => {
            let n = *n as usize;
            for k in 0..n {
                let parent = tname((k + 1) % n);
                let mut b = vec![];
                lead(&mut b);
                b.push(Stmt::Extends(s(&parent)));
                match filler % 3 {
                    1 => b.push(Stmt::Set { target: Target::Name(format!("sv{k}")), value: s("x") }),
                    2 => b.push(text(format!("filler{k}"))),
                    _ => {}
                }
                if with_block & (1 << k) != 0 {
                    b.push(blk("a", vec![text(format!("L{k}a"))]));
                }
                t.insert(tname(k), b);
            }
        }
        ErrShape::IncludeCycle { n, in_block } => {
            let n = *n as usize;
            for k in 0..n {
                let next = tname((k + 1) % n);
                let mut b = vec![];
                lead(&mut b);
                b.push(text(format!("T{k}<")));
                let inc = Stmt::Include { name: s(&next), ignore_missing: false };
                if *in_block {
                    b.push(blk("a", vec![inc]));
                } else {
                    b.push(inc);
                }
                b.push(text(">"));
                t.insert(tname(k), b);
            }
        }
        ErrShape::IncludeOfChildFromParentBlock => {
            let mut b = vec![];
            lead(&mut b);
            b.push(Stmt::Extends(s("t1.txt")));
            t.insert(tname(0), b);
            t.insert(tname(1), vec![text("R["), blk("a", vec![Stmt::Include { name: s("t0.txt"), ignore_missing: false }]), text("]")]);
        }
        ErrShape::DoubleExtends { second_in_if, depth } => {
            let d = *depth as usize;
            let mut b = vec![];
            lead(&mut b);
            b.push(Stmt::Extends(s(&tname(d + 1))));
            if *second_in_if {
                b.push(Stmt::If { branches: vec![(v("flag"), vec![Stmt::Extends(s("alt.txt"))])], else_: None });
            } else {
                b.push(Stmt::Extends(s("alt.txt")));
            }
            b.push(blk("a", vec![text("x")]));
            chain_to(d, b, &mut t);
            t.insert(tname(d + 1), vec![text("R["), blk("a", vec![text("ra")]), text("]")]);
        }
        ErrShape::MissingParent { depth, dynamic } => {
            let mut b = vec![];
            lead(&mut b);
            if *dynamic {
                b.push(Stmt::Extends(Expr::Bin(BinOp::Concat, Box::new(s("missing")), Box::new(s("1.txt")))));
            } else {
                b.push(Stmt::Extends(s("missing1.txt")));
            }
            b.push(blk("a", vec![text("x")]));
            chain_to(*depth as usize, b, &mut t);
        }
        ErrShape::MissingInclude { depth, in_list, in_loop } => {
            let name = if *in_list { Expr::List(vec![s("missing1.txt"), s("missing2.txt")]) } else { s("missing1.txt") };
            let mut inc = vec![Stmt::Include { name, ignore_missing: false }];
            if *in_loop {
                inc = vec![Stmt::For { target: Target::Name("i".into()), iter: v("items"), filter: None, recursive: false, body: inc, else_: None }];
            }
            let mut b = vec![];
            lead(&mut b);
            b.push(text("R["));
            let mut body = vec![text("ra(")];
            body.extend(inc);
            body.push(text(")"));
            b.push(blk("a", body));
            b.push(text("]"));
            chain_to(*depth as usize, b, &mut t);
        }
        ErrShape::MissingImport { from, in_macro } => {
            let imp = if *from {
                Stmt::FromImport { name: s("missing1.txt"), names: vec![("m1".into(), None)] }
            } else {
                Stmt::Import { name: s("missing1.txt"), alias: "h".into() }
            };
            let mut b = vec![];
            lead(&mut b);
            if *in_macro {
                b.push(Stmt::Macro { name: "mk".into(), params: vec![], body: vec![text("mk("), imp, text(")")] });
                b.push(Stmt::Emit(call0(v("mk"))));
            } else {
                b.push(imp);
            }
            b.push(text("after"));
            t.insert(tname(0), b);
        }
        ErrShape::SuperWithoutParent { depth } => {
            let mut b = vec![];
            lead(&mut b);
            b.push(text("R["));
            b.push(blk("a", vec![text("ra("), Stmt::Emit(call0(v("super"))), text(")")]));
            b.push(text("]"));
            chain_to(*depth as usize, b, &mut t);
        }
        ErrShape::SuperOutsideBlock { extending } => {
            let mut b = vec![];
            lead(&mut b);
            if *extending {
                b.push(Stmt::Extends(s("alt.txt")));
            }
            b.push(Stmt::Emit(call0(v("super"))));
            t.insert(tname(0), b);
        }
        ErrShape::RequiredNotOverridden { depth } => {
            let mut b = vec![];
            lead(&mut b);
            b.push(text("R["));
            b.push(Stmt::Block { name: "b".into(), scoped: false, required: true, body: vec![] });
            b.push(blk("a", vec![text("ra")]));
            b.push(text("]"));
            chain_to(*depth as usize, b, &mut t);
        }
        ErrShape::ImportCycle => {
            let mut b = vec![];
            lead(&mut b);
            b.push(Stmt::Import { name: s("t1.txt"), alias: "h".into() });
            b.push(text("x"));
            t.insert(tname(0), b);
            t.insert(tname(1), vec![Stmt::Import { name: s("t0.txt"), alias: "g".into() }, text("y")]);
        }
    }
    t
}

pub struct ErrorShapes;

fn all_err_cases() -> Vec<ErrCase> {
    let mut shapes = vec![];
    for n in 1..=5u8 {
        for dynamic in [false, true] {
            shapes.push(ErrShape::InheritanceCycle { n, dynamic });
        }
        for in_block in [false, true] {
            shapes.push(ErrShape::IncludeCycle { n, in_block });
        }
    }
    for n in 1..=4u8 {
        for with_block in 0..(1u8 << n) - 1 {
            for filler in 0..3u8 {
                shapes.push(ErrShape::SparseInheritanceCycle { n, with_block, filler });
            }
        }
    }
    shapes.push(ErrShape::IncludeOfChildFromParentBlock);
    for depth in 0..=3u8 {
        for b in [false, true] {
            shapes.push(ErrShape::DoubleExtends { second_in_if: b, depth });
            shapes.push(ErrShape::MissingParent { depth, dynamic: b });
            for in_loop in [false, true] {
                shapes.push(ErrShape::MissingInclude { depth, in_list: b, in_loop });
            }
        }
        shapes.push(ErrShape::SuperWithoutParent { depth });
        shapes.push(ErrShape::RequiredNotOverridden { depth });
    }
    for from in [false, true] {
        for in_macro in [false, true] {
            shapes.push(ErrShape::MissingImport { from, in_macro });
        }
    }
    for extending in [false, true] {
        shapes.push(ErrShape::SuperOutsideBlock { extending });
    }
    shapes.push(ErrShape::ImportCycle);
    let mut out = vec![];
    for shape in shapes {
        for lead_text in [false, true] {
            out.push(ErrCase { shape: shape.clone(), lead_text });
        }
    }
    out
}

impl Part for ErrorShapes {
    type Case = ErrCase;
    const NAME: &'static str = "error_shapes";

    fn strategy(_tier: Tier) -> BoxedStrategy<ErrCase> {
        let all = all_err_cases();
        (0..all.len()).prop_map(move |i| all[i].clone()).boxed()
    }

    fn enumeration(_tier: Tier) -> Vec<ErrCase> {
        all_err_cases()
    }

    fn check(c: &ErrCase) -> Verdict {
        let mut v = Verdict::pass(true);
        let templates = build_err(c);
        let dummy = ChainCase { levels: vec![], flag: true };
        // the reference interpreter has to see an error too, otherwise the shape is not one
        let (_, mctx) = model_ctx(&dummy);
        match Interp::new(&templates, mctx).render("t0.txt") {
            Err(RErr::Unsupported(why)) => {
                v.set_fail("error_shape_outside_model", format!("the reference interpreter does not cover the shape: {why}"));
                return v;
            }
            Err(_) => {}
            Ok(out) => {
                v.set_fail("error_shape_is_not_an_error_in_the_model", format!("the reference interpreter renders {out:?}"));
                return v;
            }
        }
        compare(&templates, &dummy, &mut v);
        v
    }

    fn show(c: &ErrCase) -> serde_json::Value {
        let t = build_err(c);
        let srcs: BTreeMap<String, String> = sources(&t).into_iter().filter(|(k, _)| k.starts_with('t')).collect();
        serde_json::json!({"shape": c.shape, "lead_text": c.lead_text, "templates": srcs})
    }
}


// ---------------------------------------------------------------------------
// part 4: inheritance cycles spelled with relative names under a path join callback

#[derive(Clone, Debug, Serialize, Deserialize, PartialEq, Eq, Hash)]
pub struct JoinCase {
    /// length of the cycle dir/c0 -> ./c1 -> ... -> ./c0
    pub n: u8,
    /// the rendered template reaches the cycle through `extends` (else it is part of it)
    pub from_outside: bool,
    pub lead_text: bool,
}

pub struct JoinedCycles;

impl Part for JoinedCycles {
    type Case = JoinCase;
    const NAME: &'static str = "cycles_under_path_join_callback";

    fn strategy(_tier: Tier) -> BoxedStrategy<JoinCase> {
        (1u8..5, any::<bool>(), any::<bool>()).prop_map(|(n, from_outside, lead_text)| JoinCase { n, from_outside, lead_text }).boxed()
    }

    fn enumeration(_tier: Tier) -> Vec<JoinCase> {
        let mut out = vec![];
        for n in 1..=4u8 {
            for from_outside in [false, true] {
                for lead_text in [false, true] {
                    out.push(JoinCase { n, from_outside, lead_text });
                }
            }
        }
        out
    }

    fn check(c: &JoinCase) -> Verdict {
        let mut v = Verdict::pass(true);
        let mut env = Environment::new();
        env.set_fuel(Some(200_000));
        // the algorithm from the documentation of set_path_join_callback
        env.set_path_join_callback(|name, parent| {
            let mut rv = parent.split('/').collect::<Vec<_>>();
            rv.pop();
            name.split('/').for_each(|segment| match segment {
                "." => {}
                ".." => {
                    rv.pop();
                }
                _ => rv.push(segment),
            });
            rv.join("/").into()
        });
        let lead = if c.lead_text { "LEAD;" } else { "" };
        for k in 0..c.n {
            let next = (k + 1) % c.n;
            env.add_template_owned(format!("dir/c{k}"), format!("{lead}{{% extends './c{next}' %}}{{% block a %}}c{k}{{% endblock %}}")).unwrap();
        }
        env.add_template_owned("main".to_string(), format!("{lead}{{% extends 'dir/c0' %}}")).unwrap();
        let start = if c.from_outside { "main" } else { "dir/c0" };
        match env.get_template(start).unwrap().render(()) {
            Ok(out) => v.set_fail("error_shape_rendered_as_success", format!("an inheritance cycle of {} templates rendered {out:?}", c.n)),
            Err(e) => {
                let k = innermost_kind(&e);
                if k != ErrorKind::InvalidOperation {
                    v.set_fail("wrong_error_kind", format!("an inheritance cycle of {} relative names ends with {k:?} instead of a cycle error: {e:#}", c.n));
                }
            }
        }
        v
    }

    fn show(c: &JoinCase) -> serde_json::Value {
        serde_json::json!({"cycle_length": c.n, "from_outside": c.from_outside, "lead_text": c.lead_text})
    }
}


// ---------------------------------------------------------------------------
// part 5: hand-written compositions with the output the statement's rules give (derived by hand)

#[derive(Clone, Debug, Serialize, Deserialize)]
pub struct PinnedComposition {
    pub name: String,
    /// (template name, source); the first one is rendered
    pub templates: Vec<(String, String)>,
    pub expected: String,
}

pub struct PinnedCompositions;

fn pinned_compositions() -> Vec<PinnedComposition> {
    let mk = |name: &str, templates: &[(&str, &str)], expected: &str| PinnedComposition {
        name: name.to_string(),
        templates: templates.iter().map(|(a, b)| (a.to_string(), b.to_string())).collect(),
        expected: expected.to_string(),
    };
    vec![
        // most-derived definition, super() one level up, fall-through, discarded outside text
        mk(
            "three_levels",
            &[
                ("c", "{% extends 'b' %}x{% block a %}C({{ super() }}){% endblock %}y"),
                ("b", "{% extends 'p' %}{% block a %}B({{ super() }}){% endblock %}{% block z %}BZ{% endblock %}"),
                ("p", "<{% block a %}P{% endblock %}|{% block z %}PZ{% endblock %}|{% block u %}PU{% endblock %}>"),
            ],
            "<C(B(P))|BZ|PU>",
        ),
        // self.name() renders the most-derived definition wherever it is written: in a block ...
        mk(
            "self_call_in_block",
            &[("c", "{% extends 'p' %}{% block t %}T{% endblock %}{% block body %}t={{ self.t() }}{% endblock %}"), ("p", "<{% block t %}PT{% endblock %}|{% block body %}{% endblock %}>")],
            "<T|t=T>",
        ),
        // ... and in the top-level code of an extending template (its assignments run)
        mk(
            "self_call_at_top_level_of_child",
            &[("c", "{% extends 'p' %}{% set t = self.t() %}{% block t %}T{% endblock %}{% block body %}t={{ t }}{% endblock %}"), ("p", "<{% block t %}PT{% endblock %}|{% block body %}{% endblock %}>")],
            "<T|t=T>",
        ),
        mk(
            "self_call_before_extends",
            &[("c", "{% set t = self.t() %}{% extends 'p' %}{% block t %}T{% endblock %}{% block body %}t={{ t }}{% endblock %}"), ("p", "<{% block t %}PT{% endblock %}|{% block body %}{% endblock %}>")],
            "<T|t=T>",
        ),
        // self.x() reached through super() of x still means the most-derived x
        mk(
            "self_call_during_super_of_same_block",
            &[
                ("c", "{% extends 'p' %}{% block x %}C{% if not ns.done %}{{ super() }}{% endif %}{% endblock %}"),
                ("p", "{% set ns = namespace(done=false) %}{% block x %}P{% if not ns.done %}{% set ns.done = true %}{{ self.x() }}{% endif %}{% endblock %}"),
            ],
            "CPC",
        ),
        // include: first existing of a list, the includer's current variables
        mk(
            "include_list_and_variables",
            &[("m", "{% set v = 1 %}{% for i in [1, 2] %}{% include ['nope', 'inc'] %}{% endfor %}{% set v = 2 %}{% include 'inc' %}"), ("inc", "[{{ v }}{{ i }}]")],
            "[11][12][2]",
        ),
        // missing candidates cost nothing that adds up: many includes in one render
        mk(
            "many_includes_with_missing_candidates",
            &[
                ("m", "{% for i in range(70) %}{% include ['nope', 'inc'] %}{% include 'nope' ignore missing %}{% include ['nope', 'nada'] ignore missing %}{% endfor %}|{% include 'inc' %}"),
                ("inc", "."),
            ],
            &format!("{}|.", ".".repeat(70)),
        ),
        // import exposes exactly the module's top-level macros and variables
        mk(
            "import_exposes_top_level_names",
            &[
                ("m", "{% import 'lib' as l %}{{ l.f(1) }}|{{ l.v }}|{{ l.inner is defined }}|{{ l.x is defined }}{% from 'lib' import f as g, v %}|{{ g(2) }}|{{ v }}"),
                ("lib", "{% macro f(a) %}F{{ a }}{% endmacro %}{% set v = 'V' %}{% for q in [1] %}{% set inner = 1 %}{% endfor %}text"),
            ],
            "F1|V|False|False|F2|V",
        ),
    ]
}

impl Part for PinnedCompositions {
    type Case = PinnedComposition;
    const NAME: &'static str = "pinned_compositions";

    fn strategy(_tier: Tier) -> BoxedStrategy<PinnedComposition> {
        let all = pinned_compositions();
        (0..all.len()).prop_map(move |i| all[i].clone()).boxed()
    }

    fn enumeration(_tier: Tier) -> Vec<PinnedComposition> {
        pinned_compositions()
    }

    fn check(c: &PinnedComposition) -> Verdict {
        let mut v = Verdict::pass(true);
        let mut env = Environment::new();
        env.set_fuel(Some(200_000));
        for (n, src) in &c.templates {
            if let Err(e) = env.add_template_owned(n.clone(), src.clone()) {
                v.set_fail(format!("pinned:{}", c.name), format!("template {n} does not load: {e}"));
                return v;
            }
        }
        let got = env.get_template(&c.templates[0].0).unwrap().render(Value::from_pairs([("x", Value::from("ctx-x"))]));
        match got {
            Ok(g) if g == c.expected => {}
            other => v.set_fail(format!("pinned:{}", c.name), format!("the rules of the statement give {:?}, the engine: {other:?}
templates: {:?}", c.expected, c.templates)),
        }
        v
    }
}

crate::declare_parts!(Chains, Shapes, ExtrasGrid, ErrorShapes, JoinedCycles, PinnedCompositions);

pub fn run(ctx: &mut Ctx) {
    ctx.rule = "inheritance chains of 1-5 templates described by a shape vector: per (template, block in {a, b, c nested in a, d nested in c}) one of absent / override / super() before / after / twice / self.b(); extends as first tag, after text, inside `if flag`, with a dynamic name or a conditional expression; top-level set and text outside blocks; per template optionally an include (literal, dynamic, list with missing first entry, ignore missing, of a template with its own chain reusing block name a) or import / from-import (aliases, unknown names) placed at top level, in a block, in a loop or with-block inside a block, inside a macro, or inside a top-level set block whose captured value every block prints (in an extending template that is a real capture within the discarded region); from-import of a variable that a set block containing a block built. Part include_import_grid enumerates every kind x place x level of chains of 1-3 templates x 4 block layouts. Oracle: the reference interpreter's multi-template semantics (most-derived definition, super() = next defining ancestor, fall-through, discarded outside text, include sees current variables, module exposes exactly top-level macros and variables). Part all_shape_vectors enumerates every shape vector over {a, c in a} x 5 choices for chains up to 4 (quick) / 5 (thorough) templates (thorough also with block b, up to 4 templates); a root with super() is left to error_shapes. Part error_shapes enumerates inheritance/include/import cycles, double extends, missing parent/include/import, super() without parent or outside a block, required block not overridden: the render must return an error of the documented kind; part cycles_under_path_join_callback spells cycles of 1-4 templates with relative names under the documented path-join callback. Non-trivial: >=3 templates with a block defined at non-adjacent levels, or an include/import inside a block, loop, with or macro. Distinct by shape vector.".into();
    ctx.assumptions = vec![
        "refint.rs implements the documented composition semantics; names assigned by an included template are never read afterwards, super() into a required block and required blocks below an overriding definition are not generated (the documentation is silent)".into(),
        "macro bodies only read their parameters and render-context variables (what a macro sees of its defining template's later top-level assignments is not specified)".into(),
    ];
    preamble(ctx);
    let t = ctx.tier;
    ctx.run_enumerated::<ErrorShapes>(ErrorShapes::enumeration(t), false);
    ctx.run_enumerated::<JoinedCycles>(JoinedCycles::enumeration(t), false);
    ctx.run_enumerated::<Shapes>(Shapes::enumeration(t), true);
    ctx.run_enumerated::<ExtrasGrid>(ExtrasGrid::enumeration(t), true);
    ctx.run_enumerated::<PinnedCompositions>(PinnedCompositions::enumeration(t), false);
    ctx.run_part::<Chains>(t.pick(40_000, 12_000_000));
}
