//! C03 — core language constructs render according to the documented semantics.
use std::collections::BTreeMap;

use minijinja::{Environment, Value};
use proptest::prelude::*;
use serde::{Deserialize, Serialize};

use crate::gen::ast::*;
use crate::gen::print;
use crate::gen::typed;
use crate::refint::{Interp, RErr, V};
use crate::runner::{Ctx, Part, Tier, Verdict};

#[derive(Clone, Debug, Serialize, Deserialize)]
pub struct ProgCase {
    /// choice tape of the scope-tracking generator
    pub tape: Vec<u8>,
    pub budget: u16,
    pub ctx_variant: u8,
    pub loop_controls: bool,
}

pub fn contexts(variant: u8) -> (Vec<(&'static str, Value)>, BTreeMap<String, V>) {
    let ints = |v: &[i64]| -> (Value, V) {
        (
            Value::from(v.iter().map(|x| Value::from(*x)).collect::<Vec<_>>()),
            V::List(v.iter().map(|x| V::Int(*x as i128)).collect()),
        )
    };
    let strs = |v: &[&str]| -> (Value, V) {
        (
            Value::from(v.iter().map(|x| Value::from(*x)).collect::<Vec<_>>()),
            V::List(v.iter().map(|x| V::Str(x.to_string())).collect()),
        )
    };
    let (ci, cj, cs, cb, cl, cls, cp, cm): (i64, i64, &str, bool, Vec<i64>, Vec<&str>, Vec<[i64; 2]>, [i64; 2]) = match variant % 4 {
        0 => (7, 0, "ctx", true, vec![3, 1, 2], vec!["b", "a", "c"], vec![[1, 2], [3, 4]], [5, 6]),
        1 => (0, 3, "", false, vec![], vec!["z"], vec![], [0, 1]),
        2 => (-4, 9, "H\u{e9}llo W\u{f6}rld", true, vec![5, 5, 2, 8, 1], vec![], vec![[0, 0]], [2, 2]),
        _ => (1, 1, "a", false, vec![4], vec!["Q", "q", "\u{e4}bc"], vec![[9, 8], [7, 6], [5, 4]], [-1, 3]),
    };
    let (clv, clr) = ints(&cl);
    let (clsv, clsr) = strs(&cls);
    let cpv = Value::from(cp.iter().map(|p| Value::from(vec![Value::from(p[0]), Value::from(p[1])])).collect::<Vec<_>>());
    let cpr = V::List(cp.iter().map(|p| V::List(vec![V::Int(p[0] as i128), V::Int(p[1] as i128)])).collect());
    let cmv = Value::from_pairs([("k", Value::from(cm[0])), ("j", Value::from(cm[1]))]);
    let cmr = V::Map(vec![("k".into(), V::Int(cm[0] as i128)), ("j".into(), V::Int(cm[1] as i128))]);
    let (cev, cer) = ints(&[]);
    let engine = vec![
        ("ci", Value::from(ci)),
        ("cj", Value::from(cj)),
        ("cs", Value::from(cs)),
        ("cb", Value::from(cb)),
        ("cl", clv),
        ("cls", clsv),
        ("cp", cpv),
        ("cm", cmv),
        ("ce", cev),
    ];
    let mut model = BTreeMap::new();
    model.insert("ci".to_string(), V::Int(ci as i128));
    model.insert("cj".to_string(), V::Int(cj as i128));
    model.insert("cs".to_string(), V::Str(cs.to_string()));
    model.insert("cb".to_string(), V::Bool(cb));
    model.insert("cl".to_string(), clr);
    model.insert("cls".to_string(), clsr);
    model.insert("cp".to_string(), cpr);
    model.insert("cm".to_string(), cmr);
    model.insert("ce".to_string(), cer);
    (engine, model)
}

pub struct Core;

fn describe(body: &[Stmt]) -> (bool, usize) {
    // non-trivial: a loop or a macro call, and at least two different scoped constructs nested
    let mut has_loop_or_call = false;
    let mut max_nest = 0usize;
    fn nest(body: &[Stmt], kinds: &mut Vec<&'static str>, max: &mut usize, hl: &mut bool) {
        for s in body {
            let (k, inner): (Option<&'static str>, Vec<&Vec<Stmt>>) = match s {
                Stmt::For { body, else_, .. } => {
                    *hl = true;
                    let mut v = vec![body];
                    if let Some(e) = else_ {
                        v.push(e);
                    }
                    (Some("for"), v)
                }
                Stmt::With { body, .. } => (Some("with"), vec![body]),
                Stmt::SetBlock { body, .. } => (Some("setblock"), vec![body]),
                Stmt::FilterBlock { body, .. } => (Some("filter"), vec![body]),
                Stmt::Macro { body, .. } => (Some("macro"), vec![body]),
                Stmt::CallBlock { body, .. } => {
                    *hl = true;
                    (Some("call"), vec![body])
                }
                Stmt::If { branches, else_ } => {
                    let mut v: Vec<&Vec<Stmt>> = branches.iter().map(|b| &b.1).collect();
                    if let Some(e) = else_ {
                        v.push(e);
                    }
                    (None, v)
                }
                _ => (None, vec![]),
            };
            if let Some(k) = k {
                kinds.push(k);
                let mut d = kinds.clone();
                d.sort();
                d.dedup();
                *max = (*max).max(d.len());
            }
            for b in inner {
                nest(b, kinds, max, hl);
            }
            if k.is_some() {
                kinds.pop();
            }
        }
    }
    let mut kinds = vec![];
    nest(body, &mut kinds, &mut max_nest, &mut has_loop_or_call);
    let mut calls = false;
    map_stmt_exprs(&mut body.to_vec(), &mut |e| {
        e.walk(&mut |x| {
            if matches!(x, Expr::Call(c, _) if matches!(&**c, Expr::Var(n) if n.starts_with("mac"))) {
                calls = true;
            }
        })
    });
    (has_loop_or_call || calls, max_nest)
}

/// runs a program through the reference interpreter and the engine and compares
fn compare(body: &[Stmt], ctx_variant: u8) -> Verdict {
    let body = body.to_vec();
    let source = print::template_default(&body);
    let (engine_ctx, model_ctx) = contexts(ctx_variant);
    let (interesting, nest) = describe(&body);
    let mut v = Verdict::pass(interesting && nest >= 2);
    if source.contains("{% break %}") {
        v.labels.push("has_break");
    }
    if source.contains("macro") {
        v.labels.push("has_macro");
    }
    if source.contains("{% call") {
        v.labels.push("has_call_block");
    }
    // reference
    let mut templates = BTreeMap::new();
    templates.insert("t.txt".to_string(), body.clone());
    let want = Interp::new(&templates, model_ctx).render("t.txt");
    // engine
    let mut env = Environment::new();
    env.set_fuel(Some(500_000));
    // whitespace handling is C10's subject
    env.set_keep_trailing_newline(true);
    let got = env
        .add_template_owned("t.txt".to_string(), source.clone())
        .and_then(|_| env.get_template("t.txt").unwrap().render(Value::from_pairs(engine_ctx)));
    match (want, got) {
        (Err(RErr::Unsupported(why)), _) => {
            // the generator left the fragment: a harness problem, not a verdict
            v.nontrivial = false;
            v.labels.push("outside_fragment");
            let _ = why;
        }
        (Ok(w), Ok(g)) => {
            if w != g {
                v.set_fail(
                    "output_differs_from_documented_semantics",
                    format!("documented semantics give {w:?}\nthe engine renders       {g:?}\nsource: {source}"),
                );
            }
        }
        // the fuel budget is the harness' own protection against endless programs
        (Ok(_), Err(e)) if e.kind() == minijinja::ErrorKind::OutOfFuel => {
            v.nontrivial = false;
            v.labels.push("out_of_fuel");
        }
        (Ok(w), Err(e)) => v.set_fail(
            "engine_fails_on_valid_program",
            format!("documented semantics give {w:?} but the engine fails: {e:#}\nsource: {source}"),
        ),
        (Err(e), Ok(g)) => v.set_fail(
            "engine_accepts_documented_error",
            format!("documented semantics fail with {e:?} but the engine renders {g:?}\nsource: {source}"),
        ),
        (Err(_), Err(_)) => v.labels.push("both_fail"),
    }
    v
}

/// Hand-written programs (the minimal forms of defects this check found, and shapes from the
/// documentation), kept as ASTs so they do not depend on the generator's tape decoding.
#[derive(Clone, Debug, Serialize, Deserialize)]
pub struct PinnedCase {
    pub name: String,
    pub body: Vec<Stmt>,
    pub ctx_variant: u8,
}

pub struct Pinned;

fn pinned_programs() -> Vec<(&'static str, Vec<Stmt>)> {
    let t = |s: &str| Stmt::Text(s.to_string());
    let v = Expr::var;
    let emit = Stmt::Emit;
    let name = |s: &str| Target::Name(s.to_string());
    let attr = |e: Expr, a: &str| Expr::Attr(Box::new(e), a.to_string());
    let item = |e: Expr, i: Expr| Expr::Item(Box::new(e), Box::new(i));
    let neg = |e: Expr| Expr::Neg(Box::new(e));
    let for_ = |tg: Target, iter: Expr, filter: Option<Expr>, body: Vec<Stmt>, else_: Option<Vec<Stmt>>| Stmt::For {
        target: tg,
        iter,
        filter,
        recursive: false,
        body,
        else_,
    };
    let loopattr = |a: &str| Expr::Attr(Box::new(Expr::var("loop")), a.to_string());
    vec![
        // F-C03-forelse: break in the first iteration is not "did not iterate"
        ("forelse_break_first", vec![for_(name("x"), v("cl"), None, vec![t("a"), Stmt::Break], Some(vec![t("E")])), t(".")]),
        ("forelse_break_second", vec![
            for_(name("x"), v("cl"), None, vec![
                Stmt::If { branches: vec![(loopattr("index0"), vec![Stmt::Break])], else_: None },
                emit(v("x")),
            ], Some(vec![t("E")])),
            t("."),
        ]),
        ("forelse_continue_all", vec![for_(name("x"), v("cl"), None, vec![Stmt::Continue, t("a")], Some(vec![t("E")])), t(".")]),
        ("forelse_filter_rejects_all", vec![
            for_(name("x"), v("cl"), Some(Expr::Cmp(Box::new(v("x")), vec![(CmpOp::Gt, Expr::int(100))])), vec![emit(v("x"))], Some(vec![t("E"), emit(v("x").filter("default", vec![Arg::Pos(Expr::str("u"))]))])),
        ]),
        // F-C03-unaryminus: postfix operators bind tighter than unary minus
        ("neg_attr", vec![emit(neg(attr(v("cm"), "k"))), t(" "), emit(neg(item(v("cm"), Expr::str("j"))))]),
        ("neg_item_of_list", vec![emit(neg(item(Expr::List(vec![Expr::int(4), Expr::int(5)]), Expr::int(1))))]),
        // documentation shapes
        ("loop_vars", vec![for_(name("x"), v("cl"), None, vec![
            emit(loopattr("index")), t(":"), emit(loopattr("revindex")), t(":"), emit(loopattr("first")), t(":"), emit(loopattr("last")),
            t(":"), emit(loopattr("previtem")), t(":"), emit(loopattr("nextitem")), t(";"),
        ], None)]),
        // a string is iterated character by character and the loop knows its length
        ("loop_over_string", vec![for_(name("x"), v("cs"), None, vec![
            emit(v("x")), t(":"), emit(loopattr("index")), t("/"), emit(loopattr("length")), t(":"), emit(loopattr("revindex")), t(":"), emit(loopattr("last")), t(";"),
        ], Some(vec![t("empty")]))]),
        ("set_in_loop_is_local", vec![
            Stmt::Set { target: name("found"), value: Expr::Bool(false) },
            for_(name("x"), v("cl"), None, vec![Stmt::Set { target: name("found"), value: Expr::Bool(true) }], None),
            emit(v("found")),
        ]),
        ("set_in_if_persists", vec![
            Stmt::If { branches: vec![(Expr::Bool(true), vec![Stmt::Set { target: name("y"), value: Expr::int(3) }])], else_: None },
            emit(v("y")),
        ]),
        ("with_scope_ends", vec![
            Stmt::With { bindings: vec![(name("a"), Expr::int(1)), (name("b"), Expr::Bin(BinOp::Add, Box::new(v("ci")), Box::new(Expr::int(1))))], body: vec![emit(v("a")), t(","), emit(v("b"))] },
            emit(Expr::Test(Box::new(v("a")), "defined".into(), vec![], false)),
        ]),
        // a macro / call block body that reads a template-level name only in the else branch of a loop
        ("macro_reads_outer_name_in_for_else", vec![
            Stmt::Set { target: name("outer"), value: Expr::str("O") },
            Stmt::Macro { name: "mac1".into(), params: vec![], body: vec![t("m1")] },
            Stmt::Macro { name: "mac2".into(), params: vec![], body: vec![t("("), emit(Expr::call("caller", vec![])), t(")")] },
            Stmt::Macro { name: "mac0".into(), params: vec![("p".into(), None)], body: vec![
                for_(name("x"), v("p"), None, vec![emit(v("x"))], Some(vec![t("<"), emit(v("outer")), emit(Expr::call("mac1", vec![])), t(">")])),
            ] },
            emit(Expr::call("mac0", vec![v("ce")])), t("|"), emit(Expr::call("mac0", vec![v("cl")])),
            Stmt::CallBlock { params: vec![], call: Expr::call("mac2", vec![]), body: vec![
                for_(name("x"), v("cl"), Some(Expr::Bool(false)), vec![emit(v("x"))], Some(vec![emit(v("outer"))])),
            ] },
        ]),
        // none is a value like any other for positional and keyword arguments and call-block parameters
        ("macro_arguments_that_are_none", vec![
            Stmt::Macro { name: "mac0".into(), params: vec![("p".into(), Some(Expr::str("dp"))), ("q".into(), Some(Expr::int(2)))], body: vec![t("["), emit(v("p")), t("|"), emit(v("q")), t("]")] },
            emit(Expr::Call(Box::new(v("mac0")), vec![Arg::Pos(Expr::None)])),
            emit(Expr::Call(Box::new(v("mac0")), vec![Arg::Kw("p".into(), Expr::None)])),
            emit(Expr::Call(Box::new(v("mac0")), vec![Arg::Kw("q".into(), Expr::None)])),
            emit(Expr::Call(Box::new(v("mac0")), vec![Arg::Pos(v("ci")), Arg::Kw("q".into(), Expr::None)])),
            emit(Expr::Call(Box::new(v("mac0")), vec![Arg::Kw("q".into(), Expr::None), Arg::Kw("p".into(), Expr::None)])),
            emit(Expr::Call(Box::new(v("mac0")), vec![])),
            Stmt::Macro { name: "mac1".into(), params: vec![], body: vec![t("<"), emit(Expr::Call(Box::new(v("caller")), vec![Arg::Pos(Expr::None)])), emit(Expr::Call(Box::new(v("caller")), vec![])), t(">")] },
            Stmt::CallBlock { params: vec![("n".into(), Some(Expr::int(9)))], call: Expr::call("mac1", vec![]), body: vec![t("("), emit(v("n")), t(")")] },
        ]),
        ("macro_defaults_kwargs_caller", vec![
            Stmt::Macro { name: "mac0".into(), params: vec![("p".into(), None), ("q".into(), Some(Expr::str("dq")))], body: vec![t("<"), emit(v("p")), t("|"), emit(v("q")), t("|"), emit(Expr::call("caller", vec![Expr::int(7)])), t(">")] },
            Stmt::CallBlock { params: vec![("n".into(), None)], call: Expr::Call(Box::new(v("mac0")), vec![Arg::Pos(Expr::int(1)), Arg::Kw("q".into(), v("cs"))]), body: vec![t("c"), emit(v("n"))] },
            Stmt::CallBlock { params: vec![("n".into(), Some(Expr::int(9)))], call: Expr::Call(Box::new(v("mac0")), vec![Arg::Kw("p".into(), Expr::int(2))]), body: vec![emit(v("n")), emit(v("ci"))] },
        ]),
        ("unpack_pairs_filter_block", vec![
            Stmt::FilterBlock { name: "upper".into(), args: vec![], body: vec![
                for_(Target::Tuple(vec![name("a"), name("b")]), v("cp"), None, vec![emit(v("a")), t("x"), emit(v("b")), t(";")], Some(vec![t("none")])),
            ] },
        ]),
    ]
}

impl Part for Pinned {
    type Case = PinnedCase;
    const NAME: &'static str = "pinned_programs";

    fn strategy(_tier: Tier) -> BoxedStrategy<PinnedCase> {
        let all = Self::enumeration(Tier::Quick);
        (0..all.len()).prop_map(move |i| all[i].clone()).boxed()
    }

    fn enumeration(_tier: Tier) -> Vec<PinnedCase> {
        let mut out = vec![];
        for (n, body) in pinned_programs() {
            for ctx_variant in 0..4u8 {
                out.push(PinnedCase { name: n.to_string(), body: body.clone(), ctx_variant });
            }
        }
        out
    }

    fn check(c: &PinnedCase) -> Verdict {
        let mut v = compare(&c.body, c.ctx_variant);
        if v.labels.contains(&"outside_fragment") {
            v.set_fail("pinned_program_outside_fragment", format!("{}: the reference interpreter does not cover a pinned program", c.name));
        }
        v.nontrivial = true;
        v
    }

    fn show(c: &PinnedCase) -> serde_json::Value {
        serde_json::json!({"name": c.name, "source": print::template_default(&c.body), "ctx_variant": c.ctx_variant})
    }
}

impl Part for Core {
    type Case = ProgCase;
    const NAME: &'static str = "core_fragment_vs_reference";

    fn strategy(tier: Tier) -> BoxedStrategy<ProgCase> {
        (
            prop::collection::vec(any::<u8>(), 20..tier.pick(260usize, 400)),
            20u16..90,
            0u8..4,
            prop::bool::weighted(0.3),
        )
            .prop_map(|(tape, budget, ctx_variant, loop_controls)| ProgCase { tape, budget, ctx_variant, loop_controls })
            .boxed()
    }

    fn check(c: &ProgCase) -> Verdict {
        let body = typed::program(&c.tape, c.budget as i32, c.loop_controls);
        compare(&body, c.ctx_variant)
    }

    fn show(c: &ProgCase) -> serde_json::Value {
        let body = typed::program(&c.tape, c.budget as i32, c.loop_controls);
        serde_json::json!({"source": print::template_default(&body), "ctx_variant": c.ctx_variant})
    }
}


/// Unpacking assignments whose right-hand side reads the names being assigned (swaps, rotations,
/// `set a, b = x, a + 1`): the right-hand side is evaluated completely before any target is
/// bound, in `set` and in `with`, at template level, in a loop, in a macro and in an if-branch.
#[derive(Clone, Debug, Serialize, Deserialize)]
pub struct AssignCase {
    /// false = set, true = with
    pub with: bool,
    /// right-hand side written as a list literal instead of a tuple
    pub list: bool,
    /// indices into a, b, c, d (distinct)
    pub targets: Vec<u8>,
    /// per target: (index of the name read, constant added to it)
    pub items: Vec<(u8, i8)>,
    /// 0 template level, 1 loop body, 2 macro body, 3 if-branch
    pub wrap: u8,
    /// the first two targets form a nested tuple: `(a, b), c = (x, y), z`
    pub nested: bool,
}

pub struct Assignments;

const NAMES4: [&str; 4] = ["a", "b", "c", "d"];

fn assign_program(c: &AssignCase) -> Vec<Stmt> {
    let t = |s: &str| Stmt::Text(s.to_string());
    let name = |i: u8| NAMES4[i as usize % 4].to_string();
    let print_all = |out: &mut Vec<Stmt>| {
        out.push(t("["));
        for (i, n) in NAMES4.iter().enumerate() {
            if i > 0 {
                out.push(t("|"));
            }
            out.push(Stmt::Emit(Expr::var(n)));
        }
        out.push(t("]"));
    };
    let item = |(v, k): (u8, i8)| {
        if k == 0 {
            Expr::var(&name(v))
        } else {
            Expr::Bin(BinOp::Add, Box::new(Expr::var(&name(v))), Box::new(Expr::int(k.unsigned_abs() as i128)))
        }
    };
    let n = c.targets.len().min(c.items.len());
    let mut targets: Vec<Target> = c.targets[..n].iter().map(|i| Target::Name(name(*i))).collect();
    let mut items: Vec<Expr> = c.items[..n].iter().map(|x| item(*x)).collect();
    let seq = |v: Vec<Expr>| if c.list { Expr::List(v) } else { Expr::Tuple(v) };
    if c.nested && n >= 3 {
        let rest_t = targets.split_off(2);
        let rest_i = items.split_off(2);
        targets = std::iter::once(Target::Tuple(targets)).chain(rest_t).collect();
        items = std::iter::once(seq(items)).chain(rest_i).collect();
    }
    let target = Target::Tuple(targets);
    let value = seq(items);
    let mut inner = vec![];
    if c.with {
        let mut body = vec![];
        print_all(&mut body);
        inner.push(Stmt::With { bindings: vec![(target, value)], body });
    } else {
        inner.push(Stmt::Set { target, value });
    }
    print_all(&mut inner);
    let mut out = vec![];
    for (i, n) in NAMES4.iter().enumerate() {
        out.push(Stmt::Set { target: Target::Name(n.to_string()), value: Expr::int(i as i128 + 1) });
    }
    match c.wrap % 4 {
        0 => out.extend(inner),
        1 => out.push(Stmt::For {
            target: Target::Name("i".into()),
            iter: Expr::List(vec![Expr::int(1), Expr::int(2)]),
            filter: None,
            recursive: false,
            body: inner,
            else_: None,
        }),
        2 => {
            out.push(Stmt::Macro { name: "mac0".into(), params: NAMES4.iter().map(|n| (n.to_string(), None)).collect(), body: inner });
            out.push(Stmt::Emit(Expr::Call(
                Box::new(Expr::var("mac0")),
                vec![Arg::Pos(Expr::int(5)), Arg::Pos(Expr::int(6)), Arg::Pos(Expr::int(7)), Arg::Pos(Expr::int(8))],
            )));
        }
        _ => out.push(Stmt::If { branches: vec![(Expr::var("cb"), inner)], else_: None }),
    }
    print_all(&mut out);
    out
}

impl Part for Assignments {
    type Case = AssignCase;
    const NAME: &'static str = "unpacking_assignments";

    fn strategy(_tier: Tier) -> BoxedStrategy<AssignCase> {
        (
            any::<bool>(),
            any::<bool>(),
            Just(vec![0u8, 1, 2, 3]).prop_shuffle(),
            2usize..=4,
            prop::collection::vec((0u8..4, prop_oneof![3 => Just(0i8), 1 => 1i8..4]), 4),
            0u8..4,
            any::<bool>(),
        )
            .prop_map(|(with, list, mut targets, n, mut items, wrap, nested)| {
                targets.truncate(n);
                items.truncate(n);
                AssignCase { with, list, targets, items, wrap, nested }
            })
            .boxed()
    }

    fn enumeration(_tier: Tier) -> Vec<AssignCase> {
        // every pair of targets with every pair of names read (swaps included), all forms
        let mut out = vec![];
        for with in [false, true] {
            for list in [false, true] {
                for wrap in 0..4u8 {
                    for t0 in 0..4u8 {
                        for t1 in 0..4u8 {
                            if t0 == t1 {
                                continue;
                            }
                            for r0 in 0..4u8 {
                                for r1 in 0..4u8 {
                                    for k in [0i8, 1] {
                                        out.push(AssignCase { with, list, targets: vec![t0, t1], items: vec![(r0, 0), (r1, k)], wrap, nested: false });
                                    }
                                }
                            }
                        }
                    }
                }
            }
        }
        out
    }

    fn check(c: &AssignCase) -> Verdict {
        let body = assign_program(c);
        let mut worst = Verdict::pass(true);
        for ctx_variant in 0..2u8 {
            let mut v = compare(&body, ctx_variant);
            v.nontrivial = c.items.iter().any(|(r, _)| c.targets.contains(r));
            if v.labels.contains(&"outside_fragment") {
                v.set_fail("assignment_program_outside_fragment", "the reference interpreter does not cover an unpacking assignment".to_string());
            }
            if v.fail.is_some() {
                return v;
            }
            worst = v;
        }
        if c.with {
            worst.labels.push("with_binding");
        }
        if c.nested && c.targets.len() >= 3 {
            worst.labels.push("nested_targets");
        }
        worst
    }

    fn show(c: &AssignCase) -> serde_json::Value {
        serde_json::json!({"source": print::template_default(&assign_program(c))})
    }
}


/// Macros and call blocks declared inside a loop body: they see what a plain read at the same
/// place sees - in particular an assignment made in an earlier iteration is gone (the loop
/// frame is per iteration), for names unknown to the context and for names shadowing one.
#[derive(Clone, Debug, Serialize, Deserialize)]
pub struct ClosureCase {
    /// iteration (1-based) in which the name is assigned inside the loop; 0 = never
    pub set_at: u8,
    /// false: the name `w` (not in the context); true: `cs` (a context string)
    pub shadows_ctx: bool,
    /// 0 = macro declared in the body, 1 = call block in the body, 2 = both
    pub kind: u8,
    /// 0 = plain loop, 1 = the assignment sits in a nested `with`, 2 = loop inside a macro,
    /// 3 = an inner loop declares the macro
    pub wrap: u8,
    pub items: u8,
}

pub struct LoopClosures;

fn closure_program(c: &ClosureCase) -> Vec<Stmt> {
    let t = |s: &str| Stmt::Text(s.to_string());
    let name = if c.shadows_ctx { "cs" } else { "w" };
    let read = || Stmt::Emit(Expr::var(name).filter("default", vec![Arg::Pos(Expr::str("-"))]));
    let eq = |k: u8| Expr::Cmp(Box::new(Expr::var("i")), vec![(CmpOp::Eq, Expr::int(k as i128))]);
    let mut body: Vec<Stmt> = vec![];
    if c.set_at > 0 {
        let set = Stmt::Set {
            target: Target::Name(name.to_string()),
            value: Expr::Bin(BinOp::Concat, Box::new(Expr::str("s")), Box::new(Expr::var("i"))),
        };
        body.push(Stmt::If { branches: vec![(eq(c.set_at), vec![set])], else_: None });
    }
    let mut readers: Vec<Stmt> = vec![];
    if c.kind != 1 {
        readers.push(Stmt::Macro { name: "mac0".into(), params: vec![], body: vec![t("<"), read(), t(":"), Stmt::Emit(Expr::var("i")), t(">")] });
        readers.push(Stmt::Emit(Expr::call("mac0", vec![])));
    }
    if c.kind != 0 {
        readers.push(Stmt::CallBlock { params: vec![], call: Expr::call("mac9", vec![]), body: vec![read(), t(":"), Stmt::Emit(Expr::var("i"))] });
    }
    readers.push(t("|"));
    readers.push(read());
    readers.push(t(";"));
    match c.wrap % 4 {
        1 => body.push(Stmt::With { bindings: vec![(Target::Name("wv".into()), Expr::int(1))], body: readers }),
        3 => body.push(Stmt::For {
            target: Target::Name("j".into()),
            iter: Expr::List(vec![Expr::int(1), Expr::int(2)]),
            filter: None,
            recursive: false,
            body: readers,
            else_: None,
        }),
        _ => body.extend(readers),
    }
    let items: Vec<Expr> = (1..=c.items.clamp(1, 4)).map(|k| Expr::int(k as i128)).collect();
    let the_loop = Stmt::For { target: Target::Name("i".into()), iter: Expr::List(items), filter: None, recursive: false, body, else_: None };
    let mut out = vec![Stmt::Macro { name: "mac9".into(), params: vec![], body: vec![t("["), Stmt::Emit(Expr::call("caller", vec![])), t("]")] }];
    if c.wrap % 4 == 2 {
        out.push(Stmt::Macro { name: "mac8".into(), params: vec![], body: vec![the_loop] });
        out.push(Stmt::Emit(Expr::call("mac8", vec![])));
    } else {
        out.push(the_loop);
    }
    out.push(t("after:"));
    out.push(read());
    out
}

impl Part for LoopClosures {
    type Case = ClosureCase;
    const NAME: &'static str = "closures_declared_in_loops";

    fn strategy(_tier: Tier) -> BoxedStrategy<ClosureCase> {
        (0u8..5, any::<bool>(), 0u8..3, 0u8..4, 1u8..5)
            .prop_map(|(set_at, shadows_ctx, kind, wrap, items)| ClosureCase { set_at, shadows_ctx, kind, wrap, items })
            .boxed()
    }

    fn enumeration(_tier: Tier) -> Vec<ClosureCase> {
        let mut out = vec![];
        for set_at in 0..=4u8 {
            for shadows_ctx in [false, true] {
                for kind in 0..3u8 {
                    for wrap in 0..4u8 {
                        for items in 1..=4u8 {
                            out.push(ClosureCase { set_at, shadows_ctx, kind, wrap, items });
                        }
                    }
                }
            }
        }
        out
    }

    fn check(c: &ClosureCase) -> Verdict {
        let body = closure_program(c);
        let mut last = Verdict::pass(true);
        for ctx_variant in 0..4u8 {
            let mut v = compare(&body, ctx_variant);
            v.nontrivial = c.set_at > 0 && c.set_at < c.items;
            if v.labels.contains(&"outside_fragment") {
                v.set_fail("closure_program_outside_fragment", "the reference interpreter does not cover a loop closure program".to_string());
            }
            if v.fail.is_some() {
                return v;
            }
            last = v;
        }
        last
    }

    fn show(c: &ClosureCase) -> serde_json::Value {
        serde_json::json!({"source": print::template_default(&closure_program(c))})
    }
}


/// `loop.<attr>` read inside the filter of a loop: the filter runs before the loop it belongs to
/// has started, so `loop` there is the *enclosing* loop (or nothing at all).
#[derive(Clone, Debug, Serialize, Deserialize)]
pub struct FilterLoopCase {
    /// attribute of `loop` the inner filter tests: first, last, index odd, index0 == 1, revindex > 1, length > 2
    pub attr: u8,
    /// 0 = nested in an outer loop, 1 = nested two deep (refers to the middle loop), 2 = no enclosing loop
    pub nesting: u8,
    /// the filter also involves the item
    pub with_item: bool,
    pub else_branch: bool,
}

pub struct FilterLoops;

fn filter_loop_program(c: &FilterLoopCase) -> Vec<Stmt> {
    let t = |s: &str| Stmt::Text(s.to_string());
    let la = |a: &str| Expr::Attr(Box::new(Expr::var("loop")), a.to_string());
    let cmp = |l: Expr, op: CmpOp, r: i128| Expr::Cmp(Box::new(l), vec![(op, Expr::int(r))]);
    let mut cond = match c.attr % 6 {
        0 => la("first"),
        1 => la("last"),
        2 => Expr::Test(Box::new(la("index")), "odd".into(), vec![], false),
        3 => cmp(la("index0"), CmpOp::Eq, 1),
        4 => cmp(la("revindex"), CmpOp::Gt, 1),
        _ => cmp(la("length"), CmpOp::Gt, 2),
    };
    if c.with_item {
        cond = Expr::Bin(BinOp::And, Box::new(cond), Box::new(cmp(Expr::var("x"), CmpOp::Gt, 1)));
    }
    let inner = Stmt::For {
        target: Target::Name("x".into()),
        iter: Expr::var("cl"),
        filter: Some(cond),
        recursive: false,
        body: vec![Stmt::Emit(Expr::var("x")), t(":"), Stmt::Emit(la("index")), t("/"), Stmt::Emit(la("length")), t(",")],
        else_: if c.else_branch { Some(vec![t("none")]) } else { None },
    };
    let wrap = |body: Vec<Stmt>, var: &str, items: Vec<i128>| Stmt::For {
        target: Target::Name(var.into()),
        iter: Expr::List(items.into_iter().map(Expr::int).collect()),
        filter: None,
        recursive: false,
        body,
        else_: None,
    };
    let bracket = |s: Stmt| vec![t("["), s, t("]")];
    match c.nesting % 3 {
        0 => vec![wrap(bracket(inner), "row", vec![1, 2, 3])],
        1 => vec![wrap(vec![t("("), wrap(bracket(inner), "row", vec![1, 2]), t(")")], "outer", vec![1, 2, 3])],
        _ => bracket(inner),
    }
}

impl Part for FilterLoops {
    type Case = FilterLoopCase;
    const NAME: &'static str = "loop_attributes_in_loop_filters";

    fn strategy(_tier: Tier) -> BoxedStrategy<FilterLoopCase> {
        (0u8..6, 0u8..3, any::<bool>(), any::<bool>())
            .prop_map(|(attr, nesting, with_item, else_branch)| FilterLoopCase { attr, nesting, with_item, else_branch })
            .boxed()
    }

    fn enumeration(_tier: Tier) -> Vec<FilterLoopCase> {
        let mut out = vec![];
        for attr in 0..6u8 {
            for nesting in 0..3u8 {
                for with_item in [false, true] {
                    for else_branch in [false, true] {
                        out.push(FilterLoopCase { attr, nesting, with_item, else_branch });
                    }
                }
            }
        }
        out
    }

    fn check(c: &FilterLoopCase) -> Verdict {
        let body = filter_loop_program(c);
        let mut last = Verdict::pass(true);
        for ctx_variant in 0..4u8 {
            let mut v = compare(&body, ctx_variant);
            v.nontrivial = true;
            if v.labels.contains(&"outside_fragment") {
                v.set_fail("filter_loop_program_outside_fragment", "the reference interpreter does not cover a loop filter program".to_string());
            }
            if v.fail.is_some() {
                return v;
            }
            last = v;
        }
        last
    }

    fn show(c: &FilterLoopCase) -> serde_json::Value {
        serde_json::json!({"source": print::template_default(&filter_loop_program(c))})
    }
}

crate::declare_parts!(Core, Pinned, Assignments, LoopClosures, FilterLoops);

pub fn run(ctx: &mut Ctx) {
    ctx.rule = "well-typed programs of the core fragment from a scope-tracking generator driven by a proptest byte tape (expressions over ints, strings, bools, lists, maps: arithmetic, comparison chains, and/or/not, in, ~, if-expressions, subscripts, attribute access, filters upper/lower/trim/length/sum/join/sort/reverse/string/default/replace/abs, tests defined/odd/even/divisibleby; statements: set, if/elif/else, for with else, loop filter, tuple unpacking, loop.index/index0/revindex/revindex0/first/last/length/previtem/nextitem/depth/cycle/changed printed in every loop, set-blocks with filters, with (several bindings; a later value never reads an earlier target of the same statement: Jinja documents the values as evaluated outside the block, this engine binds left to right - not judged), filter blocks, macros with literal defaults, positional and keyword arguments and caller(), call blocks with parameters, optional break/continue), 4 contexts; part unpacking_assignments: `set`/`with` with tuple targets (2-4 names, optionally nested) from a tuple or list literal whose items read the names being assigned (all two-target forms enumerated: swaps, rotations, `x, a + 1`), at template level, in a loop, in a macro, in an if-branch; part loop_attributes_in_loop_filters (72 programs, complete): loop.first/last/index/index0/revindex/length read in the filter of a loop that is nested in one or two other loops or in none (the filter runs before its own loop exists, so `loop` is the enclosing loop); part closures_declared_in_loops (480 programs, complete): a macro and/or a call block declared in a loop body reads a name that one iteration assigns (unknown to the context, or shadowing a context string), next to a plain read at the same place, in a plain loop, inside a with, in a loop inside a macro, in an inner loop; after every scoped construct probes print `name is defined` / `name` for names assigned inside and before it. Oracle: an independent reference interpreter of the documented semantics (refint.rs) must give the same output and agree on error-or-not. Non-trivial: a loop or macro call and two different scoped constructs nested. Distinct by case.".into();
    ctx.assumptions = vec![
        "refint.rs implements the documented semantics; where the documentation is silent the generator does not go (macro defaults referring to parameters, printing multi-entry maps, reassigning template-level variables after a macro that reads them was declared, strings with quotes inside printed lists)".into(),
        "programs the reference interpreter flags as outside its fragment are skipped (label outside_fragment)".into(),
    ];
    preamble(ctx);
    let t = ctx.tier;
    ctx.run_enumerated::<Pinned>(Pinned::enumeration(t), false);
    ctx.run_enumerated::<LoopClosures>(LoopClosures::enumeration(t), true);
    ctx.run_enumerated::<FilterLoops>(FilterLoops::enumeration(t), true);
    ctx.run_enumerated::<Assignments>(Assignments::enumeration(t), false);
    ctx.run_part::<Assignments>(t.pick(20_000, 400_000));
    ctx.run_part::<Core>(t.pick(30_000, 12_000_000));
}
