//! C08 — numeric operators are exact or fail; never wrap or lose the sign.
use std::cmp::Ordering;
use std::collections::BTreeMap;

use minijinja::{Environment, Value};
use proptest::prelude::*;
use serde::{Deserialize, Serialize};

use crate::model::bigint::BigInt;
use crate::runner::{Ctx, Part, Tier, Verdict};

// ------------------------------------------------------------------ helpers

fn env() -> Environment<'static> {
    Environment::new()
}

#[derive(Clone, Copy, Debug, PartialEq, Eq)]
enum Form {
    Lit,
    I64,
    U64,
    I128,
    U128,
}

const FORMS: [Form; 5] = [Form::Lit, Form::I64, Form::U64, Form::I128, Form::U128];

/// The value in the given representation, if it can hold it.
fn int_value(v: &BigInt, form: Form) -> Option<Value> {
    let mag = v.to_u128_mag()?;
    match form {
        Form::Lit => None,
        Form::I64 => {
            if v.neg {
                if mag <= 1u128 << 63 {
                    Some(Value::from((mag as i128).wrapping_neg() as i64))
                } else {
                    None
                }
            } else if mag < 1u128 << 63 {
                Some(Value::from(mag as i64))
            } else {
                None
            }
        }
        Form::U64 => {
            if !v.neg && mag <= u64::MAX as u128 {
                Some(Value::from(mag as u64))
            } else {
                None
            }
        }
        Form::I128 => {
            if v.fits_i128() {
                Some(Value::from(if v.neg {
                    (mag as i128).wrapping_neg()
                } else {
                    mag as i128
                }))
            } else {
                None
            }
        }
        Form::U128 => {
            if !v.neg {
                Some(Value::from(mag))
            } else {
                None
            }
        }
    }
}

/// Source text for an operand: a literal (parenthesised when negative) or a variable name.
fn operand_src(v: &BigInt, form: Form, name: &str) -> String {
    match form {
        Form::Lit => {
            if v.neg {
                format!("(-{})", v.negate())
            } else {
                v.to_string()
            }
        }
        _ => name.to_string(),
    }
}

fn render(src: &str, ctx: &BTreeMap<&str, Value>) -> Result<String, String> {
    let env = env();
    env.render_str(src, Value::from_pairs(ctx.iter().map(|(k, v)| (*k, v.clone()))))
        .map_err(|e| format!("{e:#}"))
}

fn eval(src: &str, ctx: &BTreeMap<&str, Value>) -> Result<Value, String> {
    let env = env();
    let expr = env.compile_expression(src).map_err(|e| format!("{e:#}"))?;
    expr.eval(Value::from_pairs(ctx.iter().map(|(k, v)| (*k, v.clone()))))
        .map_err(|e| format!("{e:#}"))
}

// boundary pool for operands (as (neg, mag))
fn int_strategy() -> BoxedStrategy<String> {
    let bases: Vec<(bool, u128)> = vec![
        (false, 0),
        (false, 1),
        (false, 2),
        (false, 3),
        (false, 7),
        (false, 10),
        (false, 1 << 31),
        (false, 1 << 32),
        (false, 1 << 53),
        (false, 1 << 62),
        (false, 1 << 63),
        (false, 1 << 64),
        (false, 1 << 126),
        (false, 1 << 127),
        (false, u128::MAX),
        (false, 3037000499),          // floor(sqrt(2^63))
        (false, 4294967296),          // 2^32
        (false, 13043817825332782212), // ~ sqrt(2^127)
        (false, 18446744073709551616), // 2^64
    ];
    let n = bases.len();
    prop_oneof![
        // boundary +- delta, either sign
        4 => (0..n, -3i32..=3, any::<bool>()).prop_map(move |(i, d, neg)| {
            let (_, m) = bases[i];
            let b = BigInt::from_u128(m).add(&BigInt::from_i128(d as i128));
            let b = if neg { b.negate() } else { b };
            clamp(b).to_string()
        }),
        // small
        2 => (-20i128..=20).prop_map(|v| v.to_string()),
        // random width
        2 => (any::<u128>(), 0u32..=128, any::<bool>()).prop_map(|(v, bits, neg)| {
            let m = if bits == 0 { 0 } else { v >> (128 - bits) };
            let b = BigInt::from_u128(m);
            clamp(if neg { b.negate() } else { b }).to_string()
        }),
    ]
    .boxed()
}

/// clamp into the quantifier's domain [-2^127, 2^128)
fn clamp(b: BigInt) -> BigInt {
    let lo = BigInt::from_i128(i128::MIN);
    let hi = BigInt::from_u128(u128::MAX);
    if b.cmp(&lo) == Ordering::Less {
        lo
    } else if b.cmp(&hi) == Ordering::Greater {
        hi
    } else {
        b
    }
}

// ------------------------------------------------------------------ part 1: integers

#[derive(Clone, Debug, Serialize, Deserialize)]
pub struct IntCase {
    pub op: String,
    pub a: String,
    pub b: String,
}

pub struct IntOps;

const INT_OPS: [&str; 7] = ["+", "-", "*", "//", "%", "**", "neg"];

/// exact result: Ok(Some(r)) exact value, Ok(None) = defined but astronomically large,
/// Err(()) = mathematically undefined (division by zero, negative exponent)
fn exact(op: &str, a: &BigInt, b: &BigInt) -> Result<Option<BigInt>, ()> {
    Ok(Some(match op {
        "+" => a.add(b),
        "-" => a.sub(b),
        "*" => a.mul(b),
        "//" => a.div_rem_euclid(b).ok_or(())?.0,
        "%" => a.div_rem_euclid(b).ok_or(())?.1,
        "**" => {
            if b.neg {
                return Err(());
            }
            match a.pow(b.to_u128_mag().ok_or(())?, 300) {
                Some(r) => r,
                None => return Ok(None),
            }
        }
        "neg" => a.negate(),
        _ => unreachable!(),
    }))
}

impl Part for IntOps {
    type Case = IntCase;
    const NAME: &'static str = "int_ops";

    fn strategy(_tier: Tier) -> BoxedStrategy<IntCase> {
        let exps = prop_oneof![
            3 => (0i128..=130).prop_map(|v| v.to_string()),
            1 => int_strategy(),
        ];
        (0..INT_OPS.len(), int_strategy(), int_strategy(), exps)
            .prop_map(|(o, a, b, e)| {
                let op = INT_OPS[o];
                IntCase {
                    op: op.to_string(),
                    a,
                    b: if op == "**" { e } else { b },
                }
            })
            .boxed()
    }

    fn check(case: &IntCase) -> Verdict {
        let a = BigInt::parse(&case.a).expect("a");
        let b = BigInt::parse(&case.b).expect("b");
        let op = case.op.as_str();
        let unary = op == "neg";
        let want = exact(op, &a, &b);
        let all_fit = a.fits_i128()
            && (unary || b.fits_i128())
            && matches!(&want, Ok(Some(r)) if r.fits_i128());
        let mut v = Verdict::pass(
            a.bits() >= 64 || (!unary && b.bits() >= 64) || a.neg || (!unary && b.neg),
        );
        if a.bits() > 127 || b.bits() > 127 {
            v.labels.push("u128_operand");
        }
        if matches!(&want, Ok(Some(r)) if !r.fits_i128()) || matches!(&want, Ok(None)) {
            v.labels.push("result_outside_i128");
        }
        if want.is_err() {
            v.labels.push("undefined_result");
        }
        // listed finding: ops::neg maps 2^127 to itself, so the *literal* -2^127 is +2^127.
        // Excluded by construction: such operands are not written as literals, and unary
        // minus of 2^127 carries the finding's own signature.
        let min_i128 = BigInt::from_i128(i128::MIN);
        let two_127 = BigInt::from_u128(1u128 << 127);
        let mut outcomes: Vec<(String, Result<String, String>)> = vec![];
        for fa in FORMS {
            if fa == Form::Lit && a == min_i128 {
                v.labels.push("excluded_literal_minus_2p127");
                continue;
            }
            let va = match fa {
                Form::Lit => None,
                f => match int_value(&a, f) {
                    Some(x) => Some(x),
                    None => continue,
                },
            };
            let fbs: &[Form] = if unary { &[Form::Lit] } else { &FORMS };
            for &fb in fbs {
                if fb == Form::Lit && !unary && b == min_i128 {
                    v.labels.push("excluded_literal_minus_2p127");
                    continue;
                }
                let vb = match fb {
                    Form::Lit => None,
                    f => match int_value(&b, f) {
                        Some(x) => Some(x),
                        None => continue,
                    },
                };
                let mut ctx = BTreeMap::new();
                if let Some(x) = va.clone() {
                    ctx.insert("a", x);
                }
                if let Some(x) = vb {
                    ctx.insert("b", x);
                }
                let src = if unary {
                    format!("{{{{ -{} }}}}", operand_src(&a, fa, "a"))
                } else {
                    format!(
                        "{{{{ {} {} {} }}}}",
                        operand_src(&a, fa, "a"),
                        op,
                        operand_src(&b, fb, "b")
                    )
                };
                let got = render(&src, &ctx);
                outcomes.push((format!("{fa:?}/{fb:?} `{src}`"), got));
            }
        }
        let op_sig = if unary && a == two_127 { "neg_2p127" } else { op };
        let op = op_sig;
        // judge each outcome against the exact result
        for (what, got) in &outcomes {
            match (&want, got) {
                (Err(()), Ok(s)) => {
                    v.set_fail(
                        format!("int_ok_on_undefined:{op}"),
                        format!("{what}: mathematically undefined but rendered {s:?}"),
                    );
                }
                (Err(()), Err(_)) => {}
                (Ok(None), Ok(s)) => {
                    v.set_fail(
                        format!("int_wrong:{op}"),
                        format!("{what}: result exceeds 300 bits but rendered {s:?}"),
                    );
                }
                (Ok(None), Err(_)) => {}
                (Ok(Some(r)), Ok(s)) => {
                    if *s != r.to_string() {
                        v.set_fail(
                            format!("int_wrong:{op}"),
                            format!("{what}: exact result {r} but rendered {s:?}"),
                        );
                    }
                }
                (Ok(Some(r)), Err(e)) => {
                    if all_fit {
                        v.set_fail(
                            format!("int_err_in_range:{op}"),
                            format!(
                                "{what}: operands and exact result {r} fit in i128 but got error {e}"
                            ),
                        );
                    }
                }
            }
        }
        // representation independence
        if v.fail.is_none() {
            if let Some((w0, first)) = outcomes.first() {
                for (w, o) in &outcomes[1..] {
                    let same = match (first, o) {
                        (Ok(x), Ok(y)) => x == y,
                        (Err(_), Err(_)) => true,
                        _ => false,
                    };
                    if !same {
                        v.set_fail(
                            format!("int_repr_dependent:{op}"),
                            format!("{w0} gave {first:?} but {w} gave {o:?}"),
                        );
                        break;
                    }
                }
            }
        }
        v
    }
}

// ------------------------------------------------------------------ part 2: dyadic floats

#[derive(Clone, Debug, Serialize, Deserialize)]
pub struct DyadicCase {
    pub op: String,
    pub ka: i32,
    pub ea: u8,
    pub kb: i32,
    pub eb: u8,
    /// pass an operand with e == 0 as an integer value (int/float mix)
    pub a_int: bool,
    pub b_int: bool,
    /// pass operands as literals in the source instead of variables
    pub lit: bool,
}

pub struct DyadicOps;

const F_OPS: [&str; 6] = ["+", "-", "*", "//", "%", "neg"];

fn dyadic(k: i32, e: u8) -> f64 {
    (k as f64) / ((1u64 << e) as f64)
}

fn float_lit(x: f64) -> String {
    // exact decimal expansion of a dyadic rational with few bits: {:?} round-trips
    let s = format!("{x:?}");
    if x < 0.0 {
        format!("({s})")
    } else {
        s
    }
}

impl Part for DyadicOps {
    type Case = DyadicCase;
    const NAME: &'static str = "dyadic_float_ops";

    fn strategy(_tier: Tier) -> BoxedStrategy<DyadicCase> {
        let k = || {
            prop_oneof![
                3 => -40i32..=40,
                2 => -(1i32 << 24) + 1..(1i32 << 24),
            ]
        };
        (
            0..F_OPS.len(),
            k(),
            0u8..=8,
            k(),
            0u8..=8,
            any::<bool>(),
            any::<bool>(),
            any::<bool>(),
        )
            .prop_map(|(o, ka, ea, kb, eb, a_int, b_int, lit)| DyadicCase {
                op: F_OPS[o].to_string(),
                ka,
                ea,
                kb,
                eb,
                a_int,
                b_int,
                lit,
            })
            .boxed()
    }

    fn check(c: &DyadicCase) -> Verdict {
        let op = c.op.as_str();
        let unary = op == "neg";
        let a_is_int = c.a_int && c.ea == 0;
        let b_is_int = (c.b_int && c.eb == 0) || unary;
        if a_is_int && b_is_int {
            // integer pair: int_ops' domain
            return Verdict::pass(false);
        }
        let fa = dyadic(c.ka, c.ea);
        let fb = dyadic(c.kb, c.eb);
        // scaled integers: A / 2^E, B / 2^E
        let e = c.ea.max(c.eb) as u32;
        let sa = (c.ka as i128) << (e - c.ea as u32);
        let sb = (c.kb as i128) << (e - c.eb as u32);
        let scale = (1u64 << e) as f64;
        let want: Option<f64> = match op {
            "+" => Some((sa + sb) as f64 / scale),
            "-" => Some((sa - sb) as f64 / scale),
            "*" => Some((sa * sb) as f64 / (scale * scale)),
            "//" => {
                if sb == 0 {
                    None
                } else {
                    Some(sa.div_euclid(sb) as f64)
                }
            }
            "%" => {
                if sb == 0 {
                    None
                } else {
                    Some(sa.rem_euclid(sb) as f64 / scale)
                }
            }
            "neg" => Some(-(sa as f64) / scale),
            _ => unreachable!(),
        };
        let mut v = Verdict::pass(c.ka < 0 || c.kb < 0 || a_is_int || b_is_int);
        if a_is_int || b_is_int {
            v.labels.push("int_float_mix");
        }
        if sb == 0 && (op == "//" || op == "%") {
            v.labels.push("zero_divisor");
            // x // 0.0 is not defined by the property (float division by zero may
            // yield inf/nan or an error); only "no panic" is demanded, which the
            // runner enforces.
        }
        let mut ctx = BTreeMap::new();
        let a_src;
        let b_src;
        if c.lit {
            a_src = if a_is_int {
                if c.ka < 0 {
                    format!("({})", c.ka)
                } else {
                    c.ka.to_string()
                }
            } else {
                float_lit(fa)
            };
            b_src = if b_is_int {
                if c.kb < 0 {
                    format!("({})", c.kb)
                } else {
                    c.kb.to_string()
                }
            } else {
                float_lit(fb)
            };
        } else {
            ctx.insert(
                "a",
                if a_is_int {
                    Value::from(c.ka as i64)
                } else {
                    Value::from(fa)
                },
            );
            ctx.insert(
                "b",
                if b_is_int {
                    Value::from(c.kb as i64)
                } else {
                    Value::from(fb)
                },
            );
            a_src = "a".to_string();
            b_src = "b".to_string();
        }
        let src = if unary {
            format!("-{a_src}")
        } else {
            format!("{a_src} {op} {b_src}")
        };
        let got = eval(&src, &ctx);
        match (want, got) {
            (None, _) => {}
            (Some(w), Ok(val)) => {
                let is_float = val.is_number() && !val.is_integer();
                match f64::try_from(val.clone()) {
                    Ok(g) if g == w && is_float => {
                        // -0.0 vs 0.0 are equal here; sign of zero is not part of the property
                    }
                    _ => {
                        v.set_fail(
                            format!("float_wrong:{op}"),
                            format!("`{src}` with a={fa:?} b={fb:?}: exact result {w:?} (float) but got {val:?}"),
                        );
                    }
                }
            }
            (Some(w), Err(e)) => {
                v.set_fail(
                    format!("float_err:{op}"),
                    format!("`{src}` with a={fa:?} b={fb:?}: exact result {w:?} but got error {e}"),
                );
            }
        }
        // Euclidean identity (exact on this domain): (a // b) * b + a % b == a, 0 <= a % b < |b|
        if v.fail.is_none() && !unary && sb != 0 && (op == "//" || op == "%") {
            let q = eval(&format!("{a_src} // {b_src}"), &ctx).and_then(|x| f64::try_from(x).map_err(|e| e.to_string()));
            let r = eval(&format!("{a_src} % {b_src}"), &ctx).and_then(|x| f64::try_from(x).map_err(|e| e.to_string()));
            match (q, r) {
                (Ok(q), Ok(r)) => {
                    if !(r >= 0.0 && r < fb.abs()) {
                        v.set_fail(
                            "float_rem_range",
                            format!("{fa:?} % {fb:?} = {r:?} is not in [0, |b|)"),
                        );
                    } else if q * fb + r != fa {
                        v.set_fail(
                            "float_divmod_identity",
                            format!("({fa:?} // {fb:?}) * b + a % b = {:?} != a (q={q:?}, r={r:?})", q * fb + r),
                        );
                    }
                }
                (q, r) => v.set_fail(
                    "float_err:divmod",
                    format!("{fa:?} // or % {fb:?} failed: {q:?} {r:?}"),
                ),
            }
        }
        v
    }
}

// ------------------------------------------------------------------ part 3: int vs float //,% agreement + general floats

#[derive(Clone, Debug, Serialize, Deserialize)]
pub struct AgreeCase {
    pub a: i64,
    pub b: i64,
}

pub struct IntFloatAgree;

impl Part for IntFloatAgree {
    type Case = AgreeCase;
    const NAME: &'static str = "int_float_divmod_agree";

    fn strategy(_tier: Tier) -> BoxedStrategy<AgreeCase> {
        let n = || {
            prop_oneof![
                3 => -50i64..=50,
                1 => -(1i64 << 26)..(1i64 << 26),
            ]
        };
        (n(), n()).prop_map(|(a, b)| AgreeCase { a, b }).boxed()
    }

    fn check(c: &AgreeCase) -> Verdict {
        if c.b == 0 {
            return Verdict::pass(false);
        }
        let mut v = Verdict::pass(c.a < 0 || c.b < 0);
        let mut ctx = BTreeMap::new();
        ctx.insert("a", Value::from(c.a));
        ctx.insert("b", Value::from(c.b));
        ctx.insert("fa", Value::from(c.a as f64));
        ctx.insert("fb", Value::from(c.b as f64));
        for op in ["//", "%"] {
            let i = eval(&format!("a {op} b"), &ctx);
            let want = if op == "//" {
                c.a.div_euclid(c.b)
            } else {
                c.a.rem_euclid(c.b)
            };
            for (l, r) in [("fa", "fb"), ("a", "fb"), ("fa", "b")] {
                let f = eval(&format!("{l} {op} {r}"), &ctx);
                let fi = f.clone().and_then(|x| f64::try_from(x).map_err(|e| e.to_string()));
                let ii = i.clone().and_then(|x| i64::try_from(x).map_err(|e| e.to_string()));
                match (ii, fi) {
                    (Ok(ii), Ok(ff)) => {
                        if ii != want {
                            v.set_fail(
                                format!("int_wrong:{op}"),
                                format!("{} {op} {} = {ii}, exact {want}", c.a, c.b),
                            );
                        } else if ff != want as f64 {
                            v.set_fail(
                                format!("int_float_disagree:{op}"),
                                format!(
                                    "{} {op} {} is {ii} for integers but `{l} {op} {r}` gives {ff:?}",
                                    c.a, c.b
                                ),
                            );
                        }
                    }
                    (x, y) => v.set_fail(
                        format!("float_err:{op}"),
                        format!("{} {op} {}: int {x:?}, float {y:?}", c.a, c.b),
                    ),
                }
            }
        }
        v
    }
}

#[derive(Clone, Debug, Serialize, Deserialize)]
pub struct FloatPair {
    pub a_bits: u64,
    pub b_bits: u64,
}

pub struct GeneralFloats;

fn finite_float() -> BoxedStrategy<f64> {
    prop_oneof![
        2 => (-1000i32..1000, 0i32..8).prop_map(|(k, e)| k as f64 / (1u32 << e) as f64),
        2 => any::<f64>().prop_filter("finite", |x| x.is_finite()),
        1 => (-60i32..60, any::<bool>()).prop_map(|(e, n)| {
            let v = 2f64.powi(e);
            if n { -v } else { v }
        }),
        1 => (1u64..1u64 << 53, -80i32..80).prop_map(|(m, e)| m as f64 * 2f64.powi(e)),
    ]
    .boxed()
}

impl Part for GeneralFloats {
    type Case = FloatPair;
    const NAME: &'static str = "general_float_divmod";

    fn strategy(_tier: Tier) -> BoxedStrategy<FloatPair> {
        (finite_float(), finite_float())
            .prop_map(|(a, b)| FloatPair {
                a_bits: a.to_bits(),
                b_bits: b.to_bits(),
            })
            .boxed()
    }

    fn check(c: &FloatPair) -> Verdict {
        let a = f64::from_bits(c.a_bits);
        let b = f64::from_bits(c.b_bits);
        if !a.is_finite() || !b.is_finite() || b == 0.0 {
            return Verdict::pass(false);
        }
        let mut v = Verdict::pass(a < 0.0 || b < 0.0);
        let mut ctx = BTreeMap::new();
        ctx.insert("a", Value::from(a));
        ctx.insert("b", Value::from(b));
        let r = eval("a % b", &ctx).and_then(|x| f64::try_from(x).map_err(|e| e.to_string()));
        let q = eval("a // b", &ctx).and_then(|x| f64::try_from(x).map_err(|e| e.to_string()));
        match (q, r) {
            (Ok(q), Ok(r)) => {
                if r.is_finite() && q.is_finite() {
                    // floating point rounding may produce r == |b| for tiny negative a;
                    // that is inherent to f64 and tolerated, a negative or larger r is not.
                    if !(r >= 0.0 && r <= b.abs()) {
                        v.set_fail(
                            "float_rem_range",
                            format!("{a:?} % {b:?} = {r:?} is not in [0, |b|]"),
                        );
                    } else if q != q.trunc() {
                        v.set_fail(
                            "float_intdiv_not_integral",
                            format!("{a:?} // {b:?} = {q:?} is not integral"),
                        );
                    } else {
                        // a = q*b + r within rounding: |q*b + r - a| <= 4 ulp-ish of the largest term
                        let recomposed = q * b + r;
                        let scale = a.abs().max((q * b).abs()).max(r.abs());
                        if recomposed.is_finite() && (recomposed - a).abs() > scale * 1e-12 + f64::MIN_POSITIVE {
                            v.set_fail(
                                "float_divmod_identity",
                                format!("({a:?} // {b:?}) * b + a % b = {recomposed:?} (q={q:?}, r={r:?})"),
                            );
                        }
                    }
                }
            }
            (q, r) => v.set_fail(
                "float_err:divmod",
                format!("{a:?} // or % {b:?} failed: {q:?} {r:?}"),
            ),
        }
        v
    }
}

// ------------------------------------------------------------------ part 4: int/float comparison

#[derive(Clone, Debug, Serialize, Deserialize)]
pub struct CmpCase {
    pub int: String,
    pub float_bits: u64,
}

pub struct IntFloatCmp;

/// exact comparison of integer i with finite float f
fn exact_cmp(i: &BigInt, f: f64) -> Ordering {
    if f == 0.0 {
        return i.cmp(&BigInt::zero());
    }
    let bits = f.to_bits();
    let neg = bits >> 63 == 1;
    let exp = ((bits >> 52) & 0x7ff) as i32;
    let frac = bits & ((1u64 << 52) - 1);
    let (mant, e) = if exp == 0 {
        (frac, -1074)
    } else {
        (frac | (1u64 << 52), exp - 1075)
    };
    // f = (-1)^neg * mant * 2^e
    let (ip, has_frac) = if e >= 0 {
        if e > 90 {
            // |f| >= 2^52 * 2^91 > 2^129: larger in magnitude than any operand
            return if neg { Ordering::Greater } else { Ordering::Less };
        }
        (BigInt::from_u128(mant as u128).shl(e as usize), false)
    } else if -e >= 64 {
        (BigInt::zero(), mant != 0)
    } else {
        let sh = (-e) as u32;
        (
            BigInt::from_u128((mant >> sh) as u128),
            mant & ((1u64 << sh) - 1) != 0,
        )
    };
    let ip = if neg { ip.negate() } else { ip };
    // f = ip + sign*frac
    match i.cmp(&ip) {
        Ordering::Equal => {
            if !has_frac {
                Ordering::Equal
            } else if neg {
                Ordering::Greater
            } else {
                Ordering::Less
            }
        }
        o => {
            // |i - ip| >= 1 > frac part... except i == ip -/+ ... when neg: f = ip - frac, ip<=0.
            // If i < ip then i <= ip-1 < f (since f > ip-1). If i > ip then i >= ip+1 > f.
            o
        }
    }
}

impl Part for IntFloatCmp {
    type Case = CmpCase;
    const NAME: &'static str = "int_float_cmp";

    fn strategy(_tier: Tier) -> BoxedStrategy<CmpCase> {
        // floats near the integer, and the boundaries
        (int_strategy(), -3i32..=3, any::<u8>(), finite_float())
            .prop_map(|(i, ulps, mode, rnd)| {
                let bi = BigInt::parse(&i).unwrap();
                let approx: f64 = i.parse::<f64>().unwrap_or(0.0);
                let f = match mode % 4 {
                    0 => rnd,
                    1 => approx + (ulps as f64) * 0.5,
                    _ => {
                        let mut b = approx.to_bits() as i64;
                        b += if approx >= 0.0 { ulps as i64 } else { -(ulps as i64) };
                        let f = f64::from_bits(b as u64);
                        if f.is_finite() {
                            f
                        } else {
                            approx
                        }
                    }
                };
                let _ = bi;
                CmpCase {
                    int: i,
                    float_bits: f.to_bits(),
                }
            })
            .boxed()
    }

    fn check(c: &CmpCase) -> Verdict {
        let i = BigInt::parse(&c.int).expect("int");
        let f = f64::from_bits(c.float_bits);
        if !f.is_finite() {
            return Verdict::pass(false);
        }
        let ord = exact_cmp(&i, f);
        let mut v = Verdict::pass(i.bits() >= 53);
        if i.bits() >= 53 && f.abs() >= 9007199254740992.0 {
            v.labels.push("both_beyond_2^53");
        }
        for form in [Form::I64, Form::U64, Form::I128, Form::U128] {
            let Some(iv) = int_value(&i, form) else {
                continue;
            };
            let mut ctx = BTreeMap::new();
            ctx.insert("i", iv);
            ctx.insert("f", Value::from(f));
            let table: [(&str, bool); 12] = [
                ("i < f", ord == Ordering::Less),
                ("i <= f", ord != Ordering::Greater),
                ("i == f", ord == Ordering::Equal),
                ("i != f", ord != Ordering::Equal),
                ("i > f", ord == Ordering::Greater),
                ("i >= f", ord != Ordering::Less),
                ("f < i", ord == Ordering::Greater),
                ("f <= i", ord != Ordering::Less),
                ("f == i", ord == Ordering::Equal),
                ("f != i", ord != Ordering::Equal),
                ("f > i", ord == Ordering::Less),
                ("f >= i", ord != Ordering::Greater),
            ];
            for (src, want) in table {
                match eval(src, &ctx) {
                    Ok(val) if val == Value::from(want) && val.kind() == minijinja::value::ValueKind::Bool => {}
                    other => {
                        let kind = if src.contains("==") || src.contains("!=") {
                            "eq"
                        } else {
                            "ord"
                        };
                        v.set_fail(
                            format!("int_float_cmp:{kind}"),
                            format!(
                                "`{src}` with i={} ({form:?}) f={f:?}: exact answer {want}, got {other:?}",
                                c.int
                            ),
                        );
                    }
                }
            }
        }
        v
    }
}

// ------------------------------------------------------------------ entry

crate::declare_parts!(IntOps, DyadicOps, IntFloatAgree, GeneralFloats, IntFloatCmp);

pub fn run(ctx: &mut Ctx) {
    ctx.rule = "operands drawn from a boundary pool (0, +-1, 2^31, 2^53, 2^63, 2^64, 2^127, 2^128-1, sqrt boundaries, +-3 around each) and random widths; every representation (literal, i64, u64, i128, u128) that can hold an operand is evaluated and judged against an independent big-integer / scaled-integer oracle. Non-trivial: an operand of >= 64 bits or a negative operand (ints, dyadic floats), an integer of >= 53 bits (comparisons). Distinct by (op, operands).".into();
    ctx.assumptions = vec![
        "the big-integer oracle (model/bigint.rs) is correct (unit-tested; cross-checked against python3 in the thorough tier)".into(),
        "float checks are exact only on dyadic rationals k*2^-e with |k| < 2^24, e <= 8; general finite floats are checked for range/integrality/approximate identity".into(),
    ];
    preamble(ctx);
    let t = ctx.tier;
    ctx.run_part::<IntOps>(t.pick(200_000, 20_000_000));
    ctx.run_part::<DyadicOps>(t.pick(200_000, 16_000_000));
    ctx.run_part::<IntFloatAgree>(t.pick(50_000, 4_000_000));
    ctx.run_part::<GeneralFloats>(t.pick(100_000, 8_000_000));
    ctx.run_part::<IntFloatCmp>(t.pick(100_000, 8_000_000));
    if t == Tier::Thorough {
        python_crosscheck(ctx);
    }
}

/// Validates the oracle (not the engine): the big-integer model against python3.
fn python_crosscheck(ctx: &mut Ctx) {
    use proptest::strategy::ValueTree;
    use proptest::test_runner::{Config, RngSeed, TestRunner};
    let mut runner = TestRunner::new(Config {
        rng_seed: RngSeed::Fixed(ctx.seed ^ 0x5eed),
        failure_persistence: None,
        ..Config::default()
    });
    let strat = IntOps::strategy(Tier::Thorough);
    let mut lines = String::new();
    let mut wants = vec![];
    for _ in 0..200_000 {
        let c = strat.new_tree(&mut runner).unwrap().current();
        let a = BigInt::parse(&c.a).unwrap();
        let b = BigInt::parse(&c.b).unwrap();
        let w = match exact(&c.op, &a, &b) {
            Ok(Some(r)) => r.to_string(),
            Ok(None) => "HUGE".to_string(),
            Err(()) => "UNDEF".to_string(),
        };
        lines.push_str(&format!("{} {} {}\n", c.op, c.a, c.b));
        wants.push(w);
    }
    let script = r#"
import sys
for line in sys.stdin:
    op, a, b = line.split()
    a = int(a); b = int(b)
    try:
        if op == '+': r = a + b
        elif op == '-': r = a - b
        elif op == '*': r = a * b
        elif op == 'neg': r = -a
        elif op in ('//', '%'):
            if b == 0: raise ZeroDivisionError
            q, m = divmod(a, abs(b))
            if b < 0: q = -q
            r = q if op == '//' else m
        elif op == '**':
            if b < 0: raise ZeroDivisionError
            if abs(a) >= 2 and b > 300: print('HUGE'); continue
            r = a ** b
            if r.bit_length() > 300: print('HUGE'); continue
        print(r)
    except ZeroDivisionError:
        print('UNDEF')
"#;
    use std::io::Write;
    let child = std::process::Command::new("python3")
        .arg("-c")
        .arg(script)
        .stdin(std::process::Stdio::piped())
        .stdout(std::process::Stdio::piped())
        .spawn();
    let Ok(mut child) = child else {
        ctx.extra.insert("python_crosscheck".into(), "python3 not available".into());
        return;
    };
    let mut stdin = child.stdin.take().unwrap();
    let data = lines.clone();
    let writer = std::thread::spawn(move || {
        let _ = stdin.write_all(data.as_bytes());
    });
    let out = child.wait_with_output().expect("python");
    let _ = writer.join();
    let text = String::from_utf8_lossy(&out.stdout);
    let got: Vec<&str> = text.lines().collect();
    let mut mismatches = 0;
    if got.len() != wants.len() {
        mismatches = wants.len();
    } else {
        for (g, w) in got.iter().zip(&wants) {
            if g != w {
                mismatches += 1;
            }
        }
    }
    ctx.extra.insert(
        "python_crosscheck".into(),
        serde_json::json!({"cases": wants.len(), "oracle_mismatches": mismatches}),
    );
    if mismatches > 0 {
        eprintln!("oracle self-check failed: big-integer model disagrees with python3 on {mismatches} cases");
        std::process::exit(2);
    }
}
