//! C14 — errors point at the right template line; reported ranges are valid slices.
use std::collections::BTreeMap;

use minijinja::{Environment, Value};
use proptest::prelude::*;
use serde::{Deserialize, Serialize};

use crate::gen::free::{self, Opts};
use crate::gen::print;
use crate::props::c01::std_ctx;
use crate::runner::{guarded, Ctx, Part, Tier, Verdict};

#[derive(Clone, Debug, Serialize, Deserialize)]
pub struct LocCase {
    pub main_name: String,
    pub source: String,
    pub companions: Vec<(String, String)>,
    /// lines of text inserted above the template
    pub pad_lines: u32,
    /// characters inserted in front of the first line
    pub pad_cols: u32,
    pub debug: bool,
    pub undefined: u8,
    /// substring marking a planted failing expression (expected error line = its line)
    pub plant: Option<String>,
}

#[derive(Clone, Debug, PartialEq)]
struct Loc {
    name: Option<String>,
    line: Option<usize>,
    range: Option<(usize, usize)>,
    kind: String,
    detail: Option<String>,
}

fn chain(e: &minijinja::Error) -> Vec<Loc> {
    let one = |e: &minijinja::Error| Loc {
        name: e.name().map(|s| s.to_string()),
        line: e.line(),
        range: e.range().map(|r| (r.start, r.end)),
        kind: format!("{:?}", e.kind()),
        detail: e.detail().map(|s| s.to_string()),
    };
    let mut out = vec![one(e)];
    let mut src = std::error::Error::source(e);
    while let Some(s) = src {
        if let Some(me) = s.downcast_ref::<minijinja::Error>() {
            out.push(one(me));
        }
        src = s.source();
    }
    out
}

/// loads and renders; Ok(None) = no error
fn attempt(c: &LocCase, main_source: &str) -> Result<Option<(Vec<Loc>, Option<String>)>, (String, String)> {
    guarded(|| {
        let mut env = Environment::new();
        env.set_debug(c.debug);
        env.set_undefined_behavior(crate::props::c01::behavior(c.undefined));
        env.set_fuel(Some(50_000));
        // templates named *.custom use an escape format the default formatter cannot write:
        // printing any value that is not marked safe is a located error there
        env.set_auto_escape_callback(|name| {
            if name.ends_with(".custom") {
                minijinja::AutoEscape::Custom("custom7777")
            } else {
                minijinja::default_auto_escape_callback(name)
            }
        });
        // a function of the unpadded case: small limits make recursion fail at instructions other
        // than the include itself
        match c.source.len() % 5 {
            0 => env.set_recursion_limit(12),
            1 => env.set_recursion_limit(27),
            _ => {}
        }
        for (n, s) in &c.companions {
            let _ = env.add_template_owned(n.clone(), s.clone());
        }
        let ctx = Value::from_pairs(std_ctx().into_iter().map(|(k, v)| (k, v.to_value())));
        let err = match env.add_template_owned(c.main_name.clone(), main_source.to_string()) {
            Err(e) => e,
            Ok(()) => match env.get_template(&c.main_name).unwrap().render(ctx) {
                Ok(_) => return None,
                Err(e) => e,
            },
        };
        // formatting must not panic in any form
        let _ = format!("{err}");
        let _ = format!("{err:#}");
        let _ = format!("{err:?}");
        let _ = format!("{err:#?}");
        let _ = format!("{}", err.display_debug_info());
        let mut s = std::error::Error::source(&err);
        while let Some(x) = s {
            let _ = format!("{x} {x:#} {x:?}");
            if let Some(me) = x.downcast_ref::<minijinja::Error>() {
                let _ = format!("{}", me.display_debug_info());
            }
            s = x.source();
        }
        // ... and into a writer that fails part-way every form must return the error
        for budget in [0usize, 1, 7, 60, 300] {
            use std::fmt::Write as _;
            let _ = write!(Limited(budget), "{err}");
            let _ = write!(Limited(budget), "{err:#}");
            let _ = write!(Limited(budget), "{err:?}");
            let _ = write!(Limited(budget), "{err:#?}");
            let _ = write!(Limited(budget), "{}", err.display_debug_info());
        }
        Some((chain(&err), err.template_source().map(|s| s.to_string())))
    })
}

/// a `fmt::Write` that accepts a limited number of bytes and then fails
struct Limited(usize);

impl std::fmt::Write for Limited {
    fn write_str(&mut self, s: &str) -> std::fmt::Result {
        if s.len() > self.0 {
            self.0 = 0;
            Err(std::fmt::Error)
        } else {
            self.0 -= s.len();
            Ok(())
        }
    }
}

fn nlines(s: &str) -> usize {
    s.split('\n').count()
}

fn line_of_offset(s: &str, off: usize) -> usize {
    s.as_bytes()[..off.min(s.len())].iter().filter(|b| **b == b'\n').count() + 1
}

pub struct Located;

fn pieces() -> BoxedStrategy<String> {
    crate::runner::one_of(&[
        "text ",
        "caf\u{e9} \u{1f600} ",
        "{{ i }}",
        "{{ s|upper }}",
        "{{ 1 // 0 }}",
        "{{ nosuchfn(1) }}",
        "{{ i|nosuchfilter }}",
        "{{ i is nosuchtest }}",
        "{{ u.a.b }}",
        "{{ 'a' + 1 }}",
        "{{ l[0](1) }}",
        "{% set a, b = [1] %}",
        "{% include 'missing.txt' %}",
        "{% include 'c.txt' %}",
        "{% include 'bad.txt' %}",
        "{{ mac(1) }}",
        "{{ failmac() }}",
        "{% call(v) wrap(2) %}{{ v // 0 }}{% endcall %}",
        "{% for q in l %}{{ q // (q - 2) }}{% endfor %}",
        "{% for q in l if q // 0 %}{% endfor %}",
        "{% for q in 5 %}{% endfor %}",
        "{% for q in ll recursive %}{{ loop(3) }}{% endfor %}",
        "{% with w = 1 // 0 %}{% endwith %}",
        "{% set cap %}{{ 1 // 0 }}{% endset %}",
        "{% filter nosuchfilter %}x{% endfilter %}",
        "{% filter upper %}{{ 1 // 0 }}{% endfilter %}",
        "{% autoescape 'bogus' %}{% endautoescape %}",
        "{{ self.a() }}",
        "{{ self.nosuchblock() }}",
        "{% from 'c.txt' import m1 %}{{ m1('x') }}",
        "{% import 'c.txt' as mod %}{{ mod.nothere() }}",
        "{% do nosuch() %}",
        "{% import 'selfimp.txt' as si %}",
        "{% from 'selffrom.txt' import q %}",
        "{% include 'selfinc.txt' %}",
        "{{ super() }}",
        "{{ range(10 ** 8) }}",
        "{{ loop.index }}",
        "{{ i ~ (none|string)[\n5] // 0 }}",
        "{{ [1,\n 2,\n 3 // 0] }}",
        "{# comment\nspanning\nlines #}",
        "{% raw %}\n{{ raw }}\n{% endraw %}",
    ])
    .prop_map(|s| s.to_string())
    .boxed()
}

fn structured() -> BoxedStrategy<String> {
    (
        prop::collection::vec((pieces(), crate::runner::one_of(&["", "\n", "\r\n", "\n\n", " "])), 1..8),
        any::<bool>(),
        any::<bool>(),
    )
        .prop_map(|(p, inherit, sup)| {
            let body: String = p.into_iter().map(|(a, b)| format!("{a}{b}")).collect();
            let head = "{% macro mac(a) %}[{{ a }}]{% endmacro %}\n{% macro failmac() %}\n{{ 1 // 0 }}{% endmacro %}\n{% macro wrap(n) %}{% for z in range(n) %}{{ caller(z) }}{% endfor %}{% endmacro %}\n";
            if inherit {
                format!(
                    "{{% extends 'b.html' %}}\n{head}{{% block a %}}\n{}{body}{{% endblock %}}\n",
                    if sup { "{{ super() }}\n" } else { "" }
                )
            } else {
                format!("{head}top\n{{% block a %}}A{{{{ i }}}}{{% endblock %}}\n{body}")
            }
        })
        .boxed()
}

fn mutate(src: String, ops: Vec<(u8, u16, u8)>) -> String {
    let mut b: Vec<char> = src.chars().collect();
    const INS: [&str; 20] = [
        "{{", "}}", "{%", "%}", "{#", "#}", "-", "(", ")", "[", "]", "|", "\"", "'", ".", "\u{e9}", "\u{1f600}", "\n", ",", "=",
    ];
    for (kind, pos, what) in ops {
        if b.is_empty() {
            break;
        }
        let p = crate::runner::pick_idx(pos, b.len());
        match kind % 4 {
            0 => {
                b.remove(p);
            }
            1 => {
                for (i, c) in INS[what as usize % INS.len()].chars().enumerate() {
                    b.insert(p + i, c);
                }
            }
            2 => b.truncate(p),
            _ => {
                let q = (p + 1 + what as usize % 8).min(b.len());
                b.drain(p..q);
            }
        }
    }
    b.into_iter().collect()
}

fn companions() -> Vec<(String, String)> {
    vec![
        ("a.txt".into(), "<a:{{ i }}>".into()),
        (
            "b.html".into(),
            "<base>\n{% block a %}base-a\n{{ 1 // (i - 3) }}{% endblock %}\n{% block z %}z{% endblock %}</base>".into(),
        ),
        ("c.txt".into(), "line one\n{% macro m1(n) %}\n{% for q in range(n) %}m{% endfor %}{% endmacro %}\n<c>".into()),
        ("bad.txt".into(), "first\nsecond {{ 1 // 0 }}\nthird".into()),
        // recursion through templates whose very first instruction is the import / include
        ("selfimp.txt".into(), "{% import 'selfimp.txt' as m %}x".into()),
        ("selffrom.txt".into(), "{% from 'selffrom.txt' import q %}\nx".into()),
        ("selfinc.txt".into(), "{% include 'selfinc.txt' %}".into()),
    ]
}

impl Part for Located {
    type Case = LocCase;
    const NAME: &'static str = "error_locations";

    fn strategy(tier: Tier) -> BoxedStrategy<LocCase> {
        let o = Opts {
            sdepth: tier.pick(2, 3),
            edepth: 2,
            extreme: false,
            ..Opts::default()
        };
        let free_src = free::template(o).prop_map(|b| print::template_default(&b));
        let ops = || prop::collection::vec((any::<u8>(), any::<u16>(), any::<u8>()), 1..3);
        let source = prop_oneof![
            3 => structured(),
            3 => (structured(), ops()).prop_map(|(s, o)| mutate(s, o)),
            1 => free_src.clone(),
            2 => (free_src, ops()).prop_map(|(s, o)| mutate(s, o)),
        ];
        (
            source,
            prop_oneof![4 => crate::runner::one_of(&[0u32, 1, 2, 7, 255]), 1 => crate::runner::one_of(&[60_000u32, 65_530, 65_534])],
            prop_oneof![4 => crate::runner::one_of(&[0u32, 1, 3, 200]), 1 => crate::runner::one_of(&[65_530u32, 70_000])],
            any::<bool>(),
            any::<u8>(),
            any::<bool>(),
        )
            .prop_map(|(source, pad_lines, pad_cols, debug, undefined, html)| LocCase {
                main_name: if html { "main.html".into() } else { "main.txt".into() },
                source,
                companions: companions(),
                pad_lines,
                pad_cols,
                debug,
                undefined,
                plant: None,
            })
            .boxed()
    }

    fn check(c: &LocCase) -> Verdict {
        let mut v = Verdict::pass(false);
        let sources: BTreeMap<&str, &str> = c
            .companions
            .iter()
            .map(|(n, s)| (n.as_str(), s.as_str()))
            .collect();
        let base = match attempt(c, &c.source) {
            Err((sig, raw)) => {
                return Verdict::fail(format!("fmt_{sig}"), format!("formatting/handling the error panicked: {raw}\nsource: {:?}", c.source))
            }
            Ok(None) => return Verdict::pass(false).label("no_error"),
            Ok(Some(x)) => x,
        };
        let (locs, tsrc) = base;
        let check_locs = |locs: &[Loc], main_src: &str, what: &str, v: &mut Verdict| {
            for l in locs {
                let Some(name) = &l.name else { continue };
                let src: &str = if *name == c.main_name {
                    main_src
                } else if let Some(s) = sources.get(name.as_str()) {
                    s
                } else {
                    continue;
                };
                match l.line {
                    None => v.set_fail("named_error_without_line", format!("{what}: error {l:?} names a template but has no line")),
                    Some(line) => {
                        if line < 1 || line > nlines(src).min(65_535) {
                            v.set_fail(
                                "line_outside_source",
                                format!("{what}: error {l:?} reports line {line} but {name} has {} lines\nsource: {:?}", nlines(src), &main_src[main_src.len().saturating_sub(300)..]),
                            );
                        }
                    }
                }
                if let Some((a, b)) = l.range {
                    if a > b || src.get(a..b).is_none() {
                        v.set_fail(
                            "range_not_a_valid_slice",
                            format!("{what}: error {l:?} reports range {a}..{b} which is not a valid slice of {name} (len {})", src.len()),
                        );
                    } else if let Some(line) = l.line {
                        // the range must lie on the reported line (or start there for multi-line spans)
                        let lo = line_of_offset(src, a);
                        let hi = line_of_offset(src, b);
                        if line <= 65_000 && !(lo..=hi).contains(&line) {
                            v.set_fail(
                                "range_not_on_reported_line",
                                format!("{what}: error {l:?} reports line {line} but its range {a}..{b} covers lines {lo}..={hi}"),
                            );
                        }
                    }
                }
            }
        };
        check_locs(&locs, &c.source, "baseline", &mut v);
        if locs[0].name.is_none() {
            v.set_fail("error_without_template_name", format!("the returned error {:?} names no template\nsource: {:?}", locs[0], c.source));
        }
        if let Some(ts) = &tsrc {
            // the outermost error's template_source is the source of the template it names
            if let Some(name) = &locs[0].name {
                let want = if *name == c.main_name { Some(c.source.as_str()) } else { sources.get(name.as_str()).copied() };
                if let Some(w) = want {
                    if w != ts {
                        v.set_fail("template_source_differs", format!("template_source() of an error in {name} is not that template's source"));
                    }
                }
            }
        }
        let first_main = locs.iter().find(|l| l.name.as_deref() == Some(c.main_name.as_str()));
        v.nontrivial = first_main.map_or(false, |l| l.line.unwrap_or(1) > 1 || l.range.map_or(false, |r| r.0 > 0))
            && (c.pad_lines > 0 || c.source.chars().any(|ch| !ch.is_ascii()) || locs.len() > 1);
        if locs.len() > 1 {
            v.labels.push("cause_chain");
        }
        if locs[0].kind == "SyntaxError" {
            v.labels.push("syntax_error");
        } else {
            v.labels.push("runtime_error");
        }

        // vertical offset: N lines of text above the template
        // the property's domain is templates of up to 65 535 lines
        let fits = nlines(&c.source) + c.pad_lines as usize <= 65_535;
        if !fits {
            v.labels.push("beyond_65535_lines");
        }
        if c.pad_lines > 0 && v.fail.is_none() && fits {
            let pad = "pad\n".repeat(c.pad_lines as usize);
            let shifted_src = format!("{pad}{}", c.source);
            match attempt(c, &shifted_src) {
                Err((sig, raw)) => v.set_fail(format!("fmt_{sig}"), format!("with {} lines above: {raw}", c.pad_lines)),
                Ok(None) => v.set_fail("error_disappears_when_shifted", format!("inserting {} lines of text above made the error disappear\nsource: {:?}", c.pad_lines, c.source)),
                Ok(Some((l2, _))) => {
                    check_locs(&l2, &shifted_src, "shifted", &mut v);
                    if l2.len() != locs.len() {
                        v.set_fail("chain_changes_when_shifted", format!("cause chain {locs:?} became {l2:?}"));
                    } else {
                        for (a, b) in locs.iter().zip(&l2) {
                            let in_main = a.name.as_deref() == Some(c.main_name.as_str());
                            let n = if in_main { c.pad_lines as usize } else { 0 };
                            let bytes = if in_main { pad.len() } else { 0 };
                            let want_line = a.line.map(|l| (l + n).min(65_535));
                            let saturated = want_line == Some(65_535);
                            if a.kind != b.kind || a.detail != b.detail || a.name != b.name {
                                v.set_fail("error_changes_when_shifted", format!("{a:?} became {b:?} after inserting {} lines above", c.pad_lines));
                            } else if b.line != want_line && !saturated {
                                v.set_fail(
                                    "line_shift_wrong",
                                    format!("{a:?} became {b:?}: inserting {} lines above must shift the line by exactly that\nsource: {:?}", c.pad_lines, c.source),
                                );
                            } else if a.range.map(|r| (r.0 + bytes, r.1 + bytes)) != b.range {
                                v.set_fail("range_shift_wrong", format!("{a:?} became {b:?}: the range must move by {bytes} bytes"));
                            }
                        }
                    }
                }
            }
        }
        // horizontal offset: M characters in front of the first line
        if c.pad_cols > 0 && v.fail.is_none() {
            let pad = "x".repeat(c.pad_cols as usize);
            let shifted_src = format!("{pad}{}", c.source);
            match attempt(c, &shifted_src) {
                Err((sig, raw)) => v.set_fail(format!("fmt_{sig}"), format!("with {} characters in front: {raw}", c.pad_cols)),
                Ok(None) => v.set_fail("error_disappears_when_shifted", format!("inserting {} characters in front made the error disappear", c.pad_cols)),
                Ok(Some((l2, _))) => {
                    check_locs(&l2, &shifted_src, "indented", &mut v);
                    if l2.len() == locs.len() {
                        for (a, b) in locs.iter().zip(&l2) {
                            let in_main = a.name.as_deref() == Some(c.main_name.as_str());
                            let bytes = if in_main { pad.len() } else { 0 };
                            if a.kind != b.kind || a.detail != b.detail || a.name != b.name || a.line != b.line {
                                v.set_fail("error_changes_when_indented", format!("{a:?} became {b:?} after inserting {} characters in front", c.pad_cols));
                            } else if a.range.map(|r| (r.0 + bytes, r.1 + bytes)) != b.range {
                                v.set_fail("range_shift_wrong", format!("{a:?} became {b:?}: the range must move by {bytes} bytes"));
                            }
                        }
                    } else {
                        v.set_fail("chain_changes_when_shifted", format!("cause chain {locs:?} became {l2:?}"));
                    }
                }
            }
        }
        // planted error: reported on the line where it was put
        if let Some(marker) = &c.plant {
            if let Some(off) = c.source.find(marker.as_str()) {
                let want = line_of_offset(&c.source, off);
                let innermost = locs.iter().rev().find(|l| l.name.as_deref() == Some(c.main_name.as_str()));
                match innermost.and_then(|l| l.line) {
                    Some(l) if l == want => v.labels.push("planted_line_ok"),
                    other => v.set_fail(
                        "planted_error_on_wrong_line",
                        format!("the failing expression {marker:?} is on line {want} but the error chain {locs:?} reports {other:?}\nsource: {:?}", c.source),
                    ),
                }
            }
        }
        v
    }

    fn show(c: &LocCase) -> serde_json::Value {
        let mut s = c.source.clone();
        if s.len() > 400 {
            let mut cut = 400;
            while !s.is_char_boundary(cut) {
                cut -= 1;
            }
            s.truncate(cut);
        }
        serde_json::json!({"source": s, "pad_lines": c.pad_lines, "pad_cols": c.pad_cols, "plant": c.plant})
    }
}

// ------------------------------------------------------------------ planted run-time errors

pub struct Planted;

/// every construct with a hole for the failing expression `{{ (7777 // 0) }}`
fn planted_sources() -> Vec<(String, String, &'static str, u8)> {
    let plant = "(7777 // 0)";
    let holes = [
        "{{ @ }}",
        "{% if @ %}x{% endif %}",
        "{% if false %}{% elif @ %}x{% endif %}",
        "{% for q in @ %}{% endfor %}",
        "{% for q in l %}\n{{ @ }}\n{% endfor %}",
        "{% for q in l if @ %}{% endfor %}",
        "{% for q in [] %}{% else %}\n{{ @ }}{% endfor %}",
        "{% set w = @ %}",
        "{% set w = @, %}",
        "{% set w = 1,\n @ %}",
        "{% set w %}\n{{ @ }}{% endset %}",
        "{% with w = @ %}{% endwith %}",
        "{% with w = 1 %}\n\n{{ @ }}{% endwith %}",
        "{% filter upper %}\n{{ @ }}{% endfilter %}",
        "{% autoescape true %}\n{{ @ }}{% endautoescape %}",
        "{% macro pm() %}\n{{ @ }}\n{% endmacro %}{{ pm() }}",
        "{% macro pm(a=@) %}{{ a }}{% endmacro %}\n{{ pm() }}",
        "{{ mac(@) }}",
        "{% call(v) wrap(1) %}\n{{ @ }}{% endcall %}",
        "{% call(v) wrap(@) %}{% endcall %}",
        "{% block pb %}\n{{ @ }}\n{% endblock %}",
        "{% include @ %}",
        "{{ l[@] }}",
        "{{ l[0:@] }}",
        "{{ dict(k=@) }}",
        "{{ [1, 2,\n @] }}",
        "{{ i if @ else 2 }}",
        "{{ i|default(@) }}",
        "{{ i is eq(@) }}",
        "{% do dict(k=@) %}",
        "{% for q in ll recursive %}{{ loop(q) if q is sequence else @ }}{% endfor %}",
    ];
    let mut out = vec![];
    // failing *statements* that end their line: the next instruction belongs to a later line
    let stmts = [
        ("{% include 'missing-7777.txt' %}", "missing-7777"),
        ("{% do nosuch7777() %}", "nosuch7777"),
        ("{% set a7777, b = [1] %}", "a7777"),
        ("{{ i|nosuchfilter7777 }}", "nosuchfilter7777"),
        ("{% extends 'missing-7777.txt' %}", "missing-7777"),
        ("{% import 'missing-7777.txt' as mm %}", "missing-7777"),
        ("{% from 'missing-7777.txt' import mm %}", "missing-7777"),
        ("{{ nosuch7777 // 2 }}", "nosuch7777"),
        ("{% for a7777, b in [1] %}{% endfor %}", "a7777"),
        ("{% with a7777, b = [1] %}{% endwith %}", "a7777"),
        ("{% autoescape 'bogus7777' %}{% endautoescape %}", "bogus7777"),
        ("{% filter nosuchfilter7777 %}x{% endfilter %}", "nosuchfilter7777"),
        // the call of a call block fails; its body spans further lines
        ("{% call nosuch7777() %}\n a\n {{ 1 }}\n b\n{% endcall %}", "nosuch7777"),
        ("{% call(v) mac(1, 2, 3, bogus7777=4) %}\n{{ v }}\n\n{% endcall %}", "bogus7777"),
        ("{% call s.nosuch7777() %}\nbody\n{% endcall %}", "nosuch7777"),
        // an invalid escape sequence in a string that is not on the first line of its expression
        ("{{ dict(k=\n\n   \"bad7777 \\x escape\") }}", "bad7777"),
    ];
    // prints that fail because of the escape mode of the template: a value JSON cannot carry in a
    // *.json template, any unsafe value in a template with a custom escape format
    let mode_stmts: [(&str, &str, &'static str); 6] = [
        ("{{ {(7777, 2): 3} }}", "7777", "main.json"),
        ("{% macro pj() %}\n{{ {(7777, 2): 3} }}\n{% endmacro %}\n\n{{ pj() }}", "7777", "main.json"),
        ("{% for q in [1] %}\n{{ {(7777, q): 3} }}{% endfor %}", "7777", "main.json"),
        ("{{ 'x7777' }}", "x7777", "main.custom"),
        ("{% macro pc() %}\n\n{{ 'x7777' }}{% endmacro %}\n{{ pc()|safe }}", "x7777", "main.custom"),
        ("{% autoescape 'json' %}\n{{ {(7777, 2): 3} }}\n{% endautoescape %}", "7777", "main.txt"),
    ];
    for (stmt, marker, name) in mode_stmts {
        for (pre, post) in [("", "\nnext"), ("line1\n\n", "\n\n{{ 1 }}"), ("{% if true %}\n", "\n{{ 2 }}\n{% endif %}\n")] {
            out.push((format!("{pre}{stmt}{post}"), marker.to_string(), name, 0));
        }
    }
    for (stmt, marker) in stmts {
        for (pre, post) in [
            ("", "\nnext {{ i }}\n{{ s }}"),
            ("line1\n\n", "\n\n{{ i }}"),
            ("{% if true %}\n", "\n{{ i }}\n{% endif %}\n{{ s }}"),
            ("{% for q in l %}\n", "\n\n{{ q }}{% endfor %}"),
            ("\u{e9}\u{1f600}\r\n", "\r\n{{ i }}\r\n"),
        ] {
            out.push((format!("{pre}{stmt}{post}"), marker.to_string(), "main.txt", 0));
        }
    }
    // operations that fail on an undefined operand under strict undefined behaviour (`not`, the
    // condition of an inline if, a bare print): instructions without a span of their own, inside
    // every way of writing a literal around them - a bare tuple with a trailing comma included
    let strict_stmts = [
        "{{ not nosuch7777 }}",
        "{{ 1 if nosuch7777 }}",
        "{% set w = not nosuch7777 %}",
        "{% set w = not nosuch7777, %}",
        "{% set w = 1 if nosuch7777, %}",
        "{% set w = 1 if nosuch7777 else 2,\n %}",
        "{% set w = (not nosuch7777,) %}",
        "{% set w = 1, not nosuch7777 %}",
        "{% set w = not nosuch7777, 2 %}",
        "{% set w = [not nosuch7777] %}",
        "{% set w = [1,\n not nosuch7777,\n] %}",
        "{% set w = {'k': not nosuch7777} %}",
        "{% set w = {'k': 1 if nosuch7777} %}",
        "{% set w, u = 1, not nosuch7777 %}",
        "{% for q in not nosuch7777, %}{% endfor %}",
        "{% if not nosuch7777 %}{% endif %}",
        "{% for q in l if not nosuch7777 %}{% endfor %}",
        "{% with w = not nosuch7777 %}{% endwith %}",
        "{{ mac(not nosuch7777) }}",
        "{{ dict(k=not nosuch7777) }}",
        "{{ l[not nosuch7777] }}",
        "{{ (1, not nosuch7777)[1] }}",
        "{% do [1 if nosuch7777] %}",
    ];
    for stmt in strict_stmts {
        for (pre, post) in [("", "\nnext {{ i }}"), ("line1\n\n", "\n\n{{ i }}"), ("\u{e9}\u{1f600}\r\n{% if true %}", "{% endif %}\r\n{{ i }}\r\n")] {
            let head = "{% macro mac(a) %}[{{ a }}]{% endmacro %}";
            out.push((format!("{head}{pre}{stmt}{post}"), "nosuch7777".to_string(), "main.txt", 1));
        }
    }
    for h in holes {
        for (pre, post) in [("", ""), ("line1\nline2 ", " tail\nend"), ("\u{e9}\u{1f600}\n\n\n", "\n"), ("{# c\nc #}\r\n", "")] {
            let head = "{% macro mac(a) %}[{{ a }}]{% endmacro %}{% macro wrap(n) %}{% for z in range(n) %}{{ caller(z) }}{% endfor %}{% endmacro %}";
            out.push((format!("{head}{pre}{}{post}", h.replace('@', plant)), plant.to_string(), "main.txt", 0));
        }
    }
    out
}

impl Part for Planted {
    type Case = LocCase;
    const NAME: &'static str = "planted_errors";

    fn strategy(_tier: Tier) -> BoxedStrategy<LocCase> {
        let all = planted_sources();
        (0..all.len(), crate::runner::one_of(&[0u32, 1, 7, 255, 60_000]), crate::runner::one_of(&[0u32, 3, 70_000]), any::<bool>())
            .prop_map(move |(i, pad_lines, pad_cols, debug)| LocCase {
                main_name: all[i].2.into(),
                source: all[i].0.clone(),
                companions: companions(),
                pad_lines,
                pad_cols,
                debug,
                undefined: all[i].3,
                plant: Some(all[i].1.clone()),
            })
            .boxed()
    }

    fn enumeration(_tier: Tier) -> Vec<LocCase> {
        let mut out = vec![];
        for (src, plant, name, undefined) in planted_sources() {
            for pad_lines in [0u32, 1, 7, 255, 60_000] {
                for pad_cols in [0u32, 3, 70_000] {
                    out.push(LocCase {
                        main_name: name.into(),
                        source: src.clone(),
                        companions: companions(),
                        pad_lines,
                        pad_cols,
                        debug: (pad_lines + pad_cols) % 2 == 0,
                        undefined,
                        plant: Some(plant.clone()),
                    });
                }
            }
        }
        out
    }

    fn check(c: &LocCase) -> Verdict {
        let mut v = Located::check(c);
        v.nontrivial = true;
        if v.labels.contains(&"no_error") {
            v.set_fail("planted_error_not_raised", format!("the planted division by zero did not fail: {:?}", c.source));
        }
        v
    }

    fn show(c: &LocCase) -> serde_json::Value {
        Located::show(c)
    }
}

crate::declare_parts!(Located, Planted);

pub fn run(ctx: &mut Ctx) {
    ctx.rule = "failing templates: structured multi-line programs (macros, call blocks, blocks, inheritance, includes of failing templates, imports, loops, captures) with failing pieces, their character-level mutations (delete / insert delimiter, quote, multi-byte character, newline / truncate anywhere) and mutated free-mode templates, with CRLF and multi-byte text; for every error of the cause chain that names a template: 1 <= line <= lines of that source, range is a valid slice (in bounds, char boundaries, start <= end) lying on the reported line, template_source() is that source; metamorphic: N in {1,2,7,255,60000,65530,65534} lines of text above shift line by exactly N and the range by the pad length, M in {1,3,200,65530,70000} characters in front move only the range, kind/detail/name unchanged; all Display/Debug/display_debug_info forms complete without panic, debug on and off, also when written into a writer that fails after 0/1/7/60/300 bytes; the returned error names a template. planted: a division by zero planted in every construct (29 expression holes x 4 surroundings and 16 failing statements (incl. failing calls of call blocks with multi-line bodies and a bad escape sequence on a later line of its expression) x 5 surroundings, and 6 prints that fail because of the template's escape mode (a value JSON cannot carry in a .json template or an autoescape 'json' block, an unsafe value under a custom escape format; at top level, in macros, in loops) x 3 surroundings, each x 5 x 3 offsets, enumerated) must be reported on its own line. Non-trivial: error not at line 1 offset 0 and (padding or multi-byte text or a cause chain). Distinct by case.".into();
    ctx.assumptions = vec!["lines are counted as split('\\n') so that an error after a trailing newline is inside the source".into()];
    preamble(ctx);
    let t = ctx.tier;
    ctx.run_enumerated::<Planted>(Planted::enumeration(t), true);
    ctx.run_part::<Located>(t.pick(80_000, 6_000_000));
}
