//! C10 — text is verbatim and whitespace control exact under any delimiter configuration.
use minijinja::{Environment, Value};
use proptest::prelude::*;
use serde::{Deserialize, Serialize};

use crate::gen::ast::*;
use crate::gen::free::{self, Opts};
use crate::gen::print::{self, Syntax};
use crate::model::ws::{self, Marker, Seg, Settings};
use crate::props::c01::std_ctx;
use crate::runner::{Ctx, Part, Tier, Verdict};

// ------------------------------------------------------------------ (a) whitespace model

#[derive(Clone, Debug, Serialize, Deserialize)]
pub struct WsCase {
    pub segs: Vec<Seg>,
    pub settings: Settings,
}

pub struct WsModel;

/// text pieces: whitespace, line endings, braces and delimiter look-alikes. A lone CR is only
/// generated between two non-whitespace characters (whether it starts a line is not documented).
const TEXTS: [&str; 24] = [
    " ", "  ", "\t", "\n", "\r\n", "\n\n", "x", "y z", "{", "}", "%", "#", "\u{a0}", "\u{c}", " \n ", "\n  ",
    "  \n", "x\rx", "{ {", "% }", "-", "+", "é", "\n\t\n",
];

const RAW_TEXTS: [&str; 19] = [
    "", " ", "\n", "  \n  ", "x", "{{ x }}", "{% if %}", "{# c #}", "{{", "\n{% endif %}\n", " x ", "\r\n", "{%", "\t",
    "{% raw", "\n  ",
    // first characters of the custom block starts used below (a block start that overlaps itself)
    "[", "x[", "<",
];

fn marker() -> BoxedStrategy<Marker> {
    prop_oneof![3 => Just(Marker::None), 2 => Just(Marker::Minus), 1 => Just(Marker::Plus)].boxed()
}

fn text_seg() -> BoxedStrategy<Seg> {
    prop::collection::vec(0..TEXTS.len(), 1..4)
        .prop_map(|v| Seg::Text(v.into_iter().map(|i| TEXTS[i]).collect()))
        .boxed()
}

fn seg() -> BoxedStrategy<Seg> {
    prop_oneof![
        5 => text_seg(),
        2 => (marker(), marker()).prop_map(|(l, r)| Seg::Var(l, r)),
        3 => (marker(), marker()).prop_map(|(l, r)| Seg::Block(l, r)),
        2 => (marker(), marker()).prop_map(|(l, r)| Seg::Comment(l, r)),
        2 => (marker(), marker(), prop::collection::vec(0..RAW_TEXTS.len(), 0..3), marker(), marker())
            .prop_map(|(a, b, c, d, e)| Seg::Raw(a, b, c.into_iter().map(|i| RAW_TEXTS[i]).collect(), d, e)),
    ]
    .boxed()
}

fn settings(n: u8) -> Settings {
    Settings {
        trim_blocks: n & 1 != 0,
        lstrip_blocks: n & 2 != 0,
        keep_trailing_newline: n & 4 != 0,
    }
}

/// keeps lone CRs out of positions where "is this a line start / line ending" is undocumented
fn sanitize(segs: &mut Vec<Seg>) {
    let norm = ws::normalize(segs);
    *segs = norm;
    let n = segs.len();
    for i in 0..n {
        let followed_by_tag = i + 1 < n;
        if let Seg::Text(t) = &mut segs[i] {
            // text must not spell a start delimiter, neither inside nor across the boundary to
            // the next tag
            for d in ["{{", "{%", "{#"] {
                while let Some(p) = t.find(d) {
                    t.insert(p + 1, 'x');
                }
            }
            if followed_by_tag && t.ends_with('{') {
                t.push('x');
            }
            // a text ending or starting with '\r' next to a tag is ambiguous
            if t.ends_with('\r') {
                t.push('x');
            }
            if t.starts_with('\r') && !t.starts_with("\r\n") && i > 0 {
                t.insert(0, 'x');
            }
        }
    }
}

impl WsModel {
    fn check_case(c: &WsCase) -> Verdict {
        let mut env = Environment::new();
        env.set_trim_blocks(c.settings.trim_blocks);
        env.set_lstrip_blocks(c.settings.lstrip_blocks);
        env.set_keep_trailing_newline(c.settings.keep_trailing_newline);
        let src = ws::source(&c.segs);
        let want = ws::expected(&c.segs, c.settings);
        let norm = ws::normalize(&c.segs);
        let has_marker_at_newline = norm.windows(2).any(|w| match (&w[0], &w[1]) {
            (Seg::Text(t), tag) if !matches!(tag, Seg::Text(_)) => t.contains('\n'),
            (tag, Seg::Text(t)) if !matches!(tag, Seg::Text(_)) => t.contains('\n'),
            _ => false,
        });
        let mut v = Verdict::pass(has_marker_at_newline);
        if norm.iter().any(|s| matches!(s, Seg::Raw(..))) {
            v.labels.push("has_raw");
        }
        if src.contains("\r\n") {
            v.labels.push("crlf");
        }
        match env.render_str(&src, ()) {
            Ok(got) => {
                if got != want {
                    let what = if norm.iter().any(|s| matches!(s, Seg::Raw(..))) { "raw" } else { "tags" };
                    v.set_fail(
                        format!("whitespace_model:{what}"),
                        format!("source {src:?} with {:?}: the rules give {want:?} but the engine renders {got:?}", c.settings),
                    );
                }
            }
            Err(e) => v.set_fail("whitespace_model:error", format!("source {src:?} failed: {e}")),
        }
        // the rules do not depend on how the delimiters are spelled: the same sequence under two
        // custom syntaxes (one with prefix-sharing delimiters) must give the same output
        if v.fail.is_none() {
            for d in [["<%", "%>", "<<", ">>", "<#", "#>"], ["<%", "%>", "<%=", "%>", "<%#", "%>"], ["[[", "]]", "[=", "=]", "[#", "#]"]] {
                let syntax = minijinja::syntax::SyntaxConfig::builder()
                    .block_delimiters(d[0], d[1])
                    .variable_delimiters(d[2], d[3])
                    .comment_delimiters(d[4], d[5])
                    .build()
                    .unwrap();
                env.set_syntax(syntax);
                let src = ws::source_with(&c.segs, &d);
                match env.render_str(&src, ()) {
                    Ok(got) => {
                        if got != want {
                            v.set_fail(
                                "whitespace_model:custom_delimiters",
                                format!("source {src:?} with {:?}: the rules give {want:?} but the engine renders {got:?}", c.settings),
                            );
                        }
                    }
                    Err(e) => v.set_fail("whitespace_model:custom_delimiters_error", format!("source {src:?} failed: {e}")),
                }
                if v.fail.is_some() {
                    break;
                }
            }
        }
        v
    }
}

impl Part for WsModel {
    type Case = WsCase;
    const NAME: &'static str = "whitespace_model";

    fn strategy(_tier: Tier) -> BoxedStrategy<WsCase> {
        (prop::collection::vec(seg(), 1..9), 0u8..8)
            .prop_map(|(mut segs, s)| {
                sanitize(&mut segs);
                WsCase { segs, settings: settings(s) }
            })
            .boxed()
    }

    fn check(c: &WsCase) -> Verdict {
        Self::check_case(c)
    }

    fn show(c: &WsCase) -> serde_json::Value {
        serde_json::json!({"source": ws::source(&c.segs), "settings": c.settings})
    }
}

/// all sequences of up to 3 segments over a reduced alphabet x all 8 settings
pub fn ws_enumeration() -> Vec<WsCase> {
    let texts = [" ", "\n", "  \n  ", "x", "\r\n ", " x\n"];
    let markers = [Marker::None, Marker::Minus, Marker::Plus];
    let mut alphabet: Vec<Seg> = texts.iter().map(|t| Seg::Text(t.to_string())).collect();
    for l in markers {
        for r in markers {
            alphabet.push(Seg::Var(l, r));
            alphabet.push(Seg::Block(l, r));
            alphabet.push(Seg::Comment(l, r));
        }
    }
    for (r1, l2) in [(Marker::None, Marker::None), (Marker::Minus, Marker::None), (Marker::None, Marker::Minus), (Marker::Plus, Marker::Plus)] {
        for c in ["", " \n x \n ", "\n"] {
            alphabet.push(Seg::Raw(Marker::None, r1, c.to_string(), l2, Marker::None));
        }
    }
    let mut out = vec![];
    let n = alphabet.len();
    for s in 0..8u8 {
        for a in 0..n {
            out.push(WsCase { segs: vec![alphabet[a].clone()], settings: settings(s) });
            for b in 0..n {
                out.push(WsCase { segs: vec![alphabet[a].clone(), alphabet[b].clone()], settings: settings(s) });
            }
        }
    }
    // length 3: text-tag-text and tag-text-tag shapes (the shapes the rules talk about)
    for s in 0..8u8 {
        for a in 0..n {
            for b in 0..n {
                for c in 0..n {
                    let (ta, tb, tc) = (
                        matches!(alphabet[a], Seg::Text(_)),
                        matches!(alphabet[b], Seg::Text(_)),
                        matches!(alphabet[c], Seg::Text(_)),
                    );
                    if (ta && !tb && tc) || (!ta && tb && !tc) {
                        out.push(WsCase {
                            segs: vec![alphabet[a].clone(), alphabet[b].clone(), alphabet[c].clone()],
                            settings: settings(s),
                        });
                    }
                }
            }
        }
    }
    for c in out.iter_mut() {
        sanitize(&mut c.segs);
    }
    out
}

// ------------------------------------------------------------------ (b) delimiter rewriting

#[derive(Clone, Debug, Serialize, Deserialize)]
pub struct SyntaxCase {
    pub body: Vec<Stmt>,
    pub syntax: Syntax,
}

pub struct Delimiters;

fn syn(bs: &str, be: &str, vs: &str, ve: &str, cs: &str, ce: &str) -> Syntax {
    Syntax {
        block_start: bs.into(),
        block_end: be.into(),
        var_start: vs.into(),
        var_end: ve.into(),
        comment_start: cs.into(),
        comment_end: ce.into(),
        line_statement_prefix: None,
        line_comment_prefix: None,
    }
}

pub fn syntax_family() -> Vec<Syntax> {
    vec![
        syn("<%", "%>", "<%=", "%>", "<%#", "%>"),          // prefix sharing, shared end marker
        syn("<<", ">>", "<<<", ">>>", "<<#", "#>>"),         // nested prefix
        syn("{", "}", "${", "}", "#{", "}"),                 // single brace
        syn("\\BLOCK{", "}", "\\VAR{", "}", "\\#{", "}"),    // LaTeX style
        syn("[%", "%]", "[[", "]]", "[#", "#]"),
        syn("(%", "%)", "((", "))", "(#", "#)"),
        syn("{%", "%}", "${", "}", "{#", "#}"),
        syn("@@", "@@", "@{", "}@", "@#", "#@"),
        syn("<!--%", "%-->", "<!--=", "=-->", "<!--#", "#-->"),
        syn("%%", "%%", "%{", "}", "%#", "#%"),
        syn("{%%", "%%}", "{{{", "}}}", "{##", "##}"),       // longer than, and prefixed by, the defaults
        syn("é%", "%é", "é{", "}é", "é#", "#é"),             // multi-byte
    ]
}

/// characters random delimiters are made of (no alphanumerics, quotes or whitespace; `+` is left
/// out because it would be indistinguishable from a whitespace marker)
const DELIM_CHARS: [&str; 22] = ["<", ">", "%", "#", "{", "}", "[", "]", "(", ")", "@", "$", "!", "=", "/", "*", "é", "~", "|", "&", "-", ":"];

/// A random *valid and unambiguous* delimiter configuration decoded from bytes, or None when the
/// bytes spell an ambiguous one. Valid as the builder defines it (start delimiters non-empty and
/// pairwise distinct, end delimiters non-empty); unambiguous = no end delimiter begins with a
/// marker character, and no start delimiter is another start delimiter followed by `-` (then
/// `<%-` could be either a block start with a marker or the longer delimiter).
/// Prefix-sharing, self-overlapping and single-character delimiters are all wanted.
pub fn random_syntax(bytes: &[u8], line_mode: bool) -> Option<Syntax> {
    let mut it = bytes.iter().copied().chain(std::iter::repeat(0));
    let mut delim = |max_len: usize| -> String {
        let n = 1 + (it.next().unwrap() as usize % max_len);
        (0..n).map(|_| DELIM_CHARS[it.next().unwrap() as usize % DELIM_CHARS.len()]).collect()
    };
    let s = Syntax {
        block_start: delim(4),
        block_end: delim(3),
        var_start: delim(4),
        var_end: delim(3),
        comment_start: delim(4),
        comment_end: delim(3),
        line_statement_prefix: None,
        line_comment_prefix: None,
    };
    let starts = [&s.block_start, &s.var_start, &s.comment_start];
    for (i, a) in starts.iter().enumerate() {
        for (j, b) in starts.iter().enumerate() {
            if i != j && (a == b || b.starts_with(&format!("{a}-"))) {
                return None;
            }
        }
    }
    for e in [&s.block_end, &s.var_end, &s.comment_end] {
        if e.starts_with('-') {
            return None;
        }
    }
    // a comment must be able to hold its (fixed) content
    if "c".contains(s.comment_end.as_str()) {
        return None;
    }
    if line_mode && [&s.block_start, &s.var_start, &s.comment_start, &s.block_end, &s.var_end, &s.comment_end].iter().any(|d| d.contains('#')) {
        return None;
    }
    Some(s)
}

/// Could the end delimiter (alone or behind a marker character) be read inside this tag body
/// before the body is over? The engine looks for it wherever no bracket is open, outside string
/// literals. Over-approximation: every such position counts, not only token starts.
pub fn inner_conflicts(inner: &str, end: &str) -> bool {
    let b = inner.as_bytes();
    let mut depth = 0i32;
    let mut i = 0usize;
    while i < b.len() {
        let c = b[i];
        if c == b'"' {
            i += 1;
            while i < b.len() && b[i] != b'"' {
                if b[i] == b'\\' {
                    i += 1;
                }
                i += 1;
            }
            i += 1;
            continue;
        }
        if depth <= 0 && inner.is_char_boundary(i) {
            let rest = &inner[i..];
            if rest.starts_with(end) || ((c == b'-' || c == b'+') && rest[1..].starts_with(end)) {
                return true;
            }
        }
        match c {
            b'(' | b'[' | b'{' => depth += 1,
            b')' | b']' | b'}' => depth -= 1,
            _ => {}
        }
        i += 1;
    }
    false
}

/// true when some tag body of the printed program could be cut short by its own end delimiter
pub fn program_conflicts(body: &[Stmt], syntax: &Syntax) -> bool {
    // print with sentinel delimiters that cannot occur in a body, then look at every body
    let probe = Syntax {
        block_start: "\u{1}B".into(),
        block_end: "\u{2}".into(),
        var_start: "\u{1}V".into(),
        var_end: "\u{2}".into(),
        comment_start: "\u{1}C".into(),
        comment_end: "\u{2}".into(),
        line_statement_prefix: None,
        line_comment_prefix: None,
    };
    let src = print::template(body, &probe);
    for chunk in src.split('\u{1}').skip(1) {
        let Some(endpos) = chunk.find('\u{2}') else { continue };
        let (kind, inner) = chunk[..endpos].split_at(1);
        let end = match kind {
            "B" => &syntax.block_end,
            "V" => &syntax.var_end,
            _ => continue,
        };
        if inner_conflicts(inner, end) {
            return true;
        }
    }
    false
}

/// text alphabet with partial and look-alike delimiters
const LOOKALIKES: [&str; 28] = [
    "<", "%", ">", "<%-x", "{", "}", "$", "#", "\\", "\\BLOCK", "\\VAR", "[", "]", "(", ")", "@", "<!--", "-->", "<!-", "é", "=",
    "text ", "\n", " ", "{ {", "% >", "<<-", "a<b",
];

fn map_texts(body: &mut Vec<Stmt>, f: &mut dyn FnMut(&mut String)) {
    for s in body.iter_mut() {
        match s {
            Stmt::Text(t) => f(t),
            Stmt::If { branches, else_ } => {
                for (_, b) in branches.iter_mut() {
                    map_texts(b, f);
                }
                if let Some(e) = else_ {
                    map_texts(e, f);
                }
            }
            Stmt::For { body, else_, .. } => {
                map_texts(body, f);
                if let Some(e) = else_ {
                    map_texts(e, f);
                }
            }
            Stmt::SetBlock { body, .. }
            | Stmt::With { body, .. }
            | Stmt::FilterBlock { body, .. }
            | Stmt::AutoEscape { body, .. }
            | Stmt::Macro { body, .. }
            | Stmt::CallBlock { body, .. }
            | Stmt::Block { body, .. } => map_texts(body, f),
            _ => {}
        }
    }
}

fn text_for(syntax: &Syntax, idx: Vec<usize>) -> String {
    let t: String = idx.into_iter().map(|i| LOOKALIKES[i]).collect();
    text_for_str(syntax, &t)
}

fn text_for_str(syntax: &Syntax, t: &str) -> String {
    let mut t = t.to_string();
    // never a complete start delimiter of the syntax in force (nor of the default syntax, since
    // the same program is also rendered with the default delimiters)
    let starts = [
        syntax.block_start.as_str(),
        syntax.var_start.as_str(),
        syntax.comment_start.as_str(),
        "{{",
        "{%",
        "{#",
    ];
    loop {
        let mut changed = false;
        for s in starts {
            while let Some(p) = t.find(s) {
                if s.chars().count() == 1 {
                    // a one-character delimiter cannot be broken apart: drop it
                    t.replace_range(p..p + s.len(), "_");
                } else {
                    // break the delimiter apart with a neutral character
                    let cut = p + s.chars().next().unwrap().len_utf8();
                    t.insert(cut, '_');
                }
                changed = true;
            }
        }
        if !changed {
            break;
        }
    }
    t
}

/// A text must not form a start delimiter together with the beginning of the tag that
/// follows it (in either syntax); if it would, a neutral character is appended.
fn guard_boundaries(body: &mut Vec<Stmt>, syntax: &Syntax) {
    let def = Syntax::default();
    let n = body.len();
    for i in 0..n {
        let is_text_before_tag_or_end = matches!(body[i], Stmt::Text(_));
        if is_text_before_tag_or_end {
            // texts are merged by the printer, so only a text followed by a non-text (or by the
            // closing tag of the enclosing construct) matters; checking always is harmless
            if let Stmt::Text(t) = &mut body[i] {
                let mut bad = false;
                for syn in [&def, syntax] {
                    let starts = [&syn.block_start, &syn.var_start, &syn.comment_start];
                    for opening in starts {
                        // (the tag may carry a whitespace marker, which can complete a delimiter too)
                        for mark in ["", "-", "+"] {
                            let joined = format!("{t}{opening}{mark}");
                            for d in starts {
                                let mut from = 0;
                                while let Some(p) = joined[from..].find(d.as_str()) {
                                    if from + p < t.len() {
                                        bad = true;
                                    }
                                    from += p + 1;
                                    while !joined.is_char_boundary(from) {
                                        from += 1;
                                    }
                                }
                            }
                        }
                    }
                }
                if bad {
                    t.push('_');
                }
            }
        }
    }
    for s in body.iter_mut() {
        match s {
            Stmt::If { branches, else_ } => {
                for (_, b) in branches.iter_mut() {
                    guard_boundaries(b, syntax);
                }
                if let Some(e) = else_ {
                    guard_boundaries(e, syntax);
                }
            }
            Stmt::For { body, else_, .. } => {
                guard_boundaries(body, syntax);
                if let Some(e) = else_ {
                    guard_boundaries(e, syntax);
                }
            }
            Stmt::SetBlock { body, .. }
            | Stmt::With { body, .. }
            | Stmt::FilterBlock { body, .. }
            | Stmt::AutoEscape { body, .. }
            | Stmt::Macro { body, .. }
            | Stmt::CallBlock { body, .. }
            | Stmt::Block { body, .. } => guard_boundaries(body, syntax),
            _ => {}
        }
    }
}

/// merges adjacent text statements (so that boundaries are real text/tag boundaries)
fn merge_texts(body: &mut Vec<Stmt>) {
    let mut out: Vec<Stmt> = vec![];
    for s in body.drain(..) {
        match (out.last_mut(), s) {
            (Some(Stmt::Text(a)), Stmt::Text(b)) => a.push_str(&b),
            (_, s) => out.push(s),
        }
    }
    *body = out;
    for s in body.iter_mut() {
        match s {
            Stmt::If { branches, else_ } => {
                for (_, b) in branches.iter_mut() {
                    merge_texts(b);
                }
                if let Some(e) = else_ {
                    merge_texts(e);
                }
            }
            Stmt::For { body, else_, .. } => {
                merge_texts(body);
                if let Some(e) = else_ {
                    merge_texts(e);
                }
            }
            Stmt::SetBlock { body, .. }
            | Stmt::With { body, .. }
            | Stmt::FilterBlock { body, .. }
            | Stmt::AutoEscape { body, .. }
            | Stmt::Macro { body, .. }
            | Stmt::CallBlock { body, .. }
            | Stmt::Block { body, .. } => merge_texts(body),
            _ => {}
        }
    }
}

/// replaces every text statement of the tree by look-alike text for the syntax
fn retext(body: &mut Vec<Stmt>, syntax: &Syntax, pool: &mut dyn FnMut() -> Vec<usize>) {
    for s in body.iter_mut() {
        match s {
            Stmt::Text(t) => *t = text_for(syntax, pool()),
            Stmt::Raw(t) | Stmt::Comment(t) => *t = "r".into(),
            Stmt::If { branches, else_ } => {
                for (_, b) in branches.iter_mut() {
                    retext(b, syntax, pool);
                }
                if let Some(e) = else_ {
                    retext(e, syntax, pool);
                }
            }
            Stmt::For { body, else_, .. } => {
                retext(body, syntax, pool);
                if let Some(e) = else_ {
                    retext(e, syntax, pool);
                }
            }
            Stmt::SetBlock { body, .. }
            | Stmt::With { body, .. }
            | Stmt::FilterBlock { body, .. }
            | Stmt::AutoEscape { body, .. }
            | Stmt::Macro { body, .. }
            | Stmt::CallBlock { body, .. }
            | Stmt::Block { body, .. } => retext(body, syntax, pool),
            _ => {}
        }
    }
}

fn render_with(body: &[Stmt], syntax: &Syntax) -> Result<Result<String, String>, String> {
    let mut env = Environment::new();
    env.set_fuel(Some(50_000));
    if !syntax.is_default() {
        env.set_syntax(syntax.to_config().map_err(|e| format!("syntax rejected: {e}"))?);
    }
    let src = print::template(body, syntax);
    let ctx = Value::from_pairs(std_ctx().into_iter().map(|(k, v)| (k, v.to_value())));
    Ok(env.render_named_str("t.txt", &src, ctx).map_err(|e| format!("{:?}", e.kind())))
}

impl Part for Delimiters {
    type Case = SyntaxCase;
    const NAME: &'static str = "delimiter_rewriting";

    fn strategy(tier: Tier) -> BoxedStrategy<SyntaxCase> {
        let o = Opts {
            multi: false,
            sdepth: tier.pick(2, 3),
            edepth: 2,
            extreme: false,
            ..Opts::default()
        };
        let fam = syntax_family();
        let n = fam.len();
        (
            free::template(o),
            0..n,
            prop::collection::vec(prop::collection::vec(0..LOOKALIKES.len(), 0..5), 24),
            prop::collection::vec(any::<u8>(), 0..24),
        )
            .prop_map(move |(body0, si, texts, sbytes)| {
                // half of the cases use a random delimiter configuration; a configuration under
                // which a tag body of this program could be cut short falls back to the family
                let mut candidates = vec![];
                if sbytes.len() >= 12 {
                    if let Some(r) = random_syntax(&sbytes, false) {
                        candidates.push(r);
                    }
                }
                candidates.push(fam[si].clone());
                let mut built = None;
                for syntax in candidates {
                let mut body = body0.clone();
                let mut i = 0;
                let mut pool = || {
                    i += 1;
                    texts[i % texts.len()].clone()
                };
                // string literals may contain anything; text statements get look-alikes
                retext(&mut body, &syntax, &mut pool);
                // a leading text makes sure there is text in front of the first tag
                body.insert(0, Stmt::Text(text_for(&syntax, texts[0].clone())));
                merge_texts(&mut body);
                // merged texts may spell a delimiter across the old boundary
                let fix = |b: &mut Vec<Stmt>| {
                    map_texts(b, &mut |t| {
                        let cleaned = text_for_str(&syntax, t);
                        *t = cleaned;
                    })
                };
                fix(&mut body);
                guard_boundaries(&mut body, &syntax);
                if built.is_none() && !program_conflicts(&body, &syntax) {
                    built = Some(SyntaxCase { body, syntax });
                }
                }
                built.expect("the family syntaxes never conflict with a tag body")
            })
            .boxed()
    }

    fn check(c: &SyntaxCase) -> Verdict {
        let base = render_with(&c.body, &Syntax::default());
        let custom = render_with(&c.body, &c.syntax);
        let mut has_prefix = false;
        walk_stmts(&c.body, &mut |s| {
            if let Stmt::Text(t) = s {
                for d in [&c.syntax.block_start, &c.syntax.var_start, &c.syntax.comment_start] {
                    let first = d.chars().next().unwrap();
                    if t.contains(first) {
                        has_prefix = true;
                    }
                }
            }
        });
        let mut v = Verdict::pass(has_prefix);
        if !syntax_family().contains(&c.syntax) {
            v.labels.push("random_delimiters");
        }
        match (base, custom) {
            (Ok(a), Ok(b)) => {
                if a != b {
                    v.set_fail(
                        "delimiters_change_rendering",
                        format!(
                            "default syntax renders {a:?}, {:?} renders {b:?}\ncustom source: {:?}",
                            c.syntax,
                            print::template(&c.body, &c.syntax)
                        ),
                    );
                } else if a.is_ok() {
                    v.labels.push("rendered_ok");
                }
            }
            (Err(e), _) | (_, Err(e)) => v.set_fail("syntax_config_rejected", e),
        }
        v
    }

    fn show(c: &SyntaxCase) -> serde_json::Value {
        serde_json::json!({"source": print::template(&c.body, &c.syntax), "syntax": c.syntax})
    }
}

// ------------------------------------------------------------------ (c) default delimiters are plain text under a custom syntax; line statements

#[derive(Clone, Debug, Serialize, Deserialize)]
pub struct PlainCase {
    pub pieces: Vec<String>,
    pub syntax_idx: u8,
    pub line_mode: bool,
}

pub struct PlainText;

impl Part for PlainText {
    type Case = PlainCase;
    const NAME: &'static str = "default_delimiters_as_text_and_line_statements";

    fn strategy(_tier: Tier) -> BoxedStrategy<PlainCase> {
        let piece = crate::runner::one_of(&[
            "{{ x }}", "{% if x %}", "{% endif %}", "{# c #}", "{{", "}}", "{%", "%}", "{#", "#}", "{{- x -}}", "{% raw %}", " ", "\n", "text",
            "{", "}", "{%- set a = 1 %}", "{{ '<%' }}",
        ]);
        (prop::collection::vec(piece, 1..8), 0u8..12, any::<bool>())
            .prop_map(|(p, syntax_idx, line_mode)| PlainCase {
                pieces: p.into_iter().map(|s| s.to_string()).collect(),
                syntax_idx,
                line_mode,
            })
            .boxed()
    }

    fn check(c: &PlainCase) -> Verdict {
        let fam = syntax_family();
        let mut syntax = fam[c.syntax_idx as usize % fam.len()].clone();
        let mut v = Verdict::pass(true);
        if !c.line_mode {
            // under a custom syntax whose delimiters do not overlap the default ones, text that
            // spells default delimiters is plain text
            let text: String = c.pieces.concat();
            let overlaps = [&syntax.block_start, &syntax.var_start, &syntax.comment_start]
                .iter()
                .any(|d| text.contains(d.as_str()));
            if overlaps {
                return Verdict::pass(false).label("overlaps_custom_delimiters");
            }
            let mut env = Environment::new();
            env.set_syntax(syntax.to_config().unwrap());
            env.set_keep_trailing_newline(true);
            match env.render_named_str("t.txt", &text, ()) {
                Ok(out) if out == text => {}
                other => v.set_fail(
                    "default_delimiters_not_plain_text",
                    format!("under {syntax:?} the text {text:?} must come out verbatim, got {other:?}"),
                ),
            }
            // text without any tag, under the default delimiters, through each host entry point
            // (one-shot render_str / render_named_str, a stored template, a template from a
            // string): all lose exactly the one trailing newline the rule names, in each
            // line-ending style, and nothing else
            let plain: String = text.chars().filter(|ch| !matches!(ch, '{' | '}' | '%' | '#')).collect();
            for tail in ["", "\n", "\r\n", "\r", "\n\n", "\n\r", "\r\r", " \n", "\r\n\r\n"] {
                for keep in [false, true] {
                    let src = format!("{plain}{tail}");
                    let mut env = Environment::new();
                    env.set_keep_trailing_newline(keep);
                    let stored = {
                        let mut e2 = env.clone();
                        e2.add_template_owned("t.txt".to_string(), src.clone()).and_then(|_| e2.get_template("t.txt").and_then(|t| t.render(())))
                    };
                    let outs = [
                        ("render_str", env.render_str(&src, ())),
                        ("render_named_str", env.render_named_str("t.txt", &src, ())),
                        ("template_from_str", env.template_from_str(&src).and_then(|t| t.render(()))),
                        ("add_template", stored),
                    ];
                    let want = if keep {
                        src.clone()
                    } else if let Some(x) = src.strip_suffix("\r\n") {
                        x.to_string()
                    } else if let Some(x) = src.strip_suffix('\n') {
                        x.to_string()
                    } else if let Some(x) = src.strip_suffix('\r') {
                        x.to_string()
                    } else {
                        src.clone()
                    };
                    for (via, got) in outs {
                        match got {
                            Ok(g) if g == want => {}
                            other => {
                                v.set_fail(
                                    "plain_text_not_verbatim",
                                    format!("{via} of tag-free text {src:?} (keep_trailing_newline={keep}) gave {other:?}, expected {want:?}"),
                                );
                                return v;
                            }
                        }
                    }
                }
            }
        } else {
            // a line statement behaves like the block tag occupying that whole line; a line
            // comment like a comment occupying the rest of its line
            syntax.line_statement_prefix = Some("#!".into());
            syntax.line_comment_prefix = Some("##".into());
            let mut env = Environment::new();
            env.set_syntax(syntax.to_config().unwrap());
            env.set_keep_trailing_newline(true);
            let bs = &syntax.block_start;
            let be = &syntax.block_end;
            let vs = &syntax.var_start;
            let ve = &syntax.var_end;
            let n = c.pieces.len();
            // program: a loop and a condition written once with line statements, once with block
            // tags that occupy whole lines (trim_blocks/lstrip_blocks make a block tag "occupy its line")
            let body_lines: Vec<String> = (0..n).map(|i| format!("  item {vs} q {ve} {}", i)).collect();
            // `gap`: what follows the line of each statement - nothing, an empty line, a blank line
            for gap in ["", "\n", " \n"] {
            let with_lines = format!(
                "head\n#! for q in [1, 2]\n{gap}{}\n  #! if q == 1   \n{gap}first ## trailing comment\n#! endif\n{gap}#! endfor\n{gap}tail\n",
                body_lines.join("\n")
            );
            let (cs, ce) = (&syntax.comment_start, &syntax.comment_end);
            let with_tags = format!(
                "head\n{bs} for q in [1, 2] {be}\n{gap}{}\n  {bs} if q == 1 {be}\n{gap}first {cs} trailing comment {ce}\n{bs} endif {be}\n{gap}{bs} endfor {be}\n{gap}tail\n",
                body_lines.join("\n")
            );
            // both line-ending styles
            for crlf in [false, true] {
            let (with_lines, with_tags) = if crlf {
                (with_lines.replace('\n', "\r\n"), with_tags.replace('\n', "\r\n"))
            } else {
                (with_lines.clone(), with_tags.clone())
            };
            // the line-statement form under every trim_blocks / lstrip_blocks setting (neither
            // names a line statement: it has no block tag to act on)
            for flags in 0..4u8 {
            env.set_trim_blocks(flags & 1 != 0);
            env.set_lstrip_blocks(flags & 2 != 0);
            let a = env.render_named_str("t.txt", &with_lines, ());
            let mut env2 = Environment::new();
            let mut plain = syntax.clone();
            plain.line_statement_prefix = None;
            plain.line_comment_prefix = None;
            env2.set_syntax(plain.to_config().unwrap());
            env2.set_keep_trailing_newline(true);
            env2.set_trim_blocks(true);
            env2.set_lstrip_blocks(true);
            let b = env2.render_named_str("t.txt", &with_tags, ());
            match (a, b) {
                (Ok(x), Ok(y)) => {
                    if x != y {
                        v.set_fail(
                            "line_statement_differs_from_block_tag",
                            format!("line statements (trim_blocks={}, lstrip_blocks={}) render {x:?}, whole-line block tags render {y:?}\nsources: {with_lines:?} / {with_tags:?}", flags & 1 != 0, flags & 2 != 0),
                        );
                    }
                }
                (x, y) => v.set_fail("line_statement_error", format!("{x:?} / {y:?}")),
            }
            }
            }
            }
        }
        v
    }
}


// ------------------------------------------------------------------ (d) styled programs against the reference interpreter

/// A well-typed program of the core fragment (C03's generator), its text statements replaced by
/// whitespace and delimiter look-alikes, written in a random *style*: one of 13 delimiter sets,
/// `-`/`+` markers on either side of any tag, free spacing inside tags, whitespace between tags
/// that a `-` removes again, comments, text written as raw blocks, block tags written as line
/// statements, under any of the 8 whitespace settings. The whitespace rules (model::ws) say which
/// characters of every text run survive; the reference interpreter renders the program with
/// exactly those texts; the engine must render the styled source to the same output.
#[derive(Clone, Debug, Serialize, Deserialize)]
pub struct StyledCase {
    pub tape: Vec<u8>,
    pub budget: u16,
    pub ctx_variant: u8,
    pub loop_controls: bool,
    /// 0 = default delimiters, 1..=12 = syntax_family()[n-1]
    pub syntax_idx: u8,
    pub line_mode: bool,
    pub settings: u8,
    pub style: Vec<u8>,
    pub texts: Vec<Vec<usize>>,
    /// when these spell an unambiguous random delimiter configuration it replaces `syntax_idx`
    #[serde(default)]
    pub syntax_bytes: Vec<u8>,
}

pub struct StyledPrograms;

const STYLED_TEXTS: [&str; 40] = [
    "<", "%", ">", "<%-x", "{", "}", "$", "#", "\\", "\\BLOCK", "\\VAR", "[", "]", "(", ")", "@", "<!--", "-->", "<!-", "é", "=",
    "text ", "\n", " ", "{ {", "% >", "<<-", "a<b", "  ", "\t", "\r\n", " \n ", "\n\n", "x\n", "\n  ", "-", "+", "y", "\u{a0}", "  \n",
];

fn replace_texts(body: &mut Vec<Stmt>, f: &mut dyn FnMut(usize, &mut String)) {
    let mut n = 0usize;
    map_texts(body, &mut |t| {
        f(n, t);
        n += 1;
    });
}

fn prune_empty_texts(body: &mut Vec<Stmt>) {
    body.retain(|s| !matches!(s, Stmt::Text(t) if t.is_empty()));
    for s in body.iter_mut() {
        match s {
            Stmt::If { branches, else_ } => {
                for (_, b) in branches.iter_mut() {
                    prune_empty_texts(b);
                }
                if let Some(e) = else_ {
                    prune_empty_texts(e);
                }
            }
            Stmt::For { body, else_, .. } => {
                prune_empty_texts(body);
                if let Some(e) = else_ {
                    prune_empty_texts(e);
                }
            }
            Stmt::SetBlock { body, .. }
            | Stmt::With { body, .. }
            | Stmt::FilterBlock { body, .. }
            | Stmt::AutoEscape { body, .. }
            | Stmt::Macro { body, .. }
            | Stmt::CallBlock { body, .. }
            | Stmt::Block { body, .. } => prune_empty_texts(body),
            _ => {}
        }
    }
}

pub struct StyledBuild {
    pub syntax: Syntax,
    pub settings: Settings,
    pub source: String,
    /// the program with every text statement reduced to the characters the rules let through
    pub effective: Vec<Stmt>,
    pub labels: Vec<&'static str>,
    pub nontrivial: bool,
}

pub fn build_styled(c: &StyledCase) -> Result<StyledBuild, String> {
    let fam = syntax_family();
    let mut syntax = if c.syntax_idx == 0 { Syntax::default() } else { fam[(c.syntax_idx as usize - 1) % fam.len()].clone() };
    let mut random = false;
    if c.syntax_bytes.len() >= 12 {
        if let Some(r) = random_syntax(&c.syntax_bytes, c.line_mode) {
            let body = crate::gen::typed::program(&c.tape, c.budget as i32, c.loop_controls);
            if !program_conflicts(&body, &r) {
                syntax = r;
                random = true;
            }
        }
    }
    if c.line_mode {
        syntax.line_statement_prefix = Some("#!".into());
        syntax.line_comment_prefix = Some("##".into());
    }
    // trim_blocks / lstrip_blocks are not combined with line statements (what a line statement
    // followed by a blank line renders under trim_blocks is not documented)
    let settings = if c.line_mode { Settings { trim_blocks: false, lstrip_blocks: false, keep_trailing_newline: c.settings & 4 != 0 } } else { settings(c.settings) };
    let mut body = crate::gen::typed::program(&c.tape, c.budget as i32, c.loop_controls);
    // texts: the generator's own markers, look-alikes, or both
    let mut i = 0usize;
    map_texts(&mut body, &mut |t| {
        let pick = &c.texts[i % c.texts.len()];
        i += 1;
        let extra: String = pick.iter().skip(1).map(|k| STYLED_TEXTS[*k % STYLED_TEXTS.len()]).collect();
        match pick.first().copied().unwrap_or(0) % 4 {
            0 => {}
            1 | 2 => t.push_str(&extra),
            _ => *t = extra,
        }
    });
    merge_texts(&mut body);
    map_texts(&mut body, &mut |t| {
        let mut cleaned = text_for_str(&syntax, t);
        if c.line_mode {
            // no text may spell a line prefix: both begin with `#`
            cleaned = cleaned.replace('#', "_");
        }
        *t = cleaned;
    });
    guard_boundaries(&mut body, &syntax);
    prune_empty_texts(&mut body);
    merge_texts(&mut body);
    // (merging after pruning can only join texts that were separated by an empty one; clean again)
    map_texts(&mut body, &mut |t| *t = text_for_str(&syntax, t));
    guard_boundaries(&mut body, &syntax);

    let (source, pieces) = print::template_styled(&body, &syntax, print::Style::new(c.style.clone(), c.line_mode));
    let flat: Vec<ws::Piece> = pieces.iter().map(|p| p.0.clone()).collect();
    // the rules are stated over maximal text runs
    for w in flat.windows(2) {
        if matches!((&w[0], &w[1]), (ws::Piece::Text(_), ws::Piece::Text(_))) {
            return Err(format!("printer wrote two adjacent text pieces: {source:?}"));
        }
    }
    let eff = ws::effective_texts(&flat, settings);
    let mut by_id: std::collections::BTreeMap<usize, String> = Default::default();
    let mut labels: Vec<&'static str> = vec![];
    let mut nontrivial = false;
    for ((piece, id), e) in pieces.iter().zip(eff.iter()) {
        match (piece, id, e) {
            (ws::Piece::Text(orig), Some(id), Some(e)) => {
                if e != orig {
                    nontrivial = true;
                    labels.push("text_trimmed");
                }
                by_id.insert(*id, e.clone());
            }
            (ws::Piece::Text(_), None, Some(e)) => {
                if !e.is_empty() {
                    return Err(format!("inserted whitespace is not removed by the rules: {source:?}"));
                }
                labels.push("inserted_blank");
            }
            (ws::Piece::Tag { inert, left, right, src, .. }, _, _) => {
                if *inert {
                    labels.push(if src.contains("##") { "line_comment" } else { "line_statement" });
                    nontrivial = true;
                }
                if *left == Marker::Minus || *right == Marker::Minus {
                    labels.push("minus_marker");
                }
                if *left == Marker::Plus || *right == Marker::Plus {
                    labels.push("plus_marker");
                }
                if src.contains("endraw") {
                    labels.push("raw_text");
                }
            }
            _ => {}
        }
    }
    let mut effective = body.clone();
    let mut missing = false;
    replace_texts(&mut effective, &mut |n, t| match by_id.get(&n) {
        Some(e) => *t = e.clone(),
        None => missing = true,
    });
    if missing {
        return Err(format!("a text statement has no piece: {source:?}"));
    }
    if !syntax.is_default() {
        labels.push("custom_delimiters");
    }
    if random {
        labels.push("random_delimiters");
    }
    labels.sort();
    labels.dedup();
    Ok(StyledBuild { syntax, settings, source, effective, labels, nontrivial })
}

impl Part for StyledPrograms {
    type Case = StyledCase;
    const NAME: &'static str = "styled_programs_vs_reference";

    fn strategy(tier: Tier) -> BoxedStrategy<StyledCase> {
        (
            prop::collection::vec(any::<u8>(), 20..tier.pick(200usize, 320)),
            20u16..80,
            0u8..4,
            prop::bool::weighted(0.2),
            0u8..13,
            prop::bool::weighted(0.3),
            0u8..8,
            prop::collection::vec(any::<u8>(), 0..64),
            prop::collection::vec(prop::collection::vec(0..STYLED_TEXTS.len(), 1..5), 12),
            prop::collection::vec(any::<u8>(), 0..24),
        )
            .prop_map(|(tape, budget, ctx_variant, loop_controls, syntax_idx, line_mode, settings, style, texts, syntax_bytes)| StyledCase {
                tape,
                budget,
                ctx_variant,
                loop_controls,
                syntax_idx,
                line_mode,
                settings,
                style,
                texts,
                syntax_bytes,
            })
            .boxed()
    }

    fn check(c: &StyledCase) -> Verdict {
        let b = match build_styled(c) {
            Ok(b) => b,
            Err(why) => {
                let mut v = Verdict::pass(false);
                v.set_fail("harness_styled_printer", why);
                return v;
            }
        };
        let mut v = Verdict::pass(b.nontrivial);
        v.labels.extend(b.labels.iter().copied());
        let (engine_ctx, model_ctx) = crate::props::c03::contexts(c.ctx_variant);
        let mut templates = std::collections::BTreeMap::new();
        templates.insert("t.txt".to_string(), b.effective.clone());
        let want = crate::refint::Interp::new(&templates, model_ctx).render("t.txt");
        let mut env = Environment::new();
        env.set_fuel(Some(500_000));
        match b.syntax.to_config() {
            Ok(cfg) => env.set_syntax(cfg),
            Err(e) => {
                v.set_fail("syntax_config_rejected", format!("{e}"));
                return v;
            }
        }
        env.set_trim_blocks(b.settings.trim_blocks);
        env.set_lstrip_blocks(b.settings.lstrip_blocks);
        env.set_keep_trailing_newline(b.settings.keep_trailing_newline);
        let got = env.render_named_str("t.txt", &b.source, Value::from_pairs(engine_ctx));
        match (want, got) {
            (Err(crate::refint::RErr::Unsupported(_)), _) => {
                v.nontrivial = false;
                v.labels.push("outside_fragment");
            }
            (Ok(w), Ok(g)) => {
                if w != g {
                    v.set_fail(
                        "styled_program_differs",
                        format!(
                            "the whitespace rules and the documented semantics give {w:?}\nthe engine renders {g:?}\nsettings {:?}, syntax {:?}\nsource: {:?}",
                            b.settings, b.syntax, b.source
                        ),
                    );
                }
            }
            // the fuel budget is the harness' own protection against endless programs
            (Ok(_), Err(e)) if e.kind() == minijinja::ErrorKind::OutOfFuel => {
                v.nontrivial = false;
                v.labels.push("out_of_fuel");
            }
            (Ok(w), Err(e)) => v.set_fail(
                "styled_program_fails",
                format!("expected {w:?} but the engine fails: {e:#}\nsettings {:?}, syntax {:?}\nsource: {:?}", b.settings, b.syntax, b.source),
            ),
            (Err(e), Ok(g)) => v.set_fail(
                "styled_program_accepts_documented_error",
                format!("documented semantics fail with {e:?} but the engine renders {g:?}\nsource: {:?}", b.source),
            ),
            (Err(_), Err(_)) => v.labels.push("both_fail"),
        }
        v
    }

    fn show(c: &StyledCase) -> serde_json::Value {
        match build_styled(c) {
            Ok(b) => serde_json::json!({"source": b.source, "syntax": b.syntax, "settings": b.settings, "ctx_variant": c.ctx_variant}),
            Err(e) => serde_json::json!({"harness_error": e}),
        }
    }
}


// ------------------------------------------------------------------ (e) odd but accepted configurations

/// Delimiter configurations that look risky - end delimiters that begin with a marker character
/// (HTML comment style) or with whitespace, start delimiters that end in one - against a fixed
/// set of probe templates. The rule is the property's: *if* the builder accepts a configuration,
/// a template re-spelled with it renders like the default spelling (the builder may also reject
/// the configuration; then there is nothing to check).
#[derive(Clone, Debug, Serialize, Deserialize)]
pub struct ValidityCase {
    pub syntax: Syntax,
    pub probe: u8,
}

pub struct OddConfigurations;

fn odd_syntaxes() -> Vec<Syntax> {
    vec![
        syn("<!--", "-->", "${", "}", "<#", "#>"),
        syn("{%", "%}", "{{", "}}", "<!--", "-->"),
        syn("<!--%", "-->", "<!--=", "-->", "<!--#", "-->"),
        syn("{-", "-}", "{=", "=}", "{#", "#}"),
        syn("[+", "+]", "[[", "]]", "[#", "#]"),
        syn("{%", "%}", "{{", "-}}", "{#", "-#}"),
        syn("{%", " %}", "{{", "}}", "{#", "#}"),
        syn("{%", "%}", "{{", "\t}}", "{#", "#}"),
        syn("{%", "%}", "{{", "}}", "{#", " #}"),
        syn("<%-", "%>", "<%=", "%>", "<%#", "%>"),
    ]
}

/// probe templates as (pieces); B/E = block start/end, V/W = variable start/end, C/D = comment start/end
const PROBES: [&str; 12] = [
    "A<B> if t <E>a<B> endif <E>Z",
    "A <B>- if t -<E> a <B>- endif -<E> Z",
    "A <B>+ if t +<E> a <B>+ endif +<E> Z",
    "A<B> raw <E>r {{ y }} r<B> endraw <E>Z",
    "A <B>- raw -<E> r <B>- endraw -<E> Z",
    "A<V> x <W>|<V>- x -<W>|<V>+ x +<W>Z",
    "A<C> c <D>|<C>- c -<D> | <C>+ c +<D>Z",
    "A<C><D>Z",
    "A<C>+<D>\n  Z",
    "A<C>-<D>\n  Z",
    "A<B>if t<E>a<B>endif<E><V>x<W>Z",
    "A<B> for q in [1, 2] <E><V> q <W>,<B> endfor <E><B> set n = -1 <E><V> n <W>Z",
];

fn spell(probe: &str, s: &Syntax) -> String {
    probe
        .replace("<B>", &s.block_start)
        .replace("<E>", &s.block_end)
        .replace("<V>", &s.var_start)
        .replace("<W>", &s.var_end)
        .replace("<C>", &s.comment_start)
        .replace("<D>", &s.comment_end)
}

impl Part for OddConfigurations {
    type Case = ValidityCase;
    const NAME: &'static str = "accepted_configurations_work";

    fn strategy(_tier: Tier) -> BoxedStrategy<ValidityCase> {
        let all = Self::enumeration(Tier::Quick);
        (0..all.len()).prop_map(move |i| all[i].clone()).boxed()
    }

    fn enumeration(_tier: Tier) -> Vec<ValidityCase> {
        let mut out = vec![];
        for syntax in odd_syntaxes() {
            for probe in 0..PROBES.len() as u8 {
                out.push(ValidityCase { syntax: syntax.clone(), probe });
            }
        }
        out
    }

    fn check(c: &ValidityCase) -> Verdict {
        let mut v = Verdict::pass(true);
        let Ok(cfg) = c.syntax.to_config() else {
            v.nontrivial = false;
            v.labels.push("rejected_by_builder");
            return v;
        };
        let probe = PROBES[c.probe as usize % PROBES.len()];
        let ctx = || Value::from_pairs([("t", Value::from(true)), ("x", Value::from("X"))]);
        let mut base = Environment::new();
        base.set_keep_trailing_newline(true);
        let want = base.render_named_str("t.txt", &spell(probe, &Syntax::default()), ctx());
        let mut env = Environment::new();
        env.set_keep_trailing_newline(true);
        env.set_syntax(cfg);
        let src = spell(probe, &c.syntax);
        // the default spelling of `{{ y }}` inside the raw probe is plain text under other delimiters too
        let got = env.render_named_str("t.txt", &src, ctx());
        match (want, got) {
            (Ok(a), Ok(b)) if a == b => {}
            (Err(_), Err(_)) => v.labels.push("both_fail"),
            (a, b) => v.set_fail(
                "accepted_configuration_misbehaves",
                format!("{:?} is accepted by the builder; the default spelling renders {a:?}, the re-spelled template {src:?} renders {b:?}", c.syntax),
            ),
        }
        v
    }
}

crate::declare_parts!(WsModel, Delimiters, PlainText, StyledPrograms, OddConfigurations);

pub fn run(ctx: &mut Ctx) {
    ctx.rule = "(a) sequences of up to 8 segments: text over {space, tab, LF, CRLF, lone CR between letters, x, braces, %, #, NBSP, form feed, -, +} and tags {variable, block, comment, raw with content incl. tag look-alikes} with every marker in {none,-,+} on either side (and on both raw tags) x the 8 settings, compared with an independent model of the rules (one trailing line ending; - eats all adjacent whitespace; trim_blocks eats one line ending after block/comment/raw tags; lstrip_blocks eats horizontal whitespace between line start and a block/comment/raw tag; + disables the last two); all sequences of length <= 2 and all text-tag-text / tag-text-tag triples over a 37-symbol alphabet enumerated. (b) free-mode single-file programs (non-extreme) whose text statements are drawn from partial and look-alike delimiters, printed with the default delimiters and with each of 12 delimiter sets (prefix-sharing <% <%= <%#, nested << <<<, single brace, LaTeX, shared end markers, @@..@@, HTML comments, %%, {%% {{{ {##, multi-byte): same rendering or same error kind. (d) well-typed programs printed in a random style (delimiters, markers, spacing, raw texts, comments, line statements, 8 settings) against model::ws + the reference interpreter; (e) 10 odd but accepted configurations (HTML comment style, marker-like and whitespace-leading end delimiters) x 12 probes: accepted => renders like the default spelling. (c) text spelling default delimiters under a non-overlapping custom syntax is verbatim; a loop/if written with line statements and line comments renders like whole-line block tags, with LF and with CRLF line endings. Non-trivial: (a) a tag adjacent to text containing a line ending; (b) text containing the first character of a start delimiter. Distinct by case.".into();
    ctx.assumptions = vec![
        "a lone CR is kept out of positions adjacent to tags (whether it is a line boundary is not documented)".into(),
        "horizontal whitespace = Unicode whitespace other than CR/LF".into(),
    ];
    preamble(ctx);
    let t = ctx.tier;
    ctx.run_enumerated::<WsModel>(ws_enumeration(), true);
    ctx.run_part::<WsModel>(t.pick(600_000, 6_000_000));
    ctx.run_part::<Delimiters>(t.pick(100_000, 2_000_000));
    ctx.run_part::<PlainText>(t.pick(30_000, 300_000));
    ctx.run_part::<StyledPrograms>(t.pick(60_000, 3_000_000));
    ctx.run_enumerated::<OddConfigurations>(OddConfigurations::enumeration(t), true);
}
