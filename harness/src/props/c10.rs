//! C10 — text is verbatim and whitespace control exact under any delimiter configuration.
use minijinja::{Environment, Value};
use proptest::prelude::*;
use serde::{Deserialize, Serialize};

use crate::gen::ast::*;
use crate::gen::free::{self, Opts};
use crate::gen::print::{self, Syntax};
use crate::model::ws::{self, Marker, Seg, Settings};
use crate::props::c01::std_ctx;
use crate::runner::{Ctx, Part, Tier, Verdict};

// ------------------------------------------------------------------ (a) whitespace model

#[derive(Clone, Debug, Serialize, Deserialize)]
pub struct WsCase {
    pub segs: Vec<Seg>,
    pub settings: Settings,
}

pub struct WsModel;

/// text pieces: whitespace, line endings, braces and delimiter look-alikes. A lone CR is only
/// generated between two non-whitespace characters (whether it starts a line is not documented).
const TEXTS: [&str; 24] = [
    " ", "  ", "\t", "\n", "\r\n", "\n\n", "x", "y z", "{", "}", "%", "#", "\u{a0}", "\u{c}", " \n ", "\n  ",
    "  \n", "x\rx", "{ {", "% }", "-", "+", "é", "\n\t\n",
];

const RAW_TEXTS: [&str; 19] = [
    "", " ", "\n", "  \n  ", "x", "{{ x }}", "{% if %}", "{# c #}", "{{", "\n{% endif %}\n", " x ", "\r\n", "{%", "\t",
    "{% raw", "\n  ",
    // first characters of the custom block starts used below (a block start that overlaps itself)
    "[", "x[", "<",
];

fn marker() -> BoxedStrategy<Marker> {
    prop_oneof![3 => Just(Marker::None), 2 => Just(Marker::Minus), 1 => Just(Marker::Plus)].boxed()
}

fn text_seg() -> BoxedStrategy<Seg> {
    prop::collection::vec(0..TEXTS.len(), 1..4)
        .prop_map(|v| Seg::Text(v.into_iter().map(|i| TEXTS[i]).collect()))
        .boxed()
}

fn seg() -> BoxedStrategy<Seg> {
    prop_oneof![
        5 => text_seg(),
        2 => (marker(), marker()).prop_map(|(l, r)| Seg::Var(l, r)),
        3 => (marker(), marker()).prop_map(|(l, r)| Seg::Block(l, r)),
        2 => (marker(), marker()).prop_map(|(l, r)| Seg::Comment(l, r)),
        2 => (marker(), marker(), prop::collection::vec(0..RAW_TEXTS.len(), 0..3), marker(), marker())
            .prop_map(|(a, b, c, d, e)| Seg::Raw(a, b, c.into_iter().map(|i| RAW_TEXTS[i]).collect(), d, e)),
    ]
    .boxed()
}

fn settings(n: u8) -> Settings {
    Settings {
        trim_blocks: n & 1 != 0,
        lstrip_blocks: n & 2 != 0,
        keep_trailing_newline: n & 4 != 0,
    }
}

/// keeps lone CRs out of positions where "is this a line start / line ending" is undocumented
fn sanitize(segs: &mut Vec<Seg>) {
    let norm = ws::normalize(segs);
    *segs = norm;
    let n = segs.len();
    for i in 0..n {
        let followed_by_tag = i + 1 < n;
        if let Seg::Text(t) = &mut segs[i] {
            // text must not spell a start delimiter, neither inside nor across the boundary to
            // the next tag
            for d in ["{{", "{%", "{#"] {
                while let Some(p) = t.find(d) {
                    t.insert(p + 1, 'x');
                }
            }
            if followed_by_tag && t.ends_with('{') {
                t.push('x');
            }
            // a text ending or starting with '\r' next to a tag is ambiguous
            if t.ends_with('\r') {
                t.push('x');
            }
            if t.starts_with('\r') && !t.starts_with("\r\n") && i > 0 {
                t.insert(0, 'x');
            }
        }
    }
}

impl WsModel {
    fn check_case(c: &WsCase) -> Verdict {
        let mut env = Environment::new();
        env.set_trim_blocks(c.settings.trim_blocks);
        env.set_lstrip_blocks(c.settings.lstrip_blocks);
        env.set_keep_trailing_newline(c.settings.keep_trailing_newline);
        let src = ws::source(&c.segs);
        let want = ws::expected(&c.segs, c.settings);
        let norm = ws::normalize(&c.segs);
        let has_marker_at_newline = norm.windows(2).any(|w| match (&w[0], &w[1]) {
            (Seg::Text(t), tag) if !matches!(tag, Seg::Text(_)) => t.contains('\n'),
            (tag, Seg::Text(t)) if !matches!(tag, Seg::Text(_)) => t.contains('\n'),
            _ => false,
        });
        let mut v = Verdict::pass(has_marker_at_newline);
        if norm.iter().any(|s| matches!(s, Seg::Raw(..))) {
            v.labels.push("has_raw");
        }
        if src.contains("\r\n") {
            v.labels.push("crlf");
        }
        match env.render_str(&src, ()) {
            Ok(got) => {
                if got != want {
                    let what = if norm.iter().any(|s| matches!(s, Seg::Raw(..))) { "raw" } else { "tags" };
                    v.set_fail(
                        format!("whitespace_model:{what}"),
                        format!("source {src:?} with {:?}: the rules give {want:?} but the engine renders {got:?}", c.settings),
                    );
                }
            }
            Err(e) => v.set_fail("whitespace_model:error", format!("source {src:?} failed: {e}")),
        }
        // the rules do not depend on how the delimiters are spelled: the same sequence under two
        // custom syntaxes (one with prefix-sharing delimiters) must give the same output
        if v.fail.is_none() {
            for d in [["<%", "%>", "<<", ">>", "<#", "#>"], ["<%", "%>", "<%=", "%>", "<%#", "%>"], ["[[", "]]", "[=", "=]", "[#", "#]"]] {
                let syntax = minijinja::syntax::SyntaxConfig::builder()
                    .block_delimiters(d[0], d[1])
                    .variable_delimiters(d[2], d[3])
                    .comment_delimiters(d[4], d[5])
                    .build()
                    .unwrap();
                env.set_syntax(syntax);
                let src = ws::source_with(&c.segs, &d);
                match env.render_str(&src, ()) {
                    Ok(got) => {
                        if got != want {
                            v.set_fail(
                                "whitespace_model:custom_delimiters",
                                format!("source {src:?} with {:?}: the rules give {want:?} but the engine renders {got:?}", c.settings),
                            );
                        }
                    }
                    Err(e) => v.set_fail("whitespace_model:custom_delimiters_error", format!("source {src:?} failed: {e}")),
                }
                if v.fail.is_some() {
                    break;
                }
            }
        }
        v
    }
}

impl Part for WsModel {
    type Case = WsCase;
    const NAME: &'static str = "whitespace_model";

    fn strategy(_tier: Tier) -> BoxedStrategy<WsCase> {
        (prop::collection::vec(seg(), 1..9), 0u8..8)
            .prop_map(|(mut segs, s)| {
                sanitize(&mut segs);
                WsCase { segs, settings: settings(s) }
            })
            .boxed()
    }

    fn check(c: &WsCase) -> Verdict {
        Self::check_case(c)
    }

    fn show(c: &WsCase) -> serde_json::Value {
        serde_json::json!({"source": ws::source(&c.segs), "settings": c.settings})
    }
}

/// all sequences of up to 3 segments over a reduced alphabet x all 8 settings
pub fn ws_enumeration() -> Vec<WsCase> {
    let texts = [" ", "\n", "  \n  ", "x", "\r\n ", " x\n"];
    let markers = [Marker::None, Marker::Minus, Marker::Plus];
    let mut alphabet: Vec<Seg> = texts.iter().map(|t| Seg::Text(t.to_string())).collect();
    for l in markers {
        for r in markers {
            alphabet.push(Seg::Var(l, r));
            alphabet.push(Seg::Block(l, r));
            alphabet.push(Seg::Comment(l, r));
        }
    }
    for (r1, l2) in [(Marker::None, Marker::None), (Marker::Minus, Marker::None), (Marker::None, Marker::Minus), (Marker::Plus, Marker::Plus)] {
        for c in ["", " \n x \n ", "\n"] {
            alphabet.push(Seg::Raw(Marker::None, r1, c.to_string(), l2, Marker::None));
        }
    }
    let mut out = vec![];
    let n = alphabet.len();
    for s in 0..8u8 {
        for a in 0..n {
            out.push(WsCase { segs: vec![alphabet[a].clone()], settings: settings(s) });
            for b in 0..n {
                out.push(WsCase { segs: vec![alphabet[a].clone(), alphabet[b].clone()], settings: settings(s) });
            }
        }
    }
    // length 3: text-tag-text and tag-text-tag shapes (the shapes the rules talk about)
    for s in 0..8u8 {
        for a in 0..n {
            for b in 0..n {
                for c in 0..n {
                    let (ta, tb, tc) = (
                        matches!(alphabet[a], Seg::Text(_)),
                        matches!(alphabet[b], Seg::Text(_)),
                        matches!(alphabet[c], Seg::Text(_)),
                    );
                    if (ta && !tb && tc) || (!ta && tb && !tc) {
                        out.push(WsCase {
                            segs: vec![alphabet[a].clone(), alphabet[b].clone(), alphabet[c].clone()],
                            settings: settings(s),
                        });
                    }
                }
            }
        }
    }
    for c in out.iter_mut() {
        sanitize(&mut c.segs);
    }
    out
}

// ------------------------------------------------------------------ (b) delimiter rewriting

#[derive(Clone, Debug, Serialize, Deserialize)]
pub struct SyntaxCase {
    pub body: Vec<Stmt>,
    pub syntax: Syntax,
}

pub struct Delimiters;

fn syn(bs: &str, be: &str, vs: &str, ve: &str, cs: &str, ce: &str) -> Syntax {
    Syntax {
        block_start: bs.into(),
        block_end: be.into(),
        var_start: vs.into(),
        var_end: ve.into(),
        comment_start: cs.into(),
        comment_end: ce.into(),
        line_statement_prefix: None,
        line_comment_prefix: None,
    }
}

pub fn syntax_family() -> Vec<Syntax> {
    vec![
        syn("<%", "%>", "<%=", "%>", "<%#", "%>"),          // prefix sharing, shared end marker
        syn("<<", ">>", "<<<", ">>>", "<<#", "#>>"),         // nested prefix
        syn("{", "}", "${", "}", "#{", "}"),                 // single brace
        syn("\\BLOCK{", "}", "\\VAR{", "}", "\\#{", "}"),    // LaTeX style
        syn("[%", "%]", "[[", "]]", "[#", "#]"),
        syn("(%", "%)", "((", "))", "(#", "#)"),
        syn("{%", "%}", "${", "}", "{#", "#}"),
        syn("@@", "@@", "@{", "}@", "@#", "#@"),
        syn("<!--%", "%-->", "<!--=", "=-->", "<!--#", "#-->"),
        syn("%%", "%%", "%{", "}", "%#", "#%"),
        syn("{%%", "%%}", "{{{", "}}}", "{##", "##}"),       // longer than, and prefixed by, the defaults
        syn("é%", "%é", "é{", "}é", "é#", "#é"),             // multi-byte
    ]
}

/// text alphabet with partial and look-alike delimiters
const LOOKALIKES: [&str; 28] = [
    "<", "%", ">", "<%-x", "{", "}", "$", "#", "\\", "\\BLOCK", "\\VAR", "[", "]", "(", ")", "@", "<!--", "-->", "<!-", "é", "=",
    "text ", "\n", " ", "{ {", "% >", "<<-", "a<b",
];

fn map_texts(body: &mut Vec<Stmt>, f: &mut dyn FnMut(&mut String)) {
    for s in body.iter_mut() {
        match s {
            Stmt::Text(t) => f(t),
            Stmt::If { branches, else_ } => {
                for (_, b) in branches.iter_mut() {
                    map_texts(b, f);
                }
                if let Some(e) = else_ {
                    map_texts(e, f);
                }
            }
            Stmt::For { body, else_, .. } => {
                map_texts(body, f);
                if let Some(e) = else_ {
                    map_texts(e, f);
                }
            }
            Stmt::SetBlock { body, .. }
            | Stmt::With { body, .. }
            | Stmt::FilterBlock { body, .. }
            | Stmt::AutoEscape { body, .. }
            | Stmt::Macro { body, .. }
            | Stmt::CallBlock { body, .. }
            | Stmt::Block { body, .. } => map_texts(body, f),
            _ => {}
        }
    }
}

fn text_for(syntax: &Syntax, idx: Vec<usize>) -> String {
    let t: String = idx.into_iter().map(|i| LOOKALIKES[i]).collect();
    text_for_str(syntax, &t)
}

fn text_for_str(syntax: &Syntax, t: &str) -> String {
    let mut t = t.to_string();
    // never a complete start delimiter of the syntax in force (nor of the default syntax, since
    // the same program is also rendered with the default delimiters)
    let starts = [
        syntax.block_start.as_str(),
        syntax.var_start.as_str(),
        syntax.comment_start.as_str(),
        "{{",
        "{%",
        "{#",
    ];
    loop {
        let mut changed = false;
        for s in starts {
            while let Some(p) = t.find(s) {
                if s.chars().count() == 1 {
                    // a one-character delimiter cannot be broken apart: drop it
                    t.replace_range(p..p + s.len(), "_");
                } else {
                    // break the delimiter apart with a neutral character
                    let cut = p + s.chars().next().unwrap().len_utf8();
                    t.insert(cut, '_');
                }
                changed = true;
            }
        }
        if !changed {
            break;
        }
    }
    t
}

/// A text must not form a start delimiter together with the beginning of the tag that
/// follows it (in either syntax); if it would, a neutral character is appended.
fn guard_boundaries(body: &mut Vec<Stmt>, syntax: &Syntax) {
    let def = Syntax::default();
    let n = body.len();
    for i in 0..n {
        let is_text_before_tag_or_end = matches!(body[i], Stmt::Text(_));
        if is_text_before_tag_or_end {
            // texts are merged by the printer, so only a text followed by a non-text (or by the
            // closing tag of the enclosing construct) matters; checking always is harmless
            if let Stmt::Text(t) = &mut body[i] {
                let mut bad = false;
                for syn in [&def, syntax] {
                    let starts = [&syn.block_start, &syn.var_start, &syn.comment_start];
                    for opening in starts {
                        let joined = format!("{t}{opening}");
                        for d in starts {
                            let mut from = 0;
                            while let Some(p) = joined[from..].find(d.as_str()) {
                                if from + p < t.len() {
                                    bad = true;
                                }
                                from += p + 1;
                                while !joined.is_char_boundary(from) {
                                    from += 1;
                                }
                            }
                        }
                    }
                }
                if bad {
                    t.push('_');
                }
            }
        }
    }
    for s in body.iter_mut() {
        match s {
            Stmt::If { branches, else_ } => {
                for (_, b) in branches.iter_mut() {
                    guard_boundaries(b, syntax);
                }
                if let Some(e) = else_ {
                    guard_boundaries(e, syntax);
                }
            }
            Stmt::For { body, else_, .. } => {
                guard_boundaries(body, syntax);
                if let Some(e) = else_ {
                    guard_boundaries(e, syntax);
                }
            }
            Stmt::SetBlock { body, .. }
            | Stmt::With { body, .. }
            | Stmt::FilterBlock { body, .. }
            | Stmt::AutoEscape { body, .. }
            | Stmt::Macro { body, .. }
            | Stmt::CallBlock { body, .. }
            | Stmt::Block { body, .. } => guard_boundaries(body, syntax),
            _ => {}
        }
    }
}

/// merges adjacent text statements (so that boundaries are real text/tag boundaries)
fn merge_texts(body: &mut Vec<Stmt>) {
    let mut out: Vec<Stmt> = vec![];
    for s in body.drain(..) {
        match (out.last_mut(), s) {
            (Some(Stmt::Text(a)), Stmt::Text(b)) => a.push_str(&b),
            (_, s) => out.push(s),
        }
    }
    *body = out;
    for s in body.iter_mut() {
        match s {
            Stmt::If { branches, else_ } => {
                for (_, b) in branches.iter_mut() {
                    merge_texts(b);
                }
                if let Some(e) = else_ {
                    merge_texts(e);
                }
            }
            Stmt::For { body, else_, .. } => {
                merge_texts(body);
                if let Some(e) = else_ {
                    merge_texts(e);
                }
            }
            Stmt::SetBlock { body, .. }
            | Stmt::With { body, .. }
            | Stmt::FilterBlock { body, .. }
            | Stmt::AutoEscape { body, .. }
            | Stmt::Macro { body, .. }
            | Stmt::CallBlock { body, .. }
            | Stmt::Block { body, .. } => merge_texts(body),
            _ => {}
        }
    }
}

/// replaces every text statement of the tree by look-alike text for the syntax
fn retext(body: &mut Vec<Stmt>, syntax: &Syntax, pool: &mut dyn FnMut() -> Vec<usize>) {
    for s in body.iter_mut() {
        match s {
            Stmt::Text(t) => *t = text_for(syntax, pool()),
            Stmt::Raw(t) | Stmt::Comment(t) => *t = "r".into(),
            Stmt::If { branches, else_ } => {
                for (_, b) in branches.iter_mut() {
                    retext(b, syntax, pool);
                }
                if let Some(e) = else_ {
                    retext(e, syntax, pool);
                }
            }
            Stmt::For { body, else_, .. } => {
                retext(body, syntax, pool);
                if let Some(e) = else_ {
                    retext(e, syntax, pool);
                }
            }
            Stmt::SetBlock { body, .. }
            | Stmt::With { body, .. }
            | Stmt::FilterBlock { body, .. }
            | Stmt::AutoEscape { body, .. }
            | Stmt::Macro { body, .. }
            | Stmt::CallBlock { body, .. }
            | Stmt::Block { body, .. } => retext(body, syntax, pool),
            _ => {}
        }
    }
}

fn render_with(body: &[Stmt], syntax: &Syntax) -> Result<Result<String, String>, String> {
    let mut env = Environment::new();
    env.set_fuel(Some(50_000));
    if !syntax.is_default() {
        env.set_syntax(syntax.to_config().map_err(|e| format!("syntax rejected: {e}"))?);
    }
    let src = print::template(body, syntax);
    let ctx = Value::from_pairs(std_ctx().into_iter().map(|(k, v)| (k, v.to_value())));
    Ok(env.render_named_str("t.txt", &src, ctx).map_err(|e| format!("{:?}", e.kind())))
}

impl Part for Delimiters {
    type Case = SyntaxCase;
    const NAME: &'static str = "delimiter_rewriting";

    fn strategy(tier: Tier) -> BoxedStrategy<SyntaxCase> {
        let o = Opts {
            multi: false,
            sdepth: tier.pick(2, 3),
            edepth: 2,
            extreme: false,
            ..Opts::default()
        };
        let fam = syntax_family();
        let n = fam.len();
        (
            free::template(o),
            0..n,
            prop::collection::vec(prop::collection::vec(0..LOOKALIKES.len(), 0..5), 24),
        )
            .prop_map(move |(mut body, si, texts)| {
                let syntax = fam[si].clone();
                let mut i = 0;
                let mut pool = || {
                    i += 1;
                    texts[i % texts.len()].clone()
                };
                // string literals may contain anything; text statements get look-alikes
                retext(&mut body, &syntax, &mut pool);
                // a leading text makes sure there is text in front of the first tag
                body.insert(0, Stmt::Text(text_for(&syntax, texts[0].clone())));
                merge_texts(&mut body);
                // merged texts may spell a delimiter across the old boundary
                let fix = |b: &mut Vec<Stmt>| {
                    map_texts(b, &mut |t| {
                        let cleaned = text_for_str(&syntax, t);
                        *t = cleaned;
                    })
                };
                fix(&mut body);
                guard_boundaries(&mut body, &syntax);
                SyntaxCase { body, syntax }
            })
            .boxed()
    }

    fn check(c: &SyntaxCase) -> Verdict {
        let base = render_with(&c.body, &Syntax::default());
        let custom = render_with(&c.body, &c.syntax);
        let mut has_prefix = false;
        walk_stmts(&c.body, &mut |s| {
            if let Stmt::Text(t) = s {
                for d in [&c.syntax.block_start, &c.syntax.var_start, &c.syntax.comment_start] {
                    let first = d.chars().next().unwrap();
                    if t.contains(first) {
                        has_prefix = true;
                    }
                }
            }
        });
        let mut v = Verdict::pass(has_prefix);
        match (base, custom) {
            (Ok(a), Ok(b)) => {
                if a != b {
                    v.set_fail(
                        "delimiters_change_rendering",
                        format!(
                            "default syntax renders {a:?}, {:?} renders {b:?}\ncustom source: {:?}",
                            c.syntax,
                            print::template(&c.body, &c.syntax)
                        ),
                    );
                } else if a.is_ok() {
                    v.labels.push("rendered_ok");
                }
            }
            (Err(e), _) | (_, Err(e)) => v.set_fail("syntax_config_rejected", e),
        }
        v
    }

    fn show(c: &SyntaxCase) -> serde_json::Value {
        serde_json::json!({"source": print::template(&c.body, &c.syntax), "syntax": c.syntax})
    }
}

// ------------------------------------------------------------------ (c) default delimiters are plain text under a custom syntax; line statements

#[derive(Clone, Debug, Serialize, Deserialize)]
pub struct PlainCase {
    pub pieces: Vec<String>,
    pub syntax_idx: u8,
    pub line_mode: bool,
}

pub struct PlainText;

impl Part for PlainText {
    type Case = PlainCase;
    const NAME: &'static str = "default_delimiters_as_text_and_line_statements";

    fn strategy(_tier: Tier) -> BoxedStrategy<PlainCase> {
        let piece = crate::runner::one_of(&[
            "{{ x }}", "{% if x %}", "{% endif %}", "{# c #}", "{{", "}}", "{%", "%}", "{#", "#}", "{{- x -}}", "{% raw %}", " ", "\n", "text",
            "{", "}", "{%- set a = 1 %}", "{{ '<%' }}",
        ]);
        (prop::collection::vec(piece, 1..8), 0u8..12, any::<bool>())
            .prop_map(|(p, syntax_idx, line_mode)| PlainCase {
                pieces: p.into_iter().map(|s| s.to_string()).collect(),
                syntax_idx,
                line_mode,
            })
            .boxed()
    }

    fn check(c: &PlainCase) -> Verdict {
        let fam = syntax_family();
        let mut syntax = fam[c.syntax_idx as usize % fam.len()].clone();
        let mut v = Verdict::pass(true);
        if !c.line_mode {
            // under a custom syntax whose delimiters do not overlap the default ones, text that
            // spells default delimiters is plain text
            let text: String = c.pieces.concat();
            let overlaps = [&syntax.block_start, &syntax.var_start, &syntax.comment_start]
                .iter()
                .any(|d| text.contains(d.as_str()));
            if overlaps {
                return Verdict::pass(false).label("overlaps_custom_delimiters");
            }
            let mut env = Environment::new();
            env.set_syntax(syntax.to_config().unwrap());
            env.set_keep_trailing_newline(true);
            match env.render_named_str("t.txt", &text, ()) {
                Ok(out) if out == text => {}
                other => v.set_fail(
                    "default_delimiters_not_plain_text",
                    format!("under {syntax:?} the text {text:?} must come out verbatim, got {other:?}"),
                ),
            }
        } else {
            // a line statement behaves like the block tag occupying that whole line; a line
            // comment like a comment occupying the rest of its line
            syntax.line_statement_prefix = Some("#!".into());
            syntax.line_comment_prefix = Some("##".into());
            let mut env = Environment::new();
            env.set_syntax(syntax.to_config().unwrap());
            env.set_keep_trailing_newline(true);
            let bs = &syntax.block_start;
            let be = &syntax.block_end;
            let vs = &syntax.var_start;
            let ve = &syntax.var_end;
            let n = c.pieces.len();
            // program: a loop and a condition written once with line statements, once with block
            // tags that occupy whole lines (trim_blocks/lstrip_blocks make a block tag "occupy its line")
            let body_lines: Vec<String> = (0..n).map(|i| format!("  item {vs} q {ve} {}", i)).collect();
            let with_lines = format!(
                "head\n#! for q in [1, 2]\n{}\n  #! if q == 1   \nfirst ## trailing comment\n#! endif\n#! endfor\ntail\n",
                body_lines.join("\n")
            );
            let (cs, ce) = (&syntax.comment_start, &syntax.comment_end);
            let with_tags = format!(
                "head\n{bs} for q in [1, 2] {be}\n{}\n  {bs} if q == 1 {be}\nfirst {cs} trailing comment {ce}\n{bs} endif {be}\n{bs} endfor {be}\ntail\n",
                body_lines.join("\n")
            );
            // both line-ending styles
            for crlf in [false, true] {
            let (with_lines, with_tags) = if crlf {
                (with_lines.replace('\n', "\r\n"), with_tags.replace('\n', "\r\n"))
            } else {
                (with_lines.clone(), with_tags.clone())
            };
            let a = env.render_named_str("t.txt", &with_lines, ());
            let mut env2 = Environment::new();
            let mut plain = syntax.clone();
            plain.line_statement_prefix = None;
            plain.line_comment_prefix = None;
            env2.set_syntax(plain.to_config().unwrap());
            env2.set_keep_trailing_newline(true);
            env2.set_trim_blocks(true);
            env2.set_lstrip_blocks(true);
            let b = env2.render_named_str("t.txt", &with_tags, ());
            match (a, b) {
                (Ok(x), Ok(y)) => {
                    if x != y {
                        v.set_fail(
                            "line_statement_differs_from_block_tag",
                            format!("line statements render {x:?}, whole-line block tags render {y:?}\nsources: {with_lines:?} / {with_tags:?}"),
                        );
                    }
                }
                (x, y) => v.set_fail("line_statement_error", format!("{x:?} / {y:?}")),
            }
            }
        }
        v
    }
}

crate::declare_parts!(WsModel, Delimiters, PlainText);

pub fn run(ctx: &mut Ctx) {
    ctx.rule = "(a) sequences of up to 8 segments: text over {space, tab, LF, CRLF, lone CR between letters, x, braces, %, #, NBSP, form feed, -, +} and tags {variable, block, comment, raw with content incl. tag look-alikes} with every marker in {none,-,+} on either side (and on both raw tags) x the 8 settings, compared with an independent model of the rules (one trailing line ending; - eats all adjacent whitespace; trim_blocks eats one line ending after block/comment/raw tags; lstrip_blocks eats horizontal whitespace between line start and a block/comment/raw tag; + disables the last two); all sequences of length <= 2 and all text-tag-text / tag-text-tag triples over a 37-symbol alphabet enumerated. (b) free-mode single-file programs (non-extreme) whose text statements are drawn from partial and look-alike delimiters, printed with the default delimiters and with each of 12 delimiter sets (prefix-sharing <% <%= <%#, nested << <<<, single brace, LaTeX, shared end markers, @@..@@, HTML comments, %%, {%% {{{ {##, multi-byte): same rendering or same error kind. (c) text spelling default delimiters under a non-overlapping custom syntax is verbatim; a loop/if written with line statements and line comments renders like whole-line block tags, with LF and with CRLF line endings. Non-trivial: (a) a tag adjacent to text containing a line ending; (b) text containing the first character of a start delimiter. Distinct by case.".into();
    ctx.assumptions = vec![
        "a lone CR is kept out of positions adjacent to tags (whether it is a line boundary is not documented)".into(),
        "horizontal whitespace = Unicode whitespace other than CR/LF".into(),
    ];
    preamble(ctx);
    let t = ctx.tier;
    ctx.run_enumerated::<WsModel>(ws_enumeration(), true);
    ctx.run_part::<WsModel>(t.pick(600_000, 6_000_000));
    ctx.run_part::<Delimiters>(t.pick(100_000, 2_000_000));
    ctx.run_part::<PlainText>(t.pick(30_000, 300_000));
}
