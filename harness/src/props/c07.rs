//! C07 — value order/equality/hash laws and collection-filter algebra.
use std::cmp::Ordering;
use std::collections::hash_map::DefaultHasher;
use std::hash::{Hash, Hasher};

use minijinja::{Environment, Value};
use proptest::prelude::*;
use serde::{Deserialize, Serialize};

use crate::gen::value::{self as gv, Val};
use crate::runner::{Ctx, Part, Tier, Verdict};

fn hash_of(v: &Value) -> u64 {
    let mut h = DefaultHasher::new();
    v.hash(&mut h);
    h.finish()
}

fn classes(vals: &[&Val]) -> String {
    let mut c: Vec<&str> = vals.iter().map(|v| v.class()).collect();
    c.sort();
    c.dedup();
    c.join("/")
}

/// class used in signatures: a listed root cause when the pair exhibits it, else the kinds
fn root_cause_class(a: &Val, b: &Val) -> String {
    if gv::differ_in_bool_vs_number(a, b) || gv::has_bool_number_key_clash(a) || gv::has_bool_number_key_clash(b) {
        "bool_vs_number".to_string()
    } else if cfg!(feature = "alt") && gv::differ_in_map_order(a, b) {
        "map_insertion_order".to_string()
    } else {
        classes(&[a, b])
    }
}

// ------------------------------------------------------------------ laws

#[derive(Clone, Debug, Serialize, Deserialize)]
pub struct Triple {
    pub a: Val,
    pub b: Val,
    pub c: Val,
}

pub struct Laws;

impl Part for Laws {
    type Case = Triple;
    const NAME: &'static str = "order_eq_hash_laws";

    fn strategy(_tier: Tier) -> BoxedStrategy<Triple> {
        (gv::val(2), gv::val(2), gv::val(2), any::<u16>(), any::<u16>(), 0u8..4)
            .prop_map(|(a, b, c, r1, r2, mode)| {
                // bias towards "same mathematical value, different representation"
                let b = if mode & 1 == 1 { gv::twin(&a, r1) } else { b };
                let c = if mode & 2 == 2 { gv::twin(&b, r2) } else { c };
                Triple { a, b, c }
            })
            .boxed()
    }

    fn check(t: &Triple) -> Verdict {
        let vals = [&t.a, &t.b, &t.c];
        let v: Vec<Value> = vals.iter().map(|x| x.to_value()).collect();
        let reprs: std::collections::BTreeSet<&str> = vals.iter().map(|x| x.repr_name()).collect();
        let mut out = Verdict::pass(reprs.len() >= 2);
        if vals.iter().any(|x| x.depth() > 0) {
            out.labels.push("nested");
        }
        let nan = vals.iter().map(|x| x.contains_nan()).collect::<Vec<_>>();
        // pairwise laws
        for i in 0..3 {
            if !nan[i] {
                if v[i] != v[i] {
                    out.set_fail(
                        format!("not_reflexive_eq:{}", vals[i].class()),
                        format!("{:?} != itself", vals[i]),
                    );
                }
                if v[i].cmp(&v[i]) != Ordering::Equal {
                    out.set_fail(
                        format!("not_reflexive_cmp:{}", vals[i].class()),
                        format!("cmp({:?}, itself) = {:?}", vals[i], v[i].cmp(&v[i])),
                    );
                }
            }
            for j in 0..3 {
                if i == j {
                    continue;
                }
                let (x, y) = (&v[i], &v[j]);
                let c = root_cause_class(vals[i], vals[j]);
                let xy = x.cmp(y);
                let yx = y.cmp(x);
                if xy != yx.reverse() {
                    out.set_fail(
                        format!("not_antisymmetric:{c}"),
                        format!("cmp({:?}, {:?}) = {xy:?} but reversed gives {yx:?}", vals[i], vals[j]),
                    );
                }
                let eq = x == y;
                if eq != (y == x) {
                    out.set_fail(
                        format!("eq_not_symmetric:{c}"),
                        format!("{:?} == {:?} is {eq} but the reverse is {}", vals[i], vals[j], y == x),
                    );
                }
                if nan[i] || nan[j] {
                    continue;
                }
                if eq != (xy == Ordering::Equal) {
                    out.labels.push("eq_cmp_disagree");
                    out.set_fail(
                        format!("eq_cmp_disagree:{c}"),
                        format!("{:?} == {:?} is {eq} but cmp gives {xy:?}", vals[i], vals[j]),
                    );
                }
                if eq && hash_of(x) != hash_of(y) {
                    out.set_fail(
                        format!("eq_hash_mismatch:{c}"),
                        format!("{:?} == {:?} but their hashes differ", vals[i], vals[j]),
                    );
                }
            }
        }
        // transitivity over all permutations
        if out.fail.is_none() && !nan.iter().any(|x| *x) {
            let perms = [[0, 1, 2], [0, 2, 1], [1, 0, 2], [1, 2, 0], [2, 0, 1], [2, 1, 0]];
            for p in perms {
                let (x, y, z) = (&v[p[0]], &v[p[1]], &v[p[2]]);
                if x.cmp(y) != Ordering::Greater
                    && y.cmp(z) != Ordering::Greater
                    && x.cmp(z) == Ordering::Greater
                {
                    out.set_fail(
                        format!("not_transitive_cmp:{}", classes(&vals)),
                        format!(
                            "{:?} <= {:?} and {:?} <= {:?} but cmp(first, last) = Greater",
                            vals[p[0]], vals[p[1]], vals[p[1]], vals[p[2]]
                        ),
                    );
                }
                if x == y && y == z && x != z {
                    out.set_fail(
                        format!("not_transitive_eq:{}", classes(&vals)),
                        format!(
                            "{:?} == {:?} == {:?} but first != last",
                            vals[p[0]], vals[p[1]], vals[p[2]]
                        ),
                    );
                }
            }
        }
        out
    }
}

// ------------------------------------------------------------------ template-level agreement

#[derive(Clone, Debug, Serialize, Deserialize)]
pub struct Pair {
    pub a: Val,
    pub b: Val,
}

pub struct TemplateAgreement;

fn eval(env: &Environment, src: &str, a: &Value, b: &Value) -> Result<Value, String> {
    let expr = env.compile_expression(src).map_err(|e| e.to_string())?;
    expr.eval(Value::from_pairs([("a", a.clone()), ("b", b.clone())]))
        .map_err(|e| e.to_string())
}

impl Part for TemplateAgreement {
    type Case = Pair;
    const NAME: &'static str = "template_operator_agreement";

    fn strategy(_tier: Tier) -> BoxedStrategy<Pair> {
        (gv::val(2), gv::val(2), any::<u16>(), any::<bool>())
            .prop_map(|(a, b, r, tw)| {
                let b = if tw { gv::twin(&a, r) } else { b };
                Pair { a, b }
            })
            .boxed()
    }

    fn check(p: &Pair) -> Verdict {
        let mut out = Verdict::pass(p.a.repr_name() != p.b.repr_name());
        // invalid values cannot be handed to a template (the look-up reports their error)
        if p.a.contains_nan() || p.b.contains_nan() || p.a.contains_invalid() || p.b.contains_invalid() {
            return Verdict::pass(false);
        }
        let env = Environment::new();
        let (a, b) = (p.a.to_value(), p.b.to_value());
        let c = root_cause_class(&p.a, &p.b);
        let eq = a == b;
        let ord = a.cmp(&b);
        let want_bool = |src: &str, want: bool, law: &str, out: &mut Verdict| match eval(&env, src, &a, &b) {
            Ok(v) => {
                if v.is_true() != want {
                    out.set_fail(
                        format!("{law}:{c}"),
                        format!("`{src}` with a={:?} b={:?} gives {v:?} but Value-level answer is {want}", p.a, p.b),
                    );
                }
            }
            Err(e) => out.set_fail(
                format!("{law}_err:{c}"),
                format!("`{src}` with a={:?} b={:?} failed: {e}", p.a, p.b),
            ),
        };
        want_bool("a == b", eq, "tmpl_eq", &mut out);
        want_bool("a != b", !eq, "tmpl_ne", &mut out);
        want_bool("a < b", ord == Ordering::Less, "tmpl_lt", &mut out);
        want_bool("a <= b", ord != Ordering::Greater, "tmpl_le", &mut out);
        want_bool("a > b", ord == Ordering::Greater, "tmpl_gt", &mut out);
        want_bool("a >= b", ord != Ordering::Less, "tmpl_ge", &mut out);
        want_bool("a is eq b", eq, "tmpl_is_eq", &mut out);
        want_bool("a in [b]", eq, "tmpl_in_list", &mut out);
        want_bool("a in (b,)", eq, "tmpl_in_tuple", &mut out);
        // dictionary lookup and unique must agree with ==
        want_bool("{b: 1}[a] is defined", eq, "tmpl_dict_lookup", &mut out);
        want_bool("([a, b]|unique(case_sensitive=true)|length) == 1", eq, "tmpl_unique", &mut out);
        want_bool("({a: 1, b: 2}|length) == 1", eq, "tmpl_dict_literal_len", &mut out);
        out
    }
}

// ------------------------------------------------------------------ filter algebra

#[derive(Clone, Debug, Serialize, Deserialize)]
pub struct FilterCase {
    /// keys; item i is the map {"k": keys[i], "id": i}
    pub keys: Vec<Val>,
    pub reverse: bool,
    pub case_sensitive: Option<bool>,
    pub count: u8,
    pub fill: bool,
    /// sized list, sized iterable or unsized iterable as input
    pub input_form: u8,
}

pub struct Filters;

fn sortable_key() -> BoxedStrategy<Val> {
    prop_oneof![
        4 => gv::int_val(),
        3 => gv::str_val(),
        // ASCII strings that differ only in characters next to the letters in the code table
        // (a case fold that touches more than letters makes them equal)
        2 => crate::runner::one_of(&["[a]", "{a}", "@", "`", "^a", "~a", "x_y", "x\u{7f}y", "a b", "a\u{0}b", "\\", "|", "]", "}", "a@", "a`"]).prop_map(|s| Val::Str(s.to_string())),
        2 => gv::float_val().prop_filter("no nan", |v| !v.contains_nan()),
        1 => any::<bool>().prop_map(Val::Bool),
        1 => Just(Val::None),
        1 => prop::collection::vec(gv::int_val(), 0..3).prop_map(Val::List),
        1 => prop::collection::vec(gv::int_val(), 0..3).prop_map(Val::Tuple),
    ]
    .boxed()
}

/// The comparison `sort`/`groupby` document (case-insensitive by default), where it is
/// the same in every build: non-ASCII strings compared case-insensitively fold
/// differently with and without the `unicode` feature, so no answer is asserted there.
fn known_cmp(a: &Value, b: &Value, case_sensitive: bool) -> Option<Ordering> {
    if !case_sensitive {
        if let (Some(x), Some(y)) = (a.as_str(), b.as_str()) {
            if x.is_ascii() && y.is_ascii() {
                return Some(x.to_ascii_lowercase().cmp(&y.to_ascii_lowercase()));
            }
            return None;
        }
    }
    Some(a.cmp(b))
}

fn ids_of(list: &Value) -> Option<Vec<usize>> {
    let mut out = vec![];
    for item in list.try_iter().ok()? {
        out.push(item.get_attr("id").ok()?.as_usize()?);
    }
    Some(out)
}

impl Part for Filters {
    type Case = FilterCase;
    const NAME: &'static str = "collection_filter_algebra";

    fn strategy(tier: Tier) -> BoxedStrategy<FilterCase> {
        let max = tier.pick(72usize, 160);
        (
            // few distinct keys so that duplicates are common
            prop::collection::vec(sortable_key(), 1..5),
            prop::collection::vec(any::<u16>(), 0..max),
            any::<bool>(),
            prop_oneof![Just(None), Just(Some(true)), Just(Some(false))],
            1u8..8,
            any::<bool>(),
            0u8..3,
            any::<bool>(),
        )
            .prop_map(|(pool, picks, reverse, case_sensitive, count, fill, input_form, twins)| {
                let keys = picks
                    .iter()
                    .map(|&r| {
                        let k = &pool[crate::runner::pick_idx(r, pool.len())];
                        if twins {
                            gv::twin(k, r.rotate_left(4))
                        } else {
                            k.clone()
                        }
                    })
                    .collect();
                FilterCase {
                    keys,
                    reverse,
                    case_sensitive,
                    count,
                    fill,
                    input_form,
                }
            })
            .boxed()
    }

    fn check(c: &FilterCase) -> Verdict {
        let env = Environment::new();
        let n = c.keys.len();
        let key_vals: Vec<Value> = c.keys.iter().map(|k| k.to_value()).collect();
        let items: Vec<Value> = key_vals
            .iter()
            .enumerate()
            .map(|(i, k)| Value::from_pairs([("k", k.clone()), ("id", Value::from(i))]))
            .collect();
        let input = match c.input_form {
            0 => Value::from(items.clone()),
            1 => {
                let it = items.clone();
                Value::make_iterable(move || it.clone().into_iter())
            }
            _ => {
                let it = items.clone();
                Value::make_iterable(move || it.clone().into_iter().filter(|_| true))
            }
        };
        let plain_input = Value::from(key_vals.clone());
        let cs = c.case_sensitive.unwrap_or(false);
        let mut has_dup = false;
        for i in 0..n {
            for j in 0..i {
                if known_cmp(&key_vals[i], &key_vals[j], cs) == Some(Ordering::Equal) {
                    has_dup = true;
                }
            }
        }
        let mut out = Verdict::pass(n >= 3 && has_dup);
        if n > 20 {
            out.labels.push("len_gt_20");
        }
        if n == 0 {
            out.labels.push("empty_input");
        }
        let kinds: std::collections::BTreeSet<&str> = c.keys.iter().map(|k| k.class()).collect();
        if kinds.len() > 1 {
            out.labels.push("mixed_kinds");
        }
        let deep_mix = (0..n).any(|i| (0..i).any(|j| gv::differ_in_bool_vs_number(&c.keys[i], &c.keys[j])));
        let class = if deep_mix || kinds.contains("bool") && (kinds.contains("int") || kinds.contains("float")) {
            // equal-but-ordered-apart bool/number keys are a listed finding
            "bool_vs_number".to_string()
        } else {
            kinds.iter().cloned().collect::<Vec<_>>().join("/")
        };
        let ctx = |extra: Vec<(&'static str, Value)>| {
            let mut pairs = vec![
                ("xs", input.clone()),
                ("ks", plain_input.clone()),
                ("rev", Value::from(c.reverse)),
                ("cs", Value::from(cs)),
                ("n", Value::from(c.count)),
            ];
            pairs.extend(extra);
            Value::from_pairs(pairs)
        };
        let run = |src: &str| -> Result<Value, String> {
            env.compile_expression(src)
                .map_err(|e| e.to_string())?
                .eval(ctx(vec![]))
                .map_err(|e| e.to_string())
        };
        let kw_cs = match c.case_sensitive {
            Some(_) => ", case_sensitive=cs",
            None => "",
        };

        // ---- sort by attribute: ordered, permutation, stable (also descending)
        let src = format!("xs|sort(attribute='k', reverse=rev{kw_cs})");
        match run(&src).map(|v| (ids_of(&v), v)) {
            Ok((Some(ids), _)) => {
                let mut sorted_ids = ids.clone();
                sorted_ids.sort();
                if sorted_ids != (0..n).collect::<Vec<_>>() {
                    out.set_fail(format!("sort_not_permutation:{class}"), format!("`{src}` on {c:?} returned ids {ids:?}"));
                }
                for w in ids.windows(2) {
                    let (ka, kb) = (&key_vals[w[0]], &key_vals[w[1]]);
                    let Some(ord) = known_cmp(ka, kb, cs) else { continue };
                    let bad_order = if c.reverse { ord == Ordering::Less } else { ord == Ordering::Greater };
                    if bad_order {
                        out.set_fail(
                            format!("sort_not_ordered:{class}"),
                            format!("`{src}` on {c:?}: ids {ids:?}; keys {ka:?} then {kb:?} are out of order"),
                        );
                    }
                    if ord == Ordering::Equal && w[0] > w[1] {
                        out.set_fail(
                            format!("sort_not_stable:{class}"),
                            format!("`{src}` on {c:?}: ids {ids:?}; equal keys {ka:?} swapped their order"),
                        );
                    }
                }
            }
            Ok((None, v)) => out.set_fail(format!("sort_shape:{class}"), format!("`{src}` returned {v:?}")),
            Err(e) => out.set_fail(format!("sort_err:{class}"), format!("`{src}` on {c:?} failed: {e}")),
        }

        // ---- sort by a dotted attribute path that some items do not have: whatever order the
        // filter gives the incomplete items, it must not fail or panic, it returns a permutation, and
        // the items that do have the path are ordered and stable among themselves
        {
            let holed: Vec<Value> = key_vals
                .iter()
                .enumerate()
                .map(|(i, k)| match (i + c.count as usize) % 4 {
                    3 => Value::from_pairs([("id", Value::from(i))]),
                    2 if i % 3 == 0 => Value::from_pairs([("k", Value::from(i)), ("id", Value::from(i))]),
                    _ => Value::from_pairs([("k", Value::from_pairs([("n", k.clone())])), ("id", Value::from(i))]),
                })
                .collect();
            let complete = |i: usize| !matches!((i + c.count as usize) % 4, 3) && !((i + c.count as usize) % 4 == 2 && i % 3 == 0);
            let src = format!("hs|sort(attribute='k.n', reverse=rev{kw_cs})");
            let res = env.compile_expression(&src).map_err(|e| e.to_string()).and_then(|e| {
                e.eval(Value::from_pairs([("hs", Value::from(holed)), ("rev", Value::from(c.reverse)), ("cs", Value::from(cs))])).map_err(|e| e.to_string())
            });
            match res.map(|v| ids_of(&v)) {
                Ok(Some(ids)) => {
                    out.labels.push("dotted_attribute_with_holes");
                    let mut sorted_ids = ids.clone();
                    sorted_ids.sort();
                    if sorted_ids != (0..n).collect::<Vec<_>>() {
                        out.set_fail(format!("sort_not_permutation:{class}"), format!("`{src}` on {c:?} returned ids {ids:?}"));
                    }
                    let have: Vec<usize> = ids.iter().copied().filter(|i| complete(*i)).collect();
                    for w in have.windows(2) {
                        let (ka, kb) = (&key_vals[w[0]], &key_vals[w[1]]);
                        let Some(ord) = known_cmp(ka, kb, cs) else { continue };
                        let bad_order = if c.reverse { ord == Ordering::Less } else { ord == Ordering::Greater };
                        if bad_order || (ord == Ordering::Equal && w[0] > w[1]) {
                            out.set_fail(
                                format!("sort_by_path_wrong:{class}"),
                                format!("`{src}` on {c:?}: ids {ids:?}; among the items that have k.n, {ka:?} then {kb:?} is out of order or lost its stability"),
                            );
                        }
                    }
                }
                Ok(None) => out.set_fail(format!("sort_shape:{class}"), format!("`{src}` returned items without ids")),
                Err(e) => out.set_fail(format!("sort_err:{class}"), format!("`{src}` on {c:?} failed: {e}")),
            }
        }

        // ---- plain sort of the keys themselves: ordered + permutation (multiset by position-matching)
        let src = format!("ks|sort(reverse=rev{kw_cs})");
        match run(&src) {
            Ok(v) => {
                let got: Vec<Value> = v.try_iter().map(|i| i.collect()).unwrap_or_default();
                if got.len() != n {
                    out.set_fail(format!("sort_not_permutation:{class}"), format!("`{src}` on {c:?} returned {} items", got.len()));
                } else {
                    // permutation: match every output to a distinct input that has the same Debug form
                    let mut pool: Vec<String> = key_vals.iter().map(|k| format!("{k:?}|{:?}", k.kind())).collect();
                    for g in &got {
                        let d = format!("{g:?}|{:?}", g.kind());
                        match pool.iter().position(|p| *p == d) {
                            Some(i) => {
                                pool.swap_remove(i);
                            }
                            None => out.set_fail(
                                format!("sort_not_permutation:{class}"),
                                format!("`{src}` on {c:?} produced {g:?} which is not (any longer) in the input"),
                            ),
                        }
                    }
                    for w in got.windows(2) {
                        let Some(ord) = known_cmp(&w[0], &w[1], cs) else { continue };
                        if (c.reverse && ord == Ordering::Less) || (!c.reverse && ord == Ordering::Greater) {
                            out.set_fail(
                                format!("sort_not_ordered:{class}"),
                                format!("`{src}` on {c:?}: {:?} then {:?}", w[0], w[1]),
                            );
                        }
                    }
                    // stable: items that tie keep their input order, ascending and descending alike
                    // (observable where ties are distinguishable: "a"/"A", 1/1.0, twins)
                    let all_known = (0..n).all(|i| (0..i).all(|j| known_cmp(&key_vals[i], &key_vals[j], cs).is_some()));
                    if all_known && out.fail.is_none() {
                        let mut want = key_vals.clone();
                        want.sort_by(|a, b| {
                            let o = known_cmp(a, b, cs).unwrap();
                            if c.reverse {
                                o.reverse()
                            } else {
                                o
                            }
                        });
                        let show = |v: &[Value]| v.iter().map(|x| format!("{x:?}|{:?}", x.kind())).collect::<Vec<_>>();
                        if show(&want) != show(&got) {
                            out.set_fail(
                                format!("sort_not_stable:{class}"),
                                format!("`{src}` on {c:?}: a stable sort gives {:?}, the filter returned {:?}", show(&want), show(&got)),
                            );
                        }
                    }
                }
            }
            Err(e) => out.set_fail(format!("sort_err:{class}"), format!("`{src}` on {c:?} failed: {e}")),
        }

        // ---- unique: order-preserving subsequence of first occurrences; no two survivors equal;
        //      every input equal to some survivor
        let src = format!("xs|unique(attribute='k'{kw_cs})");
        match run(&src).map(|v| ids_of(&v)) {
            Ok(Some(ids)) => {
                if !ids.windows(2).all(|w| w[0] < w[1]) || ids.iter().any(|&i| i >= n) {
                    out.set_fail(format!("unique_not_subsequence:{class}"), format!("`{src}` on {c:?}: ids {ids:?}"));
                } else {
                    let ukey = |i: usize| -> Value {
                        // unique lower-cases with full unicode rules
                        if !cs {
                            if let Some(s) = key_vals[i].as_str() {
                                return Value::from(s.to_lowercase());
                            }
                        }
                        key_vals[i].clone()
                    };
                    for (x, &i) in ids.iter().enumerate() {
                        for &j in &ids[..x] {
                            if ukey(i) == ukey(j) {
                                out.set_fail(
                                    format!("unique_keeps_equal:{class}"),
                                    format!("`{src}` on {c:?}: survivors {j} and {i} have equal keys {:?} / {:?}", c.keys[j], c.keys[i]),
                                );
                            }
                        }
                    }
                    for i in 0..n {
                        // first item equal to i must be a survivor
                        let first = (0..=i).find(|&j| ukey(j) == ukey(i)).unwrap();
                        if !ids.iter().any(|&s| ukey(s) == ukey(i)) {
                            out.set_fail(
                                format!("unique_drops_value:{class}"),
                                format!("`{src}` on {c:?}: no survivor equals item {i} ({:?})", c.keys[i]),
                            );
                        } else if first == i && !ids.contains(&i) {
                            // equality may be non-transitive in a broken order; only flag when the
                            // survivor representing i comes later than i
                            if ids.iter().filter(|&&s| ukey(s) == ukey(i)).all(|&s| s > i) {
                                out.set_fail(
                                    format!("unique_not_first_occurrence:{class}"),
                                    format!("`{src}` on {c:?}: item {i} is the first of its key but a later one survived; ids {ids:?}"),
                                );
                            }
                        }
                    }
                }
            }
            Ok(None) => out.set_fail(format!("unique_shape:{class}"), format!("`{src}` returned something else")),
            Err(e) => out.set_fail(format!("unique_err:{class}"), format!("`{src}` on {c:?} failed: {e}")),
        }

        // ---- groupby: partition, keys pairwise different, groups homogeneous
        let src = format!("xs|groupby('k'{kw_cs})");
        match run(&src) {
            Ok(v) => {
                let groups: Vec<Value> = v.try_iter().map(|i| i.collect()).unwrap_or_default();
                let mut seen = vec![false; n];
                let mut group_keys: Vec<Value> = vec![];
                for g in &groups {
                    let grouper = g.get_attr("grouper").unwrap_or_default();
                    let list = g.get_attr("list").unwrap_or_default();
                    let Some(ids) = ids_of(&list) else {
                        out.set_fail(format!("groupby_shape:{class}"), format!("`{src}` on {c:?}: group {g:?}"));
                        continue;
                    };
                    if ids.is_empty() {
                        out.set_fail(format!("groupby_empty_group:{class}"), format!("`{src}` on {c:?}"));
                    }
                    for &i in &ids {
                        if i >= n || seen[i] {
                            out.set_fail(format!("groupby_not_partition:{class}"), format!("`{src}` on {c:?}: id {i} twice or unknown"));
                        } else {
                            seen[i] = true;
                            if matches!(known_cmp(&key_vals[i], &grouper, cs), Some(o) if o != Ordering::Equal) {
                                out.set_fail(
                                    format!("groupby_not_homogeneous:{class}"),
                                    format!("`{src}` on {c:?}: item {i} with key {:?} sits in group {grouper:?}", c.keys[i]),
                                );
                            }
                        }
                    }
                    // members keep their input order inside a group
                    if !ids.windows(2).all(|w| w[0] < w[1]) {
                        out.set_fail(format!("groupby_not_stable:{class}"), format!("`{src}` on {c:?}: group ids {ids:?}"));
                    }
                    for k in &group_keys {
                        if known_cmp(k, &grouper, cs) == Some(Ordering::Equal) {
                            out.set_fail(
                                format!("groupby_duplicate_key:{class}"),
                                format!("`{src}` on {c:?}: two groups with equal keys {k:?} / {grouper:?}"),
                            );
                        }
                    }
                    group_keys.push(grouper);
                }
                if seen.iter().any(|s| !s) {
                    out.set_fail(format!("groupby_not_partition:{class}"), format!("`{src}` on {c:?}: some item is in no group"));
                }
            }
            Err(e) => out.set_fail(format!("groupby_err:{class}"), format!("`{src}` on {c:?} failed: {e}")),
        }

        // ---- batch / slice: concatenation of runs (minus fill) is the input; run lengths as documented
        let fill_src = if c.fill { ", 'FILL'" } else { "" };
        let cnt = c.count as usize;
        for (name, src) in [
            ("batch", format!("xs|batch(n{fill_src})")),
            ("slice", format!("xs|slice(n{fill_src})")),
        ] {
            match run(&src) {
                Ok(v) => {
                    let runs: Vec<Value> = v.try_iter().map(|i| i.collect()).unwrap_or_default();
                    let mut concat = vec![];
                    let mut lens = vec![];
                    let mut fills = vec![];
                    for r in &runs {
                        let items: Vec<Value> = r.try_iter().map(|i| i.collect()).unwrap_or_default();
                        let mut nf = 0;
                        let mut real = 0;
                        for it in &items {
                            if it.as_str() == Some("FILL") {
                                nf += 1;
                            } else if let Some(id) = it.get_attr("id").ok().and_then(|x| x.as_usize()) {
                                if nf > 0 {
                                    out.set_fail(format!("{name}_fill_before_item"), format!("`{src}` on n={cnt}, len {n}"));
                                }
                                concat.push(id);
                                real += 1;
                            }
                        }
                        lens.push(real);
                        fills.push(nf);
                    }
                    if concat != (0..n).collect::<Vec<_>>() {
                        out.set_fail(
                            format!("{name}_concat_differs"),
                            format!("`{src}` with n={cnt} on {n} items: concatenated ids {concat:?}"),
                        );
                    }
                    let want_lens: Vec<usize> = if name == "batch" {
                        let mut w = vec![cnt; n / cnt];
                        if n % cnt != 0 {
                            w.push(n % cnt);
                        }
                        w
                    } else {
                        (0..cnt).map(|i| n / cnt + usize::from(i < n % cnt)).collect()
                    };
                    if lens != want_lens {
                        out.set_fail(
                            format!("{name}_run_lengths"),
                            format!("`{src}` with n={cnt} on {n} items: run lengths {lens:?}, documented {want_lens:?}"),
                        );
                    }
                    // batch documents "fill up missing items": the last run is padded to n.
                    // slice only says "fill missing values on the last iteration" (Jinja2 appends
                    // one filler to every column that did not get an extra item), so only the
                    // shape is checked there: no filler without the option, at most one per
                    // column, none in columns that received an extra item.
                    let ok = if !c.fill {
                        fills.iter().all(|&f| f == 0)
                    } else if name == "batch" {
                        fills == want_lens.iter().map(|l| cnt - l).collect::<Vec<_>>()
                    } else {
                        fills
                            .iter()
                            .enumerate()
                            .all(|(i, &f)| f <= 1 && !(i < n % cnt && f > 0))
                    };
                    if !ok && lens == want_lens {
                        out.set_fail(
                            format!("{name}_fill_counts"),
                            format!("`{src}` with n={cnt} on {n} items: fill counts {fills:?}"),
                        );
                    }
                }
                Err(e) => out.set_fail(format!("{name}_err"), format!("`{src}` on {c:?} failed: {e}")),
            }
        }

        // ---- reverse is an involution and equals the reversed item list
        match (run("xs|reverse"), run("xs|reverse|reverse")) {
            (Ok(r1), Ok(r2)) => {
                let want: Vec<usize> = (0..n).rev().collect();
                if ids_of(&r1) != Some(want) {
                    out.set_fail("reverse_wrong", format!("xs|reverse on {n} items (form {}): {:?}", c.input_form, ids_of(&r1)));
                }
                if ids_of(&r2) != Some((0..n).collect()) {
                    out.set_fail("reverse_not_involution", format!("xs|reverse|reverse on {n} items (form {}): {:?}", c.input_form, ids_of(&r2)));
                }
            }
            (a, b) => out.set_fail("reverse_err", format!("reverse failed: {:?} {:?}", a.err(), b.err())),
        }

        // ---- min / max are members that bound all others
        for (name, want_ord) in [("min", Ordering::Greater), ("max", Ordering::Less)] {
            match run(&format!("ks|{name}")) {
                Ok(m) => {
                    if n == 0 {
                        if !m.is_undefined() {
                            out.set_fail(format!("{name}_of_empty"), format!("ks|{name} of empty input is {m:?}"));
                        }
                        continue;
                    }
                    let d = format!("{m:?}|{:?}", m.kind());
                    if !key_vals.iter().any(|k| format!("{k:?}|{:?}", k.kind()) == d) {
                        out.set_fail(format!("{name}_not_member:{class}"), format!("ks|{name} of {:?} is {m:?}", c.keys));
                    }
                    for k in &key_vals {
                        // m must not be Greater (min) / Less (max) than any element
                        if m.cmp(k) == want_ord {
                            out.set_fail(
                                format!("{name}_not_bound:{class}"),
                                format!("ks|{name} of {:?} is {m:?} but element {k:?} is beyond it", c.keys),
                            );
                        }
                    }
                }
                Err(e) => out.set_fail(format!("{name}_err:{class}"), format!("ks|{name} of {:?} failed: {e}", c.keys)),
            }
        }
        out
    }
}

crate::declare_parts!(Laws, TemplateAgreement, Filters);

pub fn run(ctx: &mut Ctx) {
    ctx.rule = "values: none, undefined, bools, every integer width (same number in I64/U64/I128/U128/F64/Bool representations), floats incl. +-0/inf/NaN/2^53/2^63/2^64/2^127 neighbourhoods, plain/arc/safe strings, bytes, lists, tuples, sized and unsized lazy iterables, maps (same entries in different insertion order), plain objects, nested to depth 2-3; second and third element are a 'twin' (same mathematical value, other representation) with probability 1/2. Filter inputs: lists of {k: key, id: position} maps with few distinct keys (duplicates common), lengths 0..45, all keyword options. Non-trivial: triple/pair mixes two representations; filter input of length >= 3 with a duplicate key. Distinct by encoded case. Run for the BTreeMap build and (sub-process) the preserve_order build.".into();
    ctx.assumptions = vec![
        "sortedness of filter outputs is judged with Value::cmp (the order itself is judged by the laws part)".into(),
        "NaN-containing values are exempt from reflexivity/agreement as the property states".into(),
    ];
    preamble(ctx);
    let t = ctx.tier;
    ctx.run_part::<Laws>(t.pick(600_000, 30_000_000));
    ctx.run_part::<TemplateAgreement>(t.pick(150_000, 8_000_000));
    ctx.run_part::<Filters>(t.pick(60_000, 1_500_000));
    if !ctx.sub {
        // second map implementation (IndexMap) + unicode + speedups build
        ctx.run_variant("MJV_ALT", "alt");
    }
}
