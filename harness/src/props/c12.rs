//! C12 — stricter undefined modes only add errors; the documented matrix holds.
use minijinja::{Environment, ErrorKind, UndefinedBehavior};
use proptest::prelude::*;
use serde::{Deserialize, Serialize};

use crate::gen::ast::{map_expr, map_stmt_exprs, Expr};
use crate::gen::ctx::Recording;
use crate::gen::free::{self, Opts};
use crate::gen::print;
use crate::props::c01::std_ctx;
use crate::runner::{Ctx, Part, Tier, Verdict};

/// strictest first
pub const MODES: [(UndefinedBehavior, &str); 4] = [
    (UndefinedBehavior::Strict, "strict"),
    (UndefinedBehavior::SemiStrict, "semistrict"),
    (UndefinedBehavior::Lenient, "lenient"),
    (UndefinedBehavior::Chainable, "chainable"),
];

#[derive(Clone, Debug, Serialize, Deserialize)]
pub struct ModeCase {
    pub main_name: String,
    pub source: String,
    pub companions: Vec<(String, String)>,
    /// names removed from the standard context
    pub missing: Vec<String>,
    /// the environment has a formatter of its own that writes values without the help of the
    /// default one (what an undefined may be printed as is not the formatter's decision)
    #[serde(default)]
    pub custom_formatter: bool,
}

pub struct Monotone;

#[derive(Debug, Clone, PartialEq)]
enum Outcome {
    Ok(String),
    Err(ErrorKind, String),
    /// load error (same in every mode) or fuel: nothing to compare
    Skip,
}

fn render_mode(c: &ModeCase, mode: UndefinedBehavior) -> (Outcome, Vec<String>) {
    let mut env = Environment::new();
    env.set_undefined_behavior(mode);
    env.set_fuel(Some(100_000));
    if c.custom_formatter {
        env.set_formatter(|out, _state, value| {
            use std::fmt::Write as _;
            write!(out, "{value}").map_err(|_| minijinja::Error::new(ErrorKind::WriteFailure, "formatter could not write"))
        });
    }
    for (n, s) in &c.companions {
        let _ = env.add_template_owned(n.clone(), s.clone());
    }
    if env.add_template_owned(c.main_name.clone(), c.source.clone()).is_err() {
        return (Outcome::Skip, vec![]);
    }
    let ctx = Recording::new(
        std_ctx()
            .into_iter()
            .filter(|(k, _)| !c.missing.contains(k))
            .map(|(k, v)| (k, v.to_value())),
    );
    let t = env.get_template(&c.main_name).unwrap();
    let out = match t.render(ctx.value()) {
        Ok(s) => Outcome::Ok(s),
        Err(e) => {
            let mut kinds = vec![e.kind()];
            let mut src = std::error::Error::source(&e);
            while let Some(s) = src {
                if let Some(me) = s.downcast_ref::<minijinja::Error>() {
                    kinds.push(me.kind());
                }
                src = s.source();
            }
            if kinds.contains(&ErrorKind::OutOfFuel) {
                Outcome::Skip
            } else {
                Outcome::Err(*kinds.last().unwrap(), format!("{e}"))
            }
        }
    };
    (out, ctx.misses())
}

impl Part for Monotone {
    type Case = ModeCase;
    const NAME: &'static str = "mode_monotonicity";

    fn strategy(tier: Tier) -> BoxedStrategy<ModeCase> {
        let o = Opts {
            sdepth: tier.pick(2, 3),
            edepth: 3,
            extreme: false,
            ..Opts::default()
        };
        let tmpl = |o: Opts| {
            free::template(o).prop_map(|mut b| {
                // debug() prints the engine state (which names the undefined behaviour)
                map_stmt_exprs(&mut b, &mut |e| {
                    map_expr(e, &mut |e| {
                        if *e == Expr::var("debug") {
                            *e = Expr::var("dict");
                        }
                    })
                });
                print::template_default(&b)
            })
        };
        let comp = tmpl(Opts {
            sdepth: 1,
            edepth: 2,
            extreme: false,
            ..Opts::default()
        });
        (
            prop_oneof![1 => tmpl(o), 2 => crate::gen::tame::source()],
            prop::collection::vec(comp, 3),
            prop::collection::vec(0..free::VARS.len(), 0..6),
            any::<bool>(),
            prop::bool::weighted(0.25),
        )
            .prop_map(|(source, comps, missing, html, custom_formatter)| ModeCase {
                main_name: if html { "main.html".into() } else { "main.txt".into() },
                source,
                companions: free::COMPANIONS.iter().zip(comps).map(|(n, s)| (n.to_string(), s)).collect(),
                missing: missing.into_iter().map(|i| free::VARS[i].to_string()).collect(),
                custom_formatter,
            })
            .boxed()
    }

    fn check(c: &ModeCase) -> Verdict {
        let res: Vec<(Outcome, Vec<String>)> = MODES.iter().map(|(m, _)| render_mode(c, *m)).collect();
        if res.iter().any(|r| r.0 == Outcome::Skip) {
            return Verdict::pass(false).label("skipped_load_error_or_fuel");
        }
        let oks: Vec<bool> = res.iter().map(|r| matches!(r.0, Outcome::Ok(_))).collect();
        let missed = res.iter().any(|r| !r.1.is_empty());
        let differ = oks.iter().any(|x| *x) && oks.iter().any(|x| !*x);
        let mut v = Verdict::pass(missed && (differ || oks.iter().all(|x| *x)));
        if differ {
            v.labels.push("modes_differ");
        }
        if oks.iter().all(|x| *x) {
            v.labels.push("all_modes_ok");
        }
        if missed {
            v.labels.push("undefined_evaluated");
        }
        for i in 0..4 {
            for j in i + 1..4 {
                if let Outcome::Ok(a) = &res[i].0 {
                    match &res[j].0 {
                        Outcome::Ok(b) if a == b => {}
                        Outcome::Ok(b) => v.set_fail(
                            format!("mode_output_differs:{}>{}", MODES[i].1, MODES[j].1),
                            format!("{} renders {a:?} but {} renders {b:?}\nsource: {}", MODES[i].1, MODES[j].1, c.source),
                        ),
                        Outcome::Err(k, e) => v.set_fail(
                            format!("weaker_mode_fails:{}>{}", MODES[i].1, MODES[j].1),
                            format!("{} succeeds ({a:?}) but the weaker {} fails with {k:?}: {e}\nsource: {}", MODES[i].1, MODES[j].1, c.source),
                        ),
                        Outcome::Skip => {}
                    }
                }
            }
        }
        v
    }

    fn show(c: &ModeCase) -> serde_json::Value {
        serde_json::json!({"source": c.source, "missing": c.missing})
    }
}

// ------------------------------------------------------------------ the documented matrix

#[derive(Clone, Debug, Serialize, Deserialize)]
pub struct MatrixCase {
    pub source: String,
    /// which modes must fail (strict, semistrict, lenient, chainable)
    pub fails: [bool; 4],
    /// expected output in the modes that succeed
    pub output: String,
    pub row: String,
    #[serde(default)]
    pub companions: Vec<(String, String)>,
}

pub struct Matrix;

/// Every undefined-valued operand shape: a missing variable, a missing key of a map, an
/// item beyond a list, an `x if false` without else is *silent* and therefore excluded.
const UNDEFS: [&str; 4] = ["u", "m.nokey", "l[99]", "m['nokey']"];

pub fn matrix() -> Vec<MatrixCase> {
    let mut out = vec![];
    let mut add = |row: &str, src: String, fails: [bool; 4], output: &str| {
        out.push(MatrixCase {
            source: src,
            fails,
            output: output.to_string(),
            row: row.to_string(),
            companions: vec![],
        })
    };
    const PRINT: [bool; 4] = [true, true, false, false];
    const TRUTH: [bool; 4] = [true, false, false, false];
    const ACCESS: [bool; 4] = [true, true, true, false];
    const NEVER: [bool; 4] = [false; 4];
    for u in UNDEFS {
        // printing
        add("print", format!("[{{{{ {u} }}}}]"), PRINT, "[]");
        add("print_in_capture", format!("{{% set c %}}[{{{{ {u} }}}}]{{% endset %}}{{{{ c }}}}"), PRINT, "[]");
        add("print_in_macro", format!("{{% macro p(v) %}}[{{{{ v }}}}]{{% endmacro %}}{{{{ p({u}) }}}}"), PRINT, "[]");
        add("print_in_loop", format!("{{% for q in [1] %}}[{{{{ {u} }}}}]{{% endfor %}}"), PRINT, "[]");
        add("print_in_filter_block", format!("{{% filter upper %}}[{{{{ {u} }}}}]{{% endfilter %}}"), PRINT, "[]");
        add("concat", format!("[{{{{ 'a' ~ {u} }}}}]"), PRINT, "[a]");
        add("concat_left", format!("[{{{{ {u} ~ 'a' }}}}]"), PRINT, "[a]");
        // iterating
        add("iterate", format!("[{{% for q in {u} %}}x{{% endfor %}}]"), PRINT, "[]");
        add("iterate_recursive_call", format!("[{{% for q in [1] recursive %}}<{{{{ loop({u}) }}}}>{{% endfor %}}]"), PRINT, "[<>]");
        add("iterate_recursive_outer", format!("[{{% for q in {u} recursive %}}x{{% endfor %}}]"), PRINT, "[]");
        add("iterate_unpack", format!("[{{% for a, b in {u} %}}x{{% endfor %}}]"), PRINT, "[]");
        add("iterate_else", format!("[{{% for q in {u} %}}x{{% else %}}e{{% endfor %}}]"), PRINT, "[e]");
        add("iterate_filter_list", format!("[{{{{ {u}|list|length }}}}]"), PRINT, "[0]");
        add("iterate_in_operator", format!("[{{{{ 1 in {u} }}}}]"), PRINT, "[False]");
        // the same operator as a link of a comparison chain, in every position
        add("iterate_not_in_operator", format!("[{{{{ 1 not in {u} }}}}]"), PRINT, "[True]");
        add("iterate_in_first_link", format!("[{{{{ 1 in {u} == false }}}}]"), PRINT, "[False]");
        add("iterate_in_last_link", format!("[{{{{ 0 < 1 in {u} }}}}]"), PRINT, "[False]");
        add("iterate_in_middle_link", format!("[{{{{ 0 < 1 in {u} < 5 }}}}]"), PRINT, "[False]");
        add("iterate_in_middle_link_if", format!("[{{% if 0 < 1 in {u} < 5 %}}t{{% else %}}f{{% endif %}}]"), PRINT, "[f]");
        add("iterate_not_in_first_link", format!("[{{{{ 1 not in {u} != 1 }}}}]"), PRINT, "[True]");
        // truth testing
        add("truth_if", format!("[{{% if {u} %}}t{{% else %}}f{{% endif %}}]"), TRUTH, "[f]");
        add("truth_not", format!("[{{{{ not {u} }}}}]"), TRUTH, "[True]");
        add("truth_and", format!("[{{{{ ({u} and 1) is undefined }}}}]"), TRUTH, "[True]");
        add("truth_or", format!("[{{{{ {u} or 1 }}}}]"), TRUTH, "[1]");
        add("truth_ifexpr", format!("[{{{{ 1 if {u} else 2 }}}}]"), TRUTH, "[2]");
        add("truth_elif", format!("[{{% if false %}}a{{% elif {u} %}}t{{% else %}}f{{% endif %}}]"), TRUTH, "[f]");
        add("truth_loop_filter", format!("[{{% for q in [1, 2] if {u} %}}x{{% endfor %}}]"), TRUTH, "[]");
        add("truth_bool_filter", format!("[{{{{ {u}|bool }}}}]"), TRUTH, "[False]");
        // attribute / item access on an undefined value
        add("attr_of_undefined", format!("[{{{{ ({u}).a is undefined }}}}]"), ACCESS, "[True]");
        add("item_of_undefined", format!("[{{{{ ({u})[0] is undefined }}}}]"), ACCESS, "[True]");
        add("str_item_of_undefined", format!("[{{{{ ({u})['a'] is undefined }}}}]"), ACCESS, "[True]");
        add("attr_chain", format!("[{{{{ ({u}).a.b.c is undefined }}}}]"), ACCESS, "[True]");
        // never failing
        add("is_defined", format!("[{{{{ {u} is defined }}}}]"), NEVER, "[False]");
        add("is_undefined", format!("[{{{{ {u} is undefined }}}}]"), NEVER, "[True]");
        add("is_not_defined", format!("[{{{{ {u} is not defined }}}}]"), NEVER, "[True]");
        add("default", format!("[{{{{ {u}|default('d') }}}}]"), NEVER, "[d]");
        add("default_alias", format!("[{{{{ {u}|d('d') }}}}]"), NEVER, "[d]");
        add("default_boolean_positional", format!("[{{{{ {u}|default('d', true) }}}}]"), NEVER, "[d]");
        add("default_boolean_false", format!("[{{{{ {u}|default('d', false) }}}}]"), NEVER, "[d]");
        add("default_noarg", format!("[{{{{ {u}|default }}}}]"), NEVER, "[]");
        add("default_in_if", format!("[{{% if {u} is defined %}}t{{% else %}}f{{% endif %}}]"), NEVER, "[f]");
        add("default_as_arg", format!("[{{{{ 'x'|default({u}) }}}}]"), NEVER, "[x]");
        add("default_second_undefined", format!("[{{{{ {u}|default({u}) is undefined }}}}]"), NEVER, "[True]");
        add("defined_in_macro_arg", format!("{{% macro p(v) %}}[{{{{ v is defined }}}}]{{% endmacro %}}{{{{ p({u}) }}}}"), NEVER, "[False]");
        add("set_and_test", format!("{{% set c = {u} %}}[{{{{ c is defined }}}}]"), NEVER, "[False]");
        add("with_and_test", format!("{{% with c = {u} %}}[{{{{ c is undefined }}}}]{{% endwith %}}"), NEVER, "[True]");
    }
    // the silent undefined of an else-less inline if (`x if false`): printing it is documented
    // to yield nothing in every mode, but it is an undefined like any other for attribute and
    // item access and for the never-failing tests
    for su in ["(i if false)", "(m if u is defined)", "(s if not true)"] {
        add("attr_of_silent_undefined", format!("[{{{{ {su}.a is undefined }}}}]"), ACCESS, "[True]");
        add("item_of_silent_undefined", format!("[{{{{ {su}[0] is undefined }}}}]"), ACCESS, "[True]");
        add("str_item_of_silent_undefined", format!("[{{{{ {su}['k']|default('d') }}}}]"), ACCESS, "[d]");
        add("attr_of_silent_undefined_via_set", format!("{{% set su = {su} %}}[{{{{ su.k is defined }}}}]"), ACCESS, "[False]");
        add("silent_undefined_is_defined", format!("[{{{{ {su} is defined }}}}|{{{{ {su} is undefined }}}}|{{{{ {su}|default('d') }}}}]"), NEVER, "[False|True|d]");
        add("print_silent_undefined", format!("[{{{{ {su} }}}}]"), NEVER, "[]");
    }
    // the same sites where the output is thrown away or produced by another template: after
    // `extends` at the top level of a child, at the top level of an imported module, in an
    // included template, in an inherited block (a missing variable is undefined everywhere)
    let base = ("base.txt".to_string(), "<{% block b %}base{% endblock %}>".to_string());
    let mut add_multi = |row: &str, src: &str, companions: Vec<(String, String)>, fails: [bool; 4], output: &str| {
        out.push(MatrixCase { source: src.to_string(), fails, output: output.to_string(), row: row.to_string(), companions })
    };
    add_multi("print_after_extends", "{% extends 'base.txt' %}[{{ u }}]{% block b %}B{% endblock %}", vec![base.clone()], PRINT, "<B>");
    add_multi("concat_after_extends", "{% extends 'base.txt' %}[{{ 'a' ~ u }}]", vec![base.clone()], PRINT, "<base>");
    add_multi("iterate_after_extends", "{% extends 'base.txt' %}{% for q in u %}x{% endfor %}", vec![base.clone()], PRINT, "<base>");
    add_multi("truth_after_extends", "{% extends 'base.txt' %}{% if u %}t{% endif %}", vec![base.clone()], TRUTH, "<base>");
    add_multi("access_after_extends", "{% extends 'base.txt' %}{% set z = u.a %}", vec![base.clone()], ACCESS, "<base>");
    add_multi("print_in_overriding_block", "{% extends 'base.txt' %}{% block b %}[{{ u }}]{% endblock %}", vec![base.clone()], PRINT, "<[]>");
    add_multi("print_in_parent_block", "{% extends 'pb.txt' %}", vec![("pb.txt".to_string(), "<{% block b %}[{{ u }}]{% endblock %}>".to_string())], PRINT, "<[]>");
    let module = ("mod.txt".to_string(), "[{{ u }}]{% macro mm() %}M{% endmacro %}".to_string());
    add_multi("print_in_from_imported_module", "{% from 'mod.txt' import mm %}{{ mm() }}", vec![module.clone()], PRINT, "M");
    add_multi("print_in_imported_module", "{% import 'mod.txt' as md %}{{ md.mm() }}", vec![module.clone()], PRINT, "M");
    add_multi(
        "iterate_in_from_imported_module",
        "{% from 'modl.txt' import mm %}{{ mm() }}",
        vec![("modl.txt".to_string(), "{% for q in u %}x{% endfor %}{% macro mm() %}M{% endmacro %}".to_string())],
        PRINT,
        "M",
    );
    add_multi(
        "truth_in_imported_module",
        "{% import 'modt.txt' as md %}{{ md.mm() }}",
        vec![("modt.txt".to_string(), "{% if u %}t{% endif %}{% macro mm() %}M{% endmacro %}".to_string())],
        TRUTH,
        "M",
    );
    add_multi("print_in_included", "<{% include 'inc.txt' %}>", vec![("inc.txt".to_string(), "[{{ u }}]".to_string())], PRINT, "<[]>");
    add_multi(
        "print_in_include_after_extends",
        "{% extends 'base.txt' %}{% include 'inc.txt' %}",
        vec![base.clone(), ("inc.txt".to_string(), "[{{ u }}]".to_string())],
        PRINT,
        "<base>",
    );
    add_multi(
        "print_in_captured_include_after_extends",
        "{% extends 'base.txt' %}{% set c %}{% include 'inc.txt' %}{% endset %}{% block b %}{{ c }}{% endblock %}",
        vec![base.clone(), ("inc.txt".to_string(), "[{{ u }}]".to_string())],
        PRINT,
        "<[]>",
    );
    add_multi("print_in_call_block", "{% macro w() %}({{ caller() }}){% endmacro %}{% call w() %}[{{ u }}]{% endcall %}", vec![], PRINT, "([])");
    add_multi("print_in_macro_default", "{% macro p(v=u) %}[{{ v }}]{% endmacro %}{{ p() }}", vec![], PRINT, "[]");
    add_multi("print_in_set_filter", "{% set c | upper %}[{{ u }}]{% endset %}{{ c }}", vec![], PRINT, "[]");
    add_multi("print_in_autoescape", "{% autoescape true %}[{{ u }}]{% endautoescape %}", vec![], PRINT, "[]");
    out
}

impl Part for Matrix {
    type Case = MatrixCase;
    const NAME: &'static str = "documented_matrix";

    fn strategy(_tier: Tier) -> BoxedStrategy<MatrixCase> {
        let m = matrix();
        (0..m.len()).prop_map(move |i| m[i].clone()).boxed()
    }

    fn enumeration(_tier: Tier) -> Vec<MatrixCase> {
        matrix()
    }

    fn check(c: &MatrixCase) -> Verdict {
        let mut v = Verdict::pass(true);
        // every row under the default formatter and under a formatter of the host's own
        for (custom_formatter, (i, (mode, name))) in [false, true].into_iter().flat_map(|f| MODES.iter().enumerate().map(move |x| (f, x))) {
            let mc = ModeCase {
                main_name: "m.txt".into(),
                source: c.source.clone(),
                companions: c.companions.clone(),
                missing: vec!["u".into()],
                custom_formatter,
            };
            let name = if custom_formatter { format!("{name}+custom_formatter") } else { name.to_string() };
            let (out, _) = render_mode(&mc, *mode);
            match (c.fails[i], out) {
                (true, Outcome::Err(ErrorKind::UndefinedError, _)) => {}
                (true, other) => v.set_fail(
                    format!("matrix:{}:{name}:should_fail", c.row),
                    format!("`{}` under {name}: documented to fail with an undefined error, got {other:?}", c.source),
                ),
                (false, Outcome::Ok(s)) if s == c.output => {}
                (false, other) => v.set_fail(
                    format!("matrix:{}:{name}:should_render", c.row),
                    format!("`{}` under {name}: documented to render {:?}, got {other:?}", c.source, c.output),
                ),
            }
        }
        v
    }
}

crate::declare_parts!(Monotone, Matrix);

pub fn run(ctx: &mut Ctx) {
    ctx.rule = "monotonicity: free-mode programs (every construct, every built-in filter/test/function in every argument position, companions for include/import/extends) over the standard context with a random subset of its keys removed, rendered under Strict, SemiStrict, Lenient and Chainable; for every stricter/weaker pair success of the stricter implies success of the weaker with byte-identical output. matrix: 40 site rows x 4 kinds of undefined operand (missing variable, missing attribute, index beyond a list, missing key) x 4 modes, plus 6 rows x 3 spellings of the silent undefined of an else-less inline if (access fails outside Chainable, printing and the tests never fail) and 18 multi-template rows (the same sites after `extends` where output is discarded, at the top level of imported modules, in included templates, inherited and overriding blocks, call blocks, macro defaults), enumerated completely against the documented fail/yield table, under the default formatter and under a formatter installed with set_formatter that writes the values itself. Non-trivial: the recording context saw a lookup miss and (two modes differ in outcome or all four succeed). Distinct by case.".into();
    ctx.assumptions = vec![
        "debug() is excluded (it prints the engine state, which names the undefined behaviour)".into(),
        "cases that hit the fuel limit or fail to load are skipped (counted under the label skipped_load_error_or_fuel)".into(),
    ];
    preamble(ctx);
    let t = ctx.tier;
    ctx.run_enumerated::<Matrix>(matrix(), true);
    ctx.run_part::<Monotone>(t.pick(150_000, 12_000_000));
}
