//! C04 — compile-time evaluation is transparent: literals behave like variables.
use minijinja::{Environment, Value};
use proptest::prelude::*;
use serde::{Deserialize, Serialize};

use crate::gen::ast::*;
use crate::gen::print;
use crate::runner::{Ctx, Part, Tier, Verdict};

#[derive(Clone, Debug, Serialize, Deserialize)]
pub struct FoldCase {
    pub expr: Expr,
    /// seed for choosing subsets when there are more than 6 literal leaves
    pub subset_seed: u64,
}

pub struct Transparent;

fn lit() -> BoxedStrategy<Expr> {
    const INTS: [i128; 22] = [
        0, 1, -1, 2, 3, 7, 10, 255, (1 << 31) - 1, 1 << 32, (1 << 53) + 1, (1 << 63) - 1, 1 << 63, (1 << 63) + 1,
        -(1 << 63), (1 << 64) - 1, 1 << 64, i128::MAX, -i128::MAX, 1 << 100, -3, 100,
    ];
    prop_oneof![
        5 => (0..INTS.len()).prop_map(|i| Expr::int(INTS[i])),
        2 => (-4i128..5).prop_map(Expr::int),
        // 2^127 and 2^128 - 1 as written
        1 => Just(Expr::Int("170141183460469231731687303715884105728".into())),
        1 => Just(Expr::Int("340282366920938463463374607431768211455".into())),
        2 => crate::runner::one_of(&["0.0", "1.5", "2.0", "0.5", "1e308", "3.0", "0.1"]).prop_map(|s| Expr::Float(s.to_string())),
        4 => crate::runner::one_of(&["", "a", "ab", "b", "A", "1", "<&>", "a b", "%s", "{}"]).prop_map(Expr::str),
        2 => any::<bool>().prop_map(Expr::Bool),
        1 => Just(Expr::None),
    ]
    .boxed()
}

fn expr(depth: u32) -> BoxedStrategy<Expr> {
    if depth == 0 {
        return lit();
    }
    let inner = expr(depth - 1);
    let b = |e: BoxedStrategy<Expr>| e.prop_map(Box::new);
    let binop = crate::runner::one_of(&[
        BinOp::Add,
        BinOp::Sub,
        BinOp::Mul,
        BinOp::Div,
        BinOp::FloorDiv,
        BinOp::Rem,
        BinOp::Pow,
        BinOp::Concat,
        BinOp::And,
        BinOp::Or,
        BinOp::And,
        BinOp::Or,
    ]);
    let cmpop = crate::runner::one_of(&[
        CmpOp::Eq,
        CmpOp::Ne,
        CmpOp::Lt,
        CmpOp::Le,
        CmpOp::Gt,
        CmpOp::Ge,
        CmpOp::In,
        CmpOp::NotIn,
    ]);
    let kwfilter = prop_oneof![
        (b(inner.clone()), inner.clone()).prop_map(|(e, d)| Expr::Filter(e, "default".into(), vec![Arg::Pos(d), Arg::Kw("boolean".into(), Expr::Bool(true))])),
        (prop::collection::vec(inner.clone(), 0..4), any::<bool>()).prop_map(|(l, r)| Expr::Filter(
            Box::new(Expr::List(l)),
            "sort".into(),
            vec![Arg::Kw("reverse".into(), Expr::Bool(r))]
        )),
        (b(inner.clone()), inner.clone()).prop_map(|(e, w)| Expr::Filter(e, "indent".into(), vec![Arg::Kw("width".into(), w)])),
        (b(inner.clone()), inner.clone(), inner.clone()).prop_map(|(e, x, y)| Expr::Filter(e, "replace".into(), vec![Arg::Pos(x), Arg::Pos(y)])),
        (inner.clone(), inner.clone()).prop_map(|(x, y)| Expr::Call(Box::new(Expr::var("dict")), vec![Arg::Kw("a".into(), x), Arg::Kw("b".into(), y)])),
        (inner.clone(), inner.clone()).prop_map(|(x, y)| Expr::Call(Box::new(Expr::var("range")), vec![Arg::Pos(x), Arg::Pos(y)])),
        // keyword arguments whose names repeat: the last one given wins, however the values are written
        prop::collection::vec((crate::runner::one_of(&["a", "b", "a", "c"]), inner.clone()), 2..5).prop_map(|kws| Expr::Call(
            Box::new(Expr::var("dict")),
            kws.into_iter().map(|(k, v)| Arg::Kw(k.to_string(), v)).collect()
        )),
        (prop::collection::vec(inner.clone(), 0..4), prop::collection::vec((crate::runner::one_of(&["reverse", "case_sensitive", "reverse"]), inner.clone()), 2..4)).prop_map(|(l, kws)| Expr::Filter(
            Box::new(Expr::List(l)),
            "sort".into(),
            kws.into_iter().map(|(k, v)| Arg::Kw(k.to_string(), v)).collect()
        )),
        b(inner.clone()).prop_map(|e| Expr::Filter(e, "string".into(), vec![])),
        b(inner.clone()).prop_map(|e| Expr::Filter(e, "length".into(), vec![])),
        b(inner.clone()).prop_map(|e| Expr::Filter(e, "abs".into(), vec![])),
        b(inner.clone()).prop_map(|e| Expr::Filter(e, "list".into(), vec![])),
        (b(inner.clone()), crate::runner::one_of(&["defined", "none", "string", "number", "odd", "true", "sequence"])).prop_map(|(e, t)| Expr::Test(e, t.to_string(), vec![], false)),
    ];
    // left-leaning chains of one arithmetic operator over operands where regrouping shows:
    // floats at and beyond 2^53, integers at the 64- and 128-bit boundaries, small steps
    let chain_leaf = prop_oneof![
        3 => crate::runner::one_of(&["9007199254740992.0", "9007199254740994.0", "1e16", "4503599627370496.5", "0.1", "0.2", "1e308", "1.5"])
            .prop_map(|s| Expr::Float(s.to_string())),
        4 => crate::runner::one_of(&[1i128, -1, 2, -2, 3, 1 << 53, (1 << 63) - 1, -(1 << 63), (1 << 64) - 1, i128::MAX, -i128::MAX, i128::MAX - 1]).prop_map(Expr::int),
        1 => Just(Expr::Int("170141183460469231731687303715884105728".into())),
        1 => crate::runner::one_of(&["a", "", "1"]).prop_map(Expr::str),
    ];
    let chain = (crate::runner::one_of(&[BinOp::Add, BinOp::Add, BinOp::Sub, BinOp::Mul, BinOp::Concat]), prop::collection::vec(chain_leaf, 3..6)).prop_map(|(op, leaves)| {
        let mut it = leaves.into_iter();
        let mut e = it.next().unwrap();
        for l in it {
            e = Expr::Bin(op, Box::new(e), Box::new(l));
        }
        e
    });
    prop_oneof![
        4 => lit(),
        2 => chain,
        6 => (binop, b(inner.clone()), b(inner.clone())).prop_map(|(op, l, r)| Expr::Bin(op, l, r)),
        3 => (b(inner.clone()), prop::collection::vec((cmpop, inner.clone()), 1..4)).prop_map(|(f, r)| Expr::Cmp(f, r)),
        1 => b(inner.clone()).prop_map(Expr::Not),
        2 => b(inner.clone()).prop_map(Expr::Neg),
        1 => prop::collection::vec(inner.clone(), 0..4).prop_map(Expr::List),
        1 => prop::collection::vec(inner.clone(), 0..4).prop_map(Expr::Tuple),
        1 => prop::collection::vec((inner.clone(), inner.clone()), 0..3).prop_map(Expr::Map),
        1 => (b(inner.clone()), b(inner.clone()), b(inner.clone())).prop_map(|(c, t, e)| Expr::IfExpr(c, t, Some(e))),
        1 => (b(inner.clone()), b(inner.clone())).prop_map(|(e, i)| Expr::Item(e, i)),
        1 => (b(inner.clone()), b(inner.clone())).prop_map(|(e, i)| Expr::Slice(e, Some(i), None, None)),
        2 => kwfilter,
    ]
    .boxed()
}

/// true if the expression is built from number literals and arithmetic only
fn numeric_only(e: &Expr) -> bool {
    match e {
        Expr::Int(_) | Expr::Float(_) => true,
        Expr::Neg(x) | Expr::Paren(x) => numeric_only(x),
        Expr::Bin(op, a, b) => !matches!(op, BinOp::Concat | BinOp::And | BinOp::Or) && numeric_only(a) && numeric_only(b),
        _ => false,
    }
}

/// A lazy repetition such as `[0] * 9223372036854775807` is not bounded by anything once it
/// is printed, listed or sorted (a hang, not this property's business): under a `*` whose
/// operands are not purely numeric, large integer literals are reduced.
fn tame_repeats(e: &mut Expr) {
    map_expr(e, &mut |e| {
        if let Expr::Bin(BinOp::Mul, a, b) = e {
            if !(numeric_only(a) && numeric_only(b)) {
                for side in [a, b] {
                    map_expr(side, &mut |x| {
                        if let Expr::Int(s) = x {
                            if s.len() > 3 {
                                *s = ((s.len() % 5) + 1).to_string();
                            }
                        }
                    });
                }
            }
        }
    });
}

fn is_lit(e: &Expr) -> bool {
    match e {
        Expr::Int(_) | Expr::Float(_) | Expr::Str(_) | Expr::Bool(_) | Expr::None => true,
        // a negated number literal is folded by a special case of its own: it is one leaf
        Expr::Neg(inner) => matches!(**inner, Expr::Int(_) | Expr::Float(_)),
        _ => false,
    }
}

/// replaces the literal leaves selected by `mask` (in pre-order numbering) by variables
fn hoist(e: &Expr, mask: u64, counter: &mut u32, binds: &mut Vec<(String, Expr)>) -> Expr {
    if is_lit(e) {
        let idx = *counter;
        *counter += 1;
        if idx < 64 && mask & (1 << idx) != 0 {
            let name = format!("v{idx}");
            binds.push((name.clone(), e.clone()));
            return Expr::Var(name);
        }
        return e.clone();
    }
    let mut h = |x: &Expr| hoist(x, mask, counter, binds);
    let args = |a: &Vec<Arg>, h: &mut dyn FnMut(&Expr) -> Expr| -> Vec<Arg> {
        a.iter()
            .map(|x| match x {
                Arg::Pos(e) => Arg::Pos(h(e)),
                Arg::Kw(k, e) => Arg::Kw(k.clone(), h(e)),
                Arg::Splat(e) => Arg::Splat(h(e)),
                Arg::KwSplat(e) => Arg::KwSplat(h(e)),
            })
            .collect()
    };
    match e {
        Expr::List(x) => Expr::List(x.iter().map(&mut h).collect()),
        Expr::Tuple(x) => Expr::Tuple(x.iter().map(&mut h).collect()),
        Expr::Map(en) => Expr::Map(en.iter().map(|(k, v)| (h(k), h(v))).collect()),
        Expr::Not(x) => Expr::Not(Box::new(h(x))),
        Expr::Neg(x) => Expr::Neg(Box::new(h(x))),
        Expr::Paren(x) => Expr::Paren(Box::new(h(x))),
        Expr::Bin(op, a, b) => {
            let a2 = h(a);
            Expr::Bin(*op, Box::new(a2), Box::new(h(b)))
        }
        Expr::Cmp(a, rest) => {
            let a2 = h(a);
            Expr::Cmp(Box::new(a2), rest.iter().map(|(o, x)| (*o, h(x))).collect())
        }
        Expr::IfExpr(c, t, el) => {
            let c2 = h(c);
            let t2 = h(t);
            Expr::IfExpr(Box::new(c2), Box::new(t2), el.as_ref().map(|x| Box::new(h(x))))
        }
        Expr::Attr(x, n) => Expr::Attr(Box::new(h(x)), n.clone()),
        Expr::Item(a, b) => {
            let a2 = h(a);
            Expr::Item(Box::new(a2), Box::new(h(b)))
        }
        Expr::Slice(x, a, b, c) => {
            let x2 = h(x);
            let a2 = a.as_ref().map(|y| Box::new(h(y)));
            let b2 = b.as_ref().map(|y| Box::new(h(y)));
            let c2 = c.as_ref().map(|y| Box::new(h(y)));
            Expr::Slice(Box::new(x2), a2, b2, c2)
        }
        Expr::Filter(x, n, a) => {
            let x2 = h(x);
            Expr::Filter(Box::new(x2), n.clone(), args(a, &mut h))
        }
        Expr::Test(x, n, a, neg) => {
            let x2 = h(x);
            Expr::Test(Box::new(x2), n.clone(), args(a, &mut h), *neg)
        }
        Expr::Call(f, a) => Expr::Call(f.clone(), args(a, &mut h)),
        other => other.clone(),
    }
}

fn count_lits(e: &Expr) -> u32 {
    let mut n = 0;
    // pre-order numbering must match `hoist`: a negated number is one leaf
    fn rec(e: &Expr, n: &mut u32) {
        if is_lit(e) {
            *n += 1;
            return;
        }
        let mut kids: Vec<&Expr> = vec![];
        match e {
            Expr::List(x) | Expr::Tuple(x) => kids.extend(x.iter()),
            Expr::Map(en) => en.iter().for_each(|(k, v)| {
                kids.push(k);
                kids.push(v)
            }),
            Expr::Not(x) | Expr::Neg(x) | Expr::Paren(x) | Expr::Attr(x, _) => kids.push(x),
            Expr::Bin(_, a, b) | Expr::Item(a, b) => {
                kids.push(a);
                kids.push(b)
            }
            Expr::Cmp(a, rest) => {
                kids.push(a);
                kids.extend(rest.iter().map(|(_, x)| x))
            }
            Expr::IfExpr(c, t, el) => {
                kids.push(c);
                kids.push(t);
                if let Some(x) = el {
                    kids.push(x)
                }
            }
            Expr::Slice(x, a, b, c) => {
                kids.push(x);
                for y in [a, b, c].into_iter().flatten() {
                    kids.push(y)
                }
            }
            Expr::Filter(x, _, a) | Expr::Test(x, _, a, _) => {
                kids.push(x);
                for y in a {
                    match y {
                        Arg::Pos(e) | Arg::Kw(_, e) | Arg::Splat(e) | Arg::KwSplat(e) => kids.push(e),
                    }
                }
            }
            Expr::Call(_, a) => {
                for y in a {
                    match y {
                        Arg::Pos(e) | Arg::Kw(_, e) | Arg::Splat(e) | Arg::KwSplat(e) => kids.push(e),
                    }
                }
            }
            _ => {}
        }
        for k in kids {
            rec(k, n);
        }
    }
    rec(e, &mut n);
    n
}

#[derive(Debug, Clone, PartialEq)]
enum Out {
    Ok(String),
    Err,
}

fn render(env: &Environment, src: &str, ctx: &Value) -> (Out, Option<String>) {
    match env.render_str(src, ctx.clone()) {
        Ok(s) => (Out::Ok(s), None),
        Err(e) => (Out::Err, Some(format!("{e}"))),
    }
}

impl Part for Transparent {
    type Case = FoldCase;
    const NAME: &'static str = "literal_vs_variable";

    fn strategy(tier: Tier) -> BoxedStrategy<FoldCase> {
        (expr(tier.pick(3, 4)), any::<u64>())
            .prop_map(|(mut expr, subset_seed)| {
                tame_repeats(&mut expr);
                FoldCase { expr, subset_seed }
            })
            .boxed()
    }

    fn check(c: &FoldCase) -> Verdict {
        let env = Environment::new();
        let text = print::expr(&c.expr);
        let n = count_lits(&c.expr).min(64);
        let mut v = Verdict::pass(false);
        // (ii) loading never fails; an unexecuted failing constant is not reported
        let guarded_src = format!("{{% if false %}}{{{{ {text} }}}}{{% endif %}}");
        match env.render_str(&guarded_src, ()) {
            Ok(s) if s.is_empty() => {}
            other => v.set_fail(
                "unexecuted_constant_reported",
                format!("`{guarded_src}` must load and render empty, got {other:?}"),
            ),
        }
        if let Err(e) = env.template_from_str(&format!("{{{{ {text} }}}}")) {
            v.set_fail("constant_fails_at_load", format!("`{{{{ {text} }}}}` failed to load: {e}"));
        }
        // (i) every subset of literal leaves hoisted into variables gives the same outcome
        let full = format!("[{{{{ {text} }}}}]");
        let (base, base_err) = render(&env, &full, &Value::from(()));
        let masks: Vec<u64> = if n <= 6 {
            (1..(1u64 << n)).collect()
        } else {
            let mut m = vec![(1u64 << n.min(63)) - 1];
            let mut s = c.subset_seed | 1;
            for _ in 0..15 {
                s ^= s << 13;
                s ^= s >> 7;
                s ^= s << 17;
                m.push(s & ((1u64 << n.min(63)) - 1));
            }
            m.extend((0..n.min(12)).map(|i| 1u64 << i));
            m
        };
        let mut foldable_ops = false;
        c.expr.walk(&mut |e| {
            if matches!(e, Expr::Bin(..) | Expr::Cmp(..) | Expr::Not(_) | Expr::Neg(_)) {
                foldable_ops = true;
            }
        });
        v.nontrivial = foldable_ops && n >= 2;
        if matches!(base, Out::Err) {
            v.labels.push("fails_at_run_time");
        }
        for mask in masks {
            if mask == 0 {
                continue;
            }
            let mut binds = vec![];
            let mut counter = 0;
            let hoisted = hoist(&c.expr, mask, &mut counter, &mut binds);
            // bind each variable to exactly the value the engine produces for the literal
            let mut pairs = vec![];
            let mut ok = true;
            for (name, lit) in &binds {
                match env
                    .compile_expression_owned(print::expr(lit))
                    .and_then(|x| x.eval(()))
                {
                    Ok(val) => pairs.push((name.clone(), val)),
                    Err(_) => ok = false,
                }
            }
            if !ok {
                continue;
            }
            let src = format!("[{{{{ {} }}}}]", print::expr(&hoisted));
            let (out, err) = render(&env, &src, &Value::from_pairs(pairs));
            if out != base {
                let kind = match (&base, &out) {
                    (Out::Ok(_), Out::Ok(_)) => "different_output",
                    (Out::Ok(_), Out::Err) => "success_becomes_failure",
                    (Out::Err, Out::Ok(_)) => "failure_becomes_success",
                    _ => "both_fail",
                };
                let mut ops: Vec<&str> = vec![];
                c.expr.walk(&mut |e| match e {
                    Expr::Bin(BinOp::And, ..) => ops.push("and"),
                    Expr::Bin(BinOp::Or, ..) => ops.push("or"),
                    _ => {}
                });
                ops.sort();
                ops.dedup();
                v.set_fail(
                    format!("literal_vs_variable:{kind}"),
                    format!(
                        "`{full}` gives {base:?} ({base_err:?}) but with literals {:?} supplied as variables `{src}` gives {out:?} ({err:?})",
                        binds.iter().map(|(n, e)| format!("{n}={}", print::expr(e))).collect::<Vec<_>>()
                    ),
                );
                break;
            }
        }
        v
    }

    fn show(c: &FoldCase) -> serde_json::Value {
        serde_json::json!({"expr": print::expr(&c.expr)})
    }
}

crate::declare_parts!(Transparent);

pub fn run(ctx: &mut Ctx) {
    ctx.rule = "expressions of depth <= 3 (thorough 4) over literals (boundary integers up to 2^128-1, floats, strings, bools, none), unary minus/not, all arithmetic operators incl. // % ** with zero and overflowing operands, ~, and/or with falsy and truthy operands of every kind, comparison chains of length 1-3 incl. in / not in, lists, tuples, maps, subscripts, slices, if-expressions, filters/functions/tests with literal positional and keyword arguments; for every non-empty subset of the literal leaves (all subsets up to 6 leaves, else all-leaves + 15 random + single leaves) the leaves are replaced by variables bound to the value the engine itself produces for that literal, and the rendering (text or error-ness) must not change; `{% if false %}{{ E }}{% endif %}` must load and render empty and `{{ E }}` must load. Non-trivial: at least two literal leaves and a foldable operator. Distinct by expression.".into();
    ctx.assumptions = vec!["variables are bound to the engine's own value for the literal text, so representation differences are out of the picture (C08 covers them)".into()];
    preamble(ctx);
    let t = ctx.tier;
    ctx.run_part::<Transparent>(t.pick(400_000, 5_000_000));
}
