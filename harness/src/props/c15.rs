//! C15 — an environment's behaviour depends on its contents, not on its history.
use std::collections::BTreeMap;
use std::sync::{Arc, Mutex};

use minijinja::{Environment, Value};
use proptest::prelude::*;
use serde::{Deserialize, Serialize};

use crate::runner::{Ctx, Part, Tier, Verdict};

const NAMES: [&str; 4] = ["a", "b", "c", "d"];

/// template sources: (text, compiles)
const SOURCES: [(&str, bool); 22] = [
    ("A1{% include 'b' %}", true),
    ("B{{ x|f1 }}", true),
    ("{% extends 'c' %}{% block t %}D{{ g1 }}{% endblock %}", true),
    ("C[{% block t %}c{% endblock %}]{{ g1 }}", true),
    ("plain {{ x }}", true),
    ("{% if x is t1 %}yes{% else %}no{% endif %}", true),
    ("{{ fn1(2) }}", true),
    ("{% include 'zz' %}", true),
    ("{{ 1 // 0 }}", true),
    ("{% include ['zz', 'd'] %}!", true),
    ("{% from 'b' import nothing %}imp", true),
    ("{% if %}", false),
    ("{{ unclosed", false),
    ("{% for q in [1] %}{% macro m() %}{{ q }}{% endmacro %}{{ m() }}{% endfor %}{% include 'a' ignore missing %}", true),
    // renders that fail while captures are open and hold text, and renders that use captures
    ("{% set c %}captured-secret {{ 1 // 0 }}{% endset %}", true),
    ("{% set c %}ok{% endset %}[{{ c }}]{% filter upper %}f{% endfilter %}", true),
    ("{% filter upper %}in-filter {% set d %}inner {{ nosuchfn() }}{% endset %}{% endfilter %}", true),
    ("{% macro m() %}macro-text {{ x.nope.nope }}{% endmacro %}{{ m() }}", true),
    ("{% macro w() %}<{{ caller() }}>{% endmacro %}{% call w() %}call-text {% include 'zz' %}{% endcall %}", true),
    ("{% macro w() %}<{{ caller() }}>{% endmacro %}{% call w() %}fine{% endcall %}{{ w|string|length }}", true),
    // values that go through a foreign serializer (the engine keeps per-thread state for that)
    ("{{ [1, 2, 3]|tojson }} {{ {'a': [1, x], 'b': g1}|tojson }}", true),
    ("{% set c %}{{ [x, [x]]|tojson }}{% endset %}{{ c }}{{ {'k': fn1}|tojson }}", true),
];

#[derive(Clone, Debug, Serialize, Deserialize, PartialEq)]
pub enum Op {
    AddBorrowed(u8, u8),
    AddOwned(u8, u8),
    Remove(u8),
    Clear,
    SetLoader(u8),
    /// edit the loader's backing store: name, Some(source) / None = delete
    StoreEdit(u8, Option<u8>),
    AddFilter(u8),
    RemoveFilter,
    AddTest(u8),
    RemoveTest,
    AddGlobal(u8),
    RemoveGlobal,
    AddFunction(u8),
    RemoveFunction,
    /// continue on a clone; the original is checked at the end
    Clone,
    Render(u8),
    CompileExpression(u8),
    /// a render that fails because the host's context panics while it is serialised (the
    /// panic is contained, as a worker thread or request handler would)
    #[serde(alias = "RenderPanicking")]
    RenderPanickingContext(u8),
}

struct PanickingContext;

impl Serialize for PanickingContext {
    fn serialize<S: serde::Serializer>(&self, serializer: S) -> Result<S::Ok, S::Error> {
        use serde::ser::SerializeMap;
        let mut map = serializer.serialize_map(None)?;
        map.serialize_entry("x", "X")?;
        panic!("the host's context panics while being serialised");
    }
}

#[derive(Clone, Debug, Default)]
struct Model {
    explicit: BTreeMap<String, String>,
    memo: BTreeMap<String, String>,
    loader: Option<u8>,
    filter: Option<u8>,
    test: Option<u8>,
    global: Option<u8>,
    function: Option<u8>,
}

type Store = Arc<Mutex<BTreeMap<String, String>>>;
type Log = Arc<Mutex<Vec<String>>>;

fn install_loader(env: &mut Environment<'static>, id: u8, store: &Store, log: &Log) {
    let store = store.clone();
    let log = log.clone();
    env.set_loader(move |name| {
        log.lock().unwrap().push(name.to_string());
        Ok(store.lock().unwrap().get(name).map(|s| format!("<L{id}>{s}")))
    });
}

fn apply_registries(env: &mut Environment<'static>, m: &Model) {
    if let Some(k) = m.filter {
        env.add_filter("f1", move |v: String| format!("{v}~f{k}"));
    }
    if let Some(k) = m.test {
        env.add_test("t1", move |v: Value| v.is_true() == (k % 2 == 0));
    }
    if let Some(k) = m.global {
        env.add_global("g1", Value::from(format!("G{k}")));
    }
    if let Some(k) = m.function {
        env.add_function("fn1", move |v: i64| v * (k as i64 + 1));
    }
}

fn fresh(m: &Model, store: &Store, log: &Log) -> Environment<'static> {
    let mut env = Environment::new();
    for (n, s) in m.explicit.iter().chain(m.memo.iter().filter(|(n, _)| !m.explicit.contains_key(*n))) {
        env.add_template_owned(n.clone(), s.clone())
            .expect("a template the model holds must compile");
    }
    if let Some(id) = m.loader {
        install_loader(&mut env, id, store, log);
    }
    apply_registries(&mut env, m);
    env
}

fn outcome(env: &Environment<'static>, name: &str) -> String {
    let ctx = Value::from_pairs([("x", Value::from("X"))]);
    match env.get_template(name).and_then(|t| t.render(ctx)) {
        Ok(s) => format!("ok:{s}"),
        Err(e) => {
            let mut kinds = vec![format!("{:?}", e.kind())];
            let mut src = std::error::Error::source(&e);
            while let Some(s) = src {
                if let Some(me) = s.downcast_ref::<minijinja::Error>() {
                    kinds.push(format!("{:?}", me.kind()));
                }
                src = s.source();
            }
            format!("err:{}", kinds.join("<-"))
        }
    }
}

/// what the model says a lookup does; memoises like the documentation says
fn model_resolve(m: &mut Model, store: &Store, name: &str) {
    if m.explicit.contains_key(name) || m.memo.contains_key(name) {
        return;
    }
    if let Some(id) = m.loader {
        if let Some(src) = store.lock().unwrap().get(name) {
            let full = format!("<L{id}>{src}");
            let compiles = SOURCES.iter().find(|(s, _)| *s == src.as_str()).map_or(true, |x| x.1);
            if compiles {
                m.memo.insert(name.to_string(), full);
            }
        }
    }
}

#[derive(Clone, Debug, Serialize, Deserialize)]
pub struct History {
    pub ops: Vec<Op>,
    pub threads: u8,
}

pub struct Histories;

fn op() -> BoxedStrategy<Op> {
    let name = || 0u8..NAMES.len() as u8;
    let src = || 0u8..SOURCES.len() as u8;
    prop_oneof![
        4 => (name(), src()).prop_map(|(n, s)| Op::AddBorrowed(n, s)),
        4 => (name(), src()).prop_map(|(n, s)| Op::AddOwned(n, s)),
        2 => name().prop_map(Op::Remove),
        1 => Just(Op::Clear),
        2 => (0u8..2).prop_map(Op::SetLoader),
        4 => (name(), prop_oneof![1 => Just(None), 4 => src().prop_map(Some)]).prop_map(|(n, s)| Op::StoreEdit(n, s)),
        1 => (0u8..3).prop_map(Op::AddFilter),
        1 => Just(Op::RemoveFilter),
        1 => (0u8..2).prop_map(Op::AddTest),
        1 => Just(Op::RemoveTest),
        1 => (0u8..3).prop_map(Op::AddGlobal),
        1 => Just(Op::RemoveGlobal),
        1 => (0u8..3).prop_map(Op::AddFunction),
        1 => Just(Op::RemoveFunction),
        1 => Just(Op::Clone),
        3 => name().prop_map(Op::Render),
        1 => (0u8..3).prop_map(Op::CompileExpression),
        1 => name().prop_map(Op::RenderPanickingContext),
    ]
    .boxed()
}

fn compare_with_fresh(env: &Environment<'static>, m: &mut Model, store: &Store, log: &Log, step: &str) -> Result<(), (String, String)> {
    // the probe itself looks every name up (in a fixed order), which memoises loader templates
    let cached_before: Vec<String> = m.explicit.keys().chain(m.memo.keys()).cloned().collect();
    let log_start = log.lock().unwrap().len();
    for n in NAMES {
        let _ = env.get_template(n);
        model_resolve(m, store, n);
    }
    let real: Vec<String> = NAMES.iter().map(|n| outcome(env, n)).collect();
    let again: Vec<String> = NAMES.iter().map(|n| outcome(env, n)).collect();
    let calls: Vec<String> = log.lock().unwrap()[log_start..].to_vec();
    if real != again {
        return Err(("render_not_repeatable".into(), format!("{step}: first {real:?}, second {again:?}")));
    }
    if let Some(bad) = calls.iter().find(|c| cached_before.contains(c)) {
        return Err((
            "loader_called_for_cached_template".into(),
            format!("{step}: the loader was asked for {bad:?} although it is stored in the environment (stored: {cached_before:?})"),
        ));
    }
    // the reference: a freshly built environment on a freshly started thread (nothing an earlier
    // render may have left behind in this thread is shared with it)
    let want: Vec<String> = std::thread::scope(|sc| {
        sc.spawn(|| {
            let fresh_log: Log = Arc::new(Mutex::new(vec![]));
            let f = fresh(m, store, &fresh_log);
            NAMES.iter().map(|n| outcome(&f, n)).collect()
        })
        .join()
        .expect("the reference render does not panic")
    });
    if real != want {
        return Err((
            "differs_from_fresh_environment".into(),
            format!("{step}: the environment renders {real:?}, a fresh one with the same contents {want:?}\nmodel: explicit {:?} memo {:?} loader {:?}", m.explicit, m.memo, m.loader),
        ));
    }
    Ok(())
}

impl Part for Histories {
    type Case = History;
    const NAME: &'static str = "environment_histories";

    fn strategy(tier: Tier) -> BoxedStrategy<History> {
        (prop::collection::vec(op(), 1..tier.pick(20usize, 28)), 1u8..9)
            .prop_map(|(ops, threads)| History { ops, threads })
            .boxed()
    }

    fn check(h: &History) -> Verdict {
        let store: Store = Arc::new(Mutex::new(BTreeMap::new()));
        let log: Log = Arc::new(Mutex::new(vec![]));
        let mut env: Environment<'static> = Environment::new();
        let mut m = Model::default();
        let mut others: Vec<(Environment<'static>, Model)> = vec![];
        let mut v = Verdict::pass(false);
        let mut failed_add = false;
        let mut cross_store_replace = false;
        let mut edit_after_load = false;
        let mut owned_names: Vec<String> = vec![];
        let mut borrowed_names: Vec<String> = vec![];
        for (i, op) in h.ops.iter().enumerate() {
            let step = format!("step {i} {op:?}");
            match op {
                Op::AddBorrowed(n, s) | Op::AddOwned(n, s) => {
                    let name = NAMES[*n as usize];
                    let (src, compiles) = SOURCES[*s as usize];
                    let borrowed = matches!(op, Op::AddBorrowed(..));
                    let res = if borrowed {
                        env.add_template(name, src)
                    } else {
                        env.add_template_owned(name.to_string(), src.to_string())
                    };
                    if res.is_ok() != compiles {
                        v.set_fail("add_result_unexpected", format!("{step}: returned {res:?}"));
                        return v;
                    }
                    if compiles {
                        if (borrowed && owned_names.iter().any(|x| x == name)) || (!borrowed && borrowed_names.iter().any(|x| x == name)) {
                            cross_store_replace = true;
                        }
                        owned_names.retain(|x| x != name);
                        borrowed_names.retain(|x| x != name);
                        if borrowed {
                            borrowed_names.push(name.into());
                        } else {
                            owned_names.push(name.into());
                        }
                        m.explicit.insert(name.to_string(), src.to_string());
                        m.memo.remove(name);
                    } else {
                        // a failing addition leaves the environment as it was
                        failed_add = true;
                    }
                }
                Op::Remove(n) => {
                    let name = NAMES[*n as usize];
                    env.remove_template(name);
                    m.explicit.remove(name);
                    m.memo.remove(name);
                    owned_names.retain(|x| x != name);
                    borrowed_names.retain(|x| x != name);
                }
                Op::Clear => {
                    env.clear_templates();
                    m.explicit.clear();
                    m.memo.clear();
                    owned_names.clear();
                    borrowed_names.clear();
                }
                Op::SetLoader(id) => {
                    install_loader(&mut env, *id, &store, &log);
                    m.loader = Some(*id);
                }
                Op::StoreEdit(n, s) => {
                    let name = NAMES[*n as usize];
                    if m.memo.contains_key(name) {
                        edit_after_load = true;
                    }
                    match s {
                        Some(s) => {
                            store.lock().unwrap().insert(name.to_string(), SOURCES[*s as usize].0.to_string());
                        }
                        None => {
                            store.lock().unwrap().remove(name);
                        }
                    }
                }
                Op::AddFilter(k) => {
                    m.filter = Some(*k);
                    apply_registries(&mut env, &Model { filter: Some(*k), ..Model::default() });
                }
                Op::RemoveFilter => {
                    m.filter = None;
                    env.remove_filter("f1");
                }
                Op::AddTest(k) => {
                    m.test = Some(*k);
                    apply_registries(&mut env, &Model { test: Some(*k), ..Model::default() });
                }
                Op::RemoveTest => {
                    m.test = None;
                    env.remove_test("t1");
                }
                Op::AddGlobal(k) => {
                    m.global = Some(*k);
                    apply_registries(&mut env, &Model { global: Some(*k), ..Model::default() });
                }
                Op::RemoveGlobal => {
                    m.global = None;
                    env.remove_global("g1");
                }
                Op::AddFunction(k) => {
                    m.function = Some(*k);
                    apply_registries(&mut env, &Model { function: Some(*k), ..Model::default() });
                }
                Op::RemoveFunction => {
                    m.function = None;
                    env.remove_global("fn1");
                }
                Op::Clone => {
                    let copy = env.clone();
                    others.push((std::mem::replace(&mut env, copy), m.clone()));
                }
                Op::Render(n) => {
                    let name = NAMES[*n as usize];
                    let _ = outcome(&env, name);
                    // a render looks up the template itself and what it references; the model's
                    // lookups happen in the comparison probe below, which is equivalent as the
                    // store does not change in between
                }
                Op::RenderPanickingContext(n) => {
                    v.labels.push("render_with_panicking_context");
                    if let Ok(t) = env.get_template(NAMES[*n as usize]) {
                        let _ = crate::runner::guarded(|| t.render(minijinja::value::Serde(PanickingContext)));
                    }
                }
                Op::CompileExpression(k) => {
                    let src = ["x|f1", "fn1(3) if x is t1", "g1 ~ "][*k as usize % 3];
                    let _ = env.compile_expression(src).and_then(|e| e.eval(Value::from_pairs([("x", 1)])));
                }
            }
            if let Err((sig, detail)) = compare_with_fresh(&env, &mut m, &store, &log, &step) {
                v.set_fail(sig, format!("{detail}\nhistory: {:?}", &h.ops[..=i]));
                return v;
            }
        }
        v.nontrivial = failed_add || cross_store_replace || edit_after_load;
        if failed_add {
            v.labels.push("failing_addition");
        }
        if cross_store_replace {
            v.labels.push("replace_across_stores");
        }
        if edit_after_load {
            v.labels.push("loader_edit_after_first_load");
        }
        // the copies left behind by Clone behave like their contents at that time. Templates the
        // copy had not yet loaded come from the shared loader store as it is now, which the fresh
        // environment built from the copy's model does as well.
        for (k, (other, mut om)) in others.into_iter().enumerate() {
            if let Err((sig, detail)) = compare_with_fresh(&other, &mut om, &store, &log, &format!("clone #{k} at the end")) {
                v.set_fail(format!("clone_{sig}"), format!("{detail}\nhistory: {:?}", h.ops));
                return v;
            }
        }
        // concurrent renders equal the sequential ones
        let want: Vec<String> = NAMES.iter().map(|n| outcome(&env, n)).collect();
        let env = Arc::new(env);
        let bad: Arc<Mutex<Option<String>>> = Arc::new(Mutex::new(None));
        std::thread::scope(|sc| {
            for t in 0..h.threads {
                let env = env.clone();
                let want = want.clone();
                let bad = bad.clone();
                sc.spawn(move || {
                    for round in 0..12 {
                        for (i, n) in NAMES.iter().enumerate() {
                            let got = outcome(&env, n);
                            if got != want[i] {
                                *bad.lock().unwrap() = Some(format!("thread {t} round {round}: {n} rendered {got:?}, sequentially {:?}", want[i]));
                            }
                        }
                    }
                });
            }
        });
        if let Some(b) = bad.lock().unwrap().take() {
            v.set_fail("concurrent_render_differs", format!("{b}\nhistory: {:?}", h.ops));
        }
        v
    }
}


// ------------------------------------------------------------------ values that outlive their render

/// A macro (or an imported module's macro) taken out of a finished render through
/// `render_captured(..).state()` and used in later renders: whatever the engine does with such a
/// value, it does the same on every thread and whatever that thread rendered before ("the same
/// template and context give the same result every time and from any number of threads").
#[derive(Clone, Debug, Serialize, Deserialize)]
pub struct EscapeCase {
    /// renders done on thread A before the capturing render
    pub a: u8,
    /// renders done on the fresh thread B before it uses the value
    pub b: u8,
    /// renders done on thread A between capturing and using the value
    pub c: u8,
    /// 0 = a macro of the template, 1 = a macro of a module the template imported, 2 = a namespace
    pub what: u8,
}

pub struct EscapedValues;

fn escape_env() -> Environment<'static> {
    let mut env = Environment::new();
    env.add_template("t", "{% import 'lib' as lib %}{% macro hello(n) %}Hello {{ n }}{{ suffix }}{% endmacro %}{% set suffix = '!' %}{% set ns = namespace(k='K') %}{{ hello('x') }}{% if v is defined %}[{{ v('Bob') if call else v.k }}]{% endif %}").unwrap();
    env.add_template("lib", "{% set greeting = 'Hi' %}{% macro greet(n) %}{{ greeting }} {{ n }}{% endmacro %}").unwrap();
    env.add_template("use", "[{{ v('Bob') if call else v.k }}]").unwrap();
    env.add_template("warm", "{% macro w() %}w{% endmacro %}{{ w() }}").unwrap();
    env
}

/// the value is used by a later render of the template it came from and by another template
fn use_value(env: &Environment<'static>, v: &Value, call: bool) -> String {
    let mut out = String::new();
    for name in ["t", "use"] {
        match env.get_template(name).and_then(|t| t.render(Value::from_pairs([("v", v.clone()), ("call", Value::from(call))]))) {
            Ok(s) => out.push_str(&format!("ok:{s};")),
            Err(e) => out.push_str(&format!("err:{:?}:{};", e.kind(), e.detail().unwrap_or(""))),
        }
    }
    out
}

impl Part for EscapedValues {
    type Case = EscapeCase;
    const NAME: &'static str = "values_outliving_their_render";

    fn strategy(_tier: Tier) -> BoxedStrategy<EscapeCase> {
        (0u8..4, 0u8..4, 0u8..3, 0u8..3).prop_map(|(a, b, c, what)| EscapeCase { a, b, c, what }).boxed()
    }

    fn enumeration(_tier: Tier) -> Vec<EscapeCase> {
        let mut out = vec![];
        for a in 0..4u8 {
            for b in 0..4u8 {
                for c in 0..3u8 {
                    for what in 0..3u8 {
                        out.push(EscapeCase { a, b, c, what });
                    }
                }
            }
        }
        out
    }

    fn check(case: &EscapeCase) -> Verdict {
        let env = Arc::new(escape_env());
        let warm = |env: &Environment<'static>, n: u8| {
            for _ in 0..n {
                let _ = env.get_template("warm").unwrap().render(());
            }
        };
        // thread A: fresh thread, `a` renders, the capturing render, `c` renders, then the use
        let (value, on_a) = {
            let env = env.clone();
            let case = case.clone();
            std::thread::spawn(move || {
                warm(&env, case.a);
                let tmpl = env.get_template("t").unwrap();
                let captured = tmpl.render_captured(()).unwrap();
                let state = captured.state();
                let v = match case.what % 3 {
                    0 => state.lookup("hello"),
                    1 => state.lookup("lib").and_then(|m| m.get_attr("greet").ok()),
                    _ => state.lookup("ns"),
                }
                .unwrap_or_default();
                drop(captured);
                warm(&env, case.c);
                let on_a = use_value(&env, &v, case.what % 3 != 2);
                (v, on_a)
            })
            .join()
            .unwrap()
        };
        // thread B: another fresh thread with its own history
        let on_b = {
            let env = env.clone();
            let v = value.clone();
            let b = case.b;
            let call = case.what % 3 != 2;
            std::thread::spawn(move || {
                warm(&env, b);
                use_value(&env, &v, call)
            })
            .join()
            .unwrap()
        };
        // and the calling thread (which has rendered thousands of templates already)
        let here = use_value(&env, &value, case.what % 3 != 2);
        let mut v = Verdict::pass(case.a == case.b);
        // what the engine does with the value (so that a vacuous run shows in the evidence)
        v.labels.push(if here.contains("went away") {
            "stale_macro_refused"
        } else if here.starts_with("ok:") {
            "value_usable_later"
        } else {
            "other_error"
        });
        if on_a != on_b || on_a != here {
            v.set_fail(
                "result_depends_on_thread_history",
                format!("a value taken out of a finished render gives {on_a:?} on the thread that made it, {on_b:?} on a fresh thread after {} renders and {here:?} on the calling thread
case: {case:?}", case.b),
            );
        }
        v
    }
}

crate::declare_parts!(Histories, EscapedValues);

pub fn run(ctx: &mut Ctx) {
    ctx.rule = "histories of up to 20 (thorough 28) operations over {add_template (borrowed), add_template_owned, both with sources that fail to compile, remove_template, clear_templates, set_loader (two loaders over a shared mutable in-memory store), edits of that store, add/remove filter/test/global/function (several variants), clone (continuing on the copy; the original is checked at the end), render, compile_expression} over 4 template names whose sources include / extend / import one another, fail at run time or reference missing templates. After EVERY step each name is looked up and rendered twice and compared with a freshly built environment holding what the model (explicit templates, loader-memoised templates with the source at first request, current loader, registries) says; the loader log must show no call for a stored name; at the end the final environment is rendered from 1-8 threads x 12 rounds. Part values_outliving_their_render (144 cases, complete): a macro, an imported module's macro or a namespace taken out of a finished render through render_captured(..).state() is used in later renders on the thread that made it, on a fresh thread with 0-3 renders behind it and on the calling thread: the outcome must be the same everywhere. Non-trivial: a failing addition, a replace across the borrowed/owned stores, or a loader-store edit after first load. Distinct by history.".into();
    ctx.assumptions = vec![
        "settings that only affect templates loaded afterwards (syntax, whitespace) are not part of the histories".into(),
        "real-thread interleavings are sampled, not enumerated".into(),
    ];
    preamble(ctx);
    let t = ctx.tier;
    ctx.run_enumerated::<EscapedValues>(EscapedValues::enumeration(t), true);
    ctx.run_part::<Histories>(t.pick(20_000, 600_000));
}
