//! C11 — run-time recursion is cut off by the recursion limit, never by the stack.
use minijinja::{Environment, Value};
use proptest::prelude::*;
use serde::{Deserialize, Serialize};

use crate::runner::{guarded, Ctx, Part, ReplayFile, Tier, Verdict};

#[derive(Clone, Copy, Debug, Serialize, Deserialize, PartialEq, Eq, PartialOrd, Ord)]
pub enum Edge {
    Macro,
    CallBlock,
    Include,
    Import,
    FromImport,
    /// `{% include ['t.txt'] %}`: the name is a list of candidates
    IncludeList,
    /// `{% include ['missing.txt', 't.txt'] %}`
    IncludeListMissingFirst,
    /// `{% include 't.txt' ignore missing %}`
    IncludeIgnoreMissing,
    /// `{% include 't' ~ k ~ '.txt' %}`: a computed name
    IncludeComputed,
}

#[derive(Clone, Debug, Serialize, Deserialize)]
pub enum Shape {
    /// a cycle of nodes; node i reaches node i+1 through edges[i]
    Cycle(Vec<Edge>),
    /// recursive for loop over data nested `depth` deep
    RecursiveLoop(u16),
    /// {% block b %}...{{ self.b() }}{% endblock %}
    SelfBlock,
    /// chain of n templates whose block calls super()
    SuperChain(u16),
    /// a recursive loop that hands itself the same data again, so it never stops by itself:
    /// 0 `{{ loop(data) }}`, 1 through an alias called from a nested plain loop, 2 through an
    /// alias inside a with block, 3 alias + nested loop over two items, 4 the result used as a value
    UnboundedLoop(u8),
}

#[derive(Clone, Debug, Serialize, Deserialize)]
pub struct RecCase {
    pub shape: Shape,
    /// non-recursive work wrapped around each recursive step (indices into WRAPS)
    pub work: Vec<u8>,
    /// completed (non-nested) work done in every frame before the recursive step (indices into PRES)
    #[serde(default)]
    pub pre: Vec<u8>,
    pub limit: u16,
    /// Some(d): the recursion stops by itself after d steps
    pub bounded: Option<u16>,
    pub debug: bool,
    pub stack_kib: u32,
}

const WRAPS: [(&str, &str); 8] = [
    ("{% with w = d %}", "{% endwith %}"),
    ("{% for q in [1] %}", "{% endfor %}"),
    ("{% if true %}", "{% endif %}"),
    ("{% filter upper %}", "{% endfilter %}"),
    ("{% set cap %}", "{% endset %}{{ cap }}"),
    ("{% autoescape true %}", "{% endautoescape %}"),
    ("{% for q in [1, 2] %}{% if loop.first %}", "{% endif %}{% endfor %}"),
    ("{% with a = 1, b = [d, d]|length %}{% if b %}", "{% endif %}{% endwith %}"),
];

/// evaluations that finish before the frame recurses (a finished macro call, include, call block)
const PRES: [&str; 5] = [
    "{{ hlp() }}",
    "{% include 'leaf.txt' %}",
    "{% call(dd) via(0) %}x{% endcall %}",
    "{% set z = hlp() %}",
    "{{ hlp() }}{{ hlp() }}",
];

const HELPERS: &str = "{% macro hlp() %}h{% endmacro %}{% macro via(d) %}{{ caller(d) }}{% endmacro %}";

fn wrap(c: &RecCase, inner: &str) -> String {
    let mut s = String::new();
    for p in &c.pre {
        s.push_str(PRES[*p as usize % PRES.len()]);
    }
    s.push_str(inner);
    for w in &c.work {
        let (a, b) = WRAPS[*w as usize % WRAPS.len()];
        s = format!("{a}{s}{b}");
    }
    s
}

/// builds (main source, companions, context)
pub fn build(c: &RecCase) -> (String, Vec<(String, String)>, Value) {
    let guard_open = if c.bounded.is_some() { "{% if d > 0 %}" } else { "" };
    let guard_close = if c.bounded.is_some() { "{% endif %}" } else { "" };
    let d0 = c.bounded.map_or(1_000_000i64, |d| d as i64);
    match &c.shape {
        Shape::Cycle(edges) => {
            let n = edges.len();
            // node j is a macro `n{j}(d)` living in template t{j}.txt (its own module) when it is
            // reached through include/import, otherwise in main
            let mut main = String::new();
            let mut comps: Vec<(String, String)> = vec![];
            let call_next = |j: usize, edge: Edge| -> String {
                let next = (j + 1) % n;
                match edge {
                    Edge::Macro => format!("{{{{ n{next}(d - 1) }}}}"),
                    Edge::CallBlock => format!("{{% call(dd) via(d - 1) %}}{{{{ n{next}(dd) }}}}{{% endcall %}}"),
                    Edge::Include => format!("{{% with d = d - 1 %}}{{% include 't{next}.txt' %}}{{% endwith %}}"),
                    Edge::IncludeList => format!("{{% with d = d - 1 %}}{{% include ['t{next}.txt'] %}}{{% endwith %}}"),
                    Edge::IncludeListMissingFirst => {
                        format!("{{% with d = d - 1 %}}{{% include ['missing.txt', 't{next}.txt'] ignore missing %}}{{% endwith %}}")
                    }
                    Edge::IncludeIgnoreMissing => format!("{{% with d = d - 1 %}}{{% include 't{next}.txt' ignore missing %}}{{% endwith %}}"),
                    Edge::IncludeComputed => format!("{{% with d = d - 1 %}}{{% include 't' ~ {next} ~ '.txt' %}}{{% endwith %}}"),
                    Edge::Import => format!("{{% import 't{next}.txt' as mod %}}{{{{ mod.n{next}(d - 1) }}}}"),
                    Edge::FromImport => format!("{{% from 't{next}.txt' import n{next} %}}{{{{ n{next}(d - 1) }}}}"),
                }
            };
            // every template defines all node macros it may need, so that any edge kind works
            let mut defs = String::from(HELPERS);
            comps.push(("leaf.txt".to_string(), "l".to_string()));
            for j in 0..n {
                let body = wrap(c, &format!("{guard_open}{}{guard_close}", call_next(j, edges[j])));
                defs.push_str(&format!("{{% macro n{j}(d) %}}.{body}{{% endmacro %}}"));
            }
            for j in 0..n {
                // when entered by include the template body itself performs node j's step
                let body = wrap(c, &format!("{guard_open}{}{guard_close}", call_next(j, edges[j])));
                comps.push((format!("t{j}.txt"), format!("{defs}.{body}")));
            }
            main.push_str(&defs);
            main.push_str("{{ n0(d) }}");
            (main, comps, Value::from_pairs([("d", Value::from(d0))]))
        }
        Shape::RecursiveLoop(depth) => {
            // inner for loops would shadow the recursive loop's `loop` variable
            let mut c = c.clone();
            c.work.retain(|w| !matches!(*w as usize % WRAPS.len(), 1 | 6));
            let c = &c;
            let mut data = Value::from(vec![Value::from(1)]);
            for _ in 0..*depth {
                data = Value::from(vec![data]);
            }
            let inner = wrap(c, "{{ loop(x) if x is sequence else x }}");
            (
                format!("{HELPERS}{{% for x in data recursive %}}{inner}{{% endfor %}}"),
                vec![("leaf.txt".to_string(), "l".to_string())],
                Value::from_pairs([("data", data), ("d", Value::from(d0))]),
            )
        }
        Shape::UnboundedLoop(kind) => {
            let mut c = c.clone();
            c.work.retain(|w| !matches!(*w as usize % WRAPS.len(), 1 | 6));
            c.bounded = None;
            let c = &c;
            let step = match kind % 5 {
                0 => "{{ loop(data) }}",
                1 => "{% set again = loop %}{% for q in [1] %}{{ again(data) }}{% endfor %}",
                2 => "{% set again = loop %}{% with w = 1 %}{{ again(data) }}{% endwith %}",
                3 => "{% set again = loop %}{% for q in [1, 2] %}{% if loop.last %}{{ again(data) }}{% endif %}{% endfor %}",
                _ => "{% set r = loop(data) %}{{ r|upper }}",
            };
            let inner = wrap(c, step);
            (
                format!("{HELPERS}{{% for x in data recursive %}}{{{{ tick() }}}}.{inner}{{% endfor %}}"),
                vec![("leaf.txt".to_string(), "l".to_string())],
                Value::from_pairs([("data", Value::from(vec![1])), ("d", Value::from(d0))]),
            )
        }
        Shape::SelfBlock => {
            let inner = wrap(c, &format!("{guard_open}{{% set d = d - 1 %}}{{{{ self.b() }}}}{guard_close}"));
            (
                format!("{HELPERS}{{% block b %}}.{inner}{{% endblock %}}"),
                vec![("leaf.txt".to_string(), "l".to_string())],
                Value::from_pairs([("d", Value::from(d0))]),
            )
        }
        Shape::SuperChain(n) => {
            let n = (*n).max(1) as usize;
            let mut comps = vec![("leaf.txt".to_string(), "l".to_string())];
            for j in 1..n {
                let inner = wrap(c, "{{ super() }}");
                comps.push((format!("t{j}.txt"), format!("{{% extends 't{}.txt' %}}{HELPERS}{{% block b %}}{j}{inner}{{% endblock %}}", j + 1)));
            }
            comps.push((format!("t{n}.txt"), format!("{HELPERS}{{% block b %}}root{{% endblock %}}")));
            let inner = wrap(c, "{{ super() }}");
            (
                format!("{{% extends 't1.txt' %}}{HELPERS}{{% block b %}}0{inner}{{% endblock %}}"),
                comps,
                Value::from_pairs([("d", Value::from(d0))]),
            )
        }
    }
}

#[derive(Debug, PartialEq)]
enum Out {
    Ok,
    LimitError,
    OtherError(String),
}

fn render(c: &RecCase, limit: usize) -> Out {
    let (main, comps, ctx) = build(c);
    let mut env = Environment::new();
    env.set_debug(c.debug);
    env.set_recursion_limit(limit);
    // a loop recursion that the limit fails to cut ends here instead of never (reported as an
    // unexpected error); 500 levels of the heaviest frame need a fraction of this
    if matches!(c.shape, Shape::UnboundedLoop(_)) {
        env.set_fuel(Some(400_000));
        // every level of the loop recursion reports to the host; a level far beyond the limit
        // is an error of its own, so "the limit never trips" is a verdict and not a timeout
        let levels = std::sync::Arc::new(std::sync::atomic::AtomicUsize::new(0));
        let max_levels = 2 * limit + 64;
        env.add_function("tick", move || -> Result<String, minijinja::Error> {
            let n = levels.fetch_add(1, std::sync::atomic::Ordering::SeqCst) + 1;
            if n > max_levels {
                Err(minijinja::Error::new(
                    minijinja::ErrorKind::InvalidOperation,
                    format!("loop recursion reached level {n} although the recursion limit is {limit}"),
                ))
            } else {
                Ok(String::new())
            }
        });
    }
    for (n, s) in comps {
        if let Err(e) = env.add_template_owned(n, s) {
            return Out::OtherError(format!("companion does not load: {e}"));
        }
    }
    if let Err(e) = env.add_template_owned("main.txt".to_string(), main) {
        return Out::OtherError(format!("main does not load: {e}"));
    }
    match env.get_template("main.txt").unwrap().render(ctx) {
        Ok(_) => Out::Ok,
        Err(e) => {
            let mut hit = e.detail().map_or(false, |d| d.contains("recursion limit exceeded"));
            let mut src = std::error::Error::source(&e);
            let mut n = 0;
            while let Some(s) = src {
                if s.to_string().contains("recursion limit exceeded") {
                    hit = true;
                }
                src = s.source();
                n += 1;
                if n > 2000 {
                    break;
                }
            }
            // formatting a 500-level error chain must not be a problem either
            let _ = format!("{e:#}").len();
            if hit {
                Out::LimitError
            } else {
                Out::OtherError(format!("{:?}: {}", e.kind(), e.detail().unwrap_or("")))
            }
        }
    }
}

pub struct Recursion;

fn edge_names(c: &RecCase) -> String {
    match &c.shape {
        Shape::Cycle(e) => {
            let mut v: Vec<String> = e.iter().map(|x| format!("{x:?}").to_lowercase()).collect();
            v.sort();
            v.dedup();
            v.join("+")
        }
        Shape::RecursiveLoop(_) => "recursive_loop".into(),
        Shape::SelfBlock => "block".into(),
        Shape::SuperChain(_) => "block_super".into(),
        Shape::UnboundedLoop(_) => "unbounded_loop".into(),
    }
}

impl Part for Recursion {
    type Case = RecCase;
    const NAME: &'static str = "recursive_shapes";

    fn strategy(_tier: Tier) -> BoxedStrategy<RecCase> {
        let edge = crate::runner::one_of(&[
            Edge::Macro,
            Edge::CallBlock,
            Edge::Include,
            Edge::Import,
            Edge::FromImport,
            Edge::Macro,
            Edge::CallBlock,
            Edge::IncludeList,
            Edge::IncludeListMissingFirst,
            Edge::IncludeIgnoreMissing,
            Edge::IncludeComputed,
        ]);
        let shape = prop_oneof![
            8 => prop::collection::vec(edge, 1..5).prop_map(Shape::Cycle),
            2 => (1u16..900).prop_map(Shape::RecursiveLoop),
            1 => Just(Shape::SelfBlock),
            1 => (2u16..450).prop_map(Shape::SuperChain),
            2 => (0u8..5).prop_map(Shape::UnboundedLoop),
        ];
        (
            shape,
            prop::collection::vec(0u8..8, 0..4),
            prop_oneof![2 => Just(vec![]), 3 => prop::collection::vec(0u8..5, 1..3)],
            prop_oneof![2 => Just(500u16), 2 => 1u16..500, 1 => crate::runner::one_of(&[1u16, 2, 3, 10, 50, 499])],
            prop_oneof![3 => Just(None), 1 => (1u16..700).prop_map(Some)],
            any::<bool>(),
            any::<bool>(),
        )
            .prop_map(|(shape, work, pre, limit, bounded, debug, small)| RecCase {
                shape,
                work,
                pre,
                limit,
                bounded,
                debug,
                stack_kib: if small { 2048 } else { 8192 },
            })
            .boxed()
    }

    fn check(c: &RecCase) -> Verdict {
        let case = c.clone();
        let handle = std::thread::Builder::new()
            .stack_size(c.stack_kib as usize * 1024)
            .spawn(move || {
                guarded(|| {
                    let first = render(&case, case.limit as usize);
                    // monotone in the limit: a smaller limit cannot make the limit error go away
                    let smaller = if first == Out::LimitError && case.limit > 1 {
                        Some((render(&case, (case.limit / 2).max(1) as usize), render(&case, case.limit as usize - 1)))
                    } else {
                        None
                    };
                    (first, smaller)
                })
            })
            .expect("spawn");
        let mixes = match &c.shape {
            Shape::Cycle(e) => {
                let mut k = e.clone();
                k.sort();
                k.dedup();
                k.len() >= 2
            }
            _ => false,
        };
        let mut v = Verdict::pass(mixes || c.work.len() >= 2);
        v.labels.push(match &c.shape {
            Shape::Cycle(_) => "cycle",
            Shape::RecursiveLoop(_) => "recursive_loop",
            Shape::SelfBlock => "self_block",
            Shape::SuperChain(_) => "super_chain",
            Shape::UnboundedLoop(_) => "unbounded_loop",
        });
        match handle.join() {
            Ok(Ok((first, smaller))) => {
                let unbounded = c.bounded.is_none() && !matches!(c.shape, Shape::RecursiveLoop(_) | Shape::SuperChain(_));
                match &first {
                    Out::Ok if unbounded => v.set_fail(
                        format!("unbounded_recursion_succeeds:{}", edge_names(c)),
                        format!("the recursion never stops by itself but the render returned Ok: {c:?}\nmain: {}", build(c).0),
                    ),
                    Out::OtherError(e) => v.set_fail(
                        format!("unexpected_error:{}", edge_names(c)),
                        format!("expected success or `recursion limit exceeded`, got {e}\ncase: {c:?}\nmain: {}", build(c).0),
                    ),
                    Out::LimitError => v.labels.push("limit_error"),
                    Out::Ok => v.labels.push("finished_below_limit"),
                }
                if let Some((half, minus_one)) = smaller {
                    if half != Out::LimitError || minus_one != Out::LimitError {
                        v.set_fail(
                            format!("limit_not_monotone:{}", edge_names(c)),
                            format!("limit {} gives the limit error but limit {} gives {half:?} and limit {} gives {minus_one:?}\ncase: {c:?}", c.limit, c.limit / 2, c.limit - 1),
                        );
                    }
                }
            }
            Ok(Err((sig, raw))) => v.set_fail(sig, format!("panicked: {raw}\ncase: {c:?}")),
            Err(_) => v.set_fail("panic:thread", "render thread panicked"),
        }
        v
    }

    fn refine_crash(c: &RecCase, sig: &str) -> String {
        format!("{sig}:{}", edge_names(c))
    }

    fn show(c: &RecCase) -> serde_json::Value {
        serde_json::json!({"shape": c.shape, "work": c.work, "pre": c.pre, "limit": c.limit, "bounded": c.bounded, "stack_kib": c.stack_kib, "main": build(c).0})
    }

    fn shrink_candidates(c: &RecCase) -> Vec<RecCase> {
        let mut out = vec![];
        for i in 0..c.work.len() {
            let mut x = c.clone();
            x.work.remove(i);
            out.push(x);
        }
        for i in 0..c.pre.len() {
            let mut x = c.clone();
            x.pre.remove(i);
            out.push(x);
        }
        if let Shape::Cycle(e) = &c.shape {
            for i in 0..e.len() {
                if e.len() > 1 {
                    let mut x = c.clone();
                    if let Shape::Cycle(e2) = &mut x.shape {
                        e2.remove(i);
                    }
                    out.push(x);
                }
            }
        }
        if c.debug {
            let mut x = c.clone();
            x.debug = false;
            out.push(x);
        }
        out
    }
}


// ------------------------------------------------------------------ reduced feature sets

/// The same question with the engine built with a reduced feature set. The main harness needs
/// most engine features itself, so these cases run in the binaries of the tiny `harness-min`
/// crate (`./check` builds one per feature set and passes their paths in `MJV_MIN_<n>`): one
/// process per case, a death by signal is the native stack overflow.
#[derive(Clone, Debug, Serialize, Deserialize)]
pub struct MinCase {
    pub set: u8,
    pub shape: u8,
    pub limit: u16,
    pub stack_kib: u32,
}

pub struct ReducedFeatureSets;

pub const MIN_SETS: [&str; 4] = ["macros", "multi_template", "no_optional_features", "macros+multi_template"];
const MIN_SHAPES: u8 = 14;

impl Part for ReducedFeatureSets {
    type Case = MinCase;
    const NAME: &'static str = "reduced_feature_sets";

    fn strategy(_tier: Tier) -> BoxedStrategy<MinCase> {
        (0u8..4, 0..MIN_SHAPES, prop_oneof![1 => Just(500u16), 2 => 1u16..500], any::<bool>())
            .prop_map(|(set, shape, limit, small)| MinCase { set, shape, limit, stack_kib: if small { 2048 } else { 8192 } })
            .boxed()
    }

    fn enumeration(_tier: Tier) -> Vec<MinCase> {
        let mut out = vec![];
        for set in 0..4u8 {
            for shape in 0..MIN_SHAPES {
                for limit in [500u16, 100, 20, 1] {
                    for stack_kib in [2048u32, 8192] {
                        out.push(MinCase { set, shape, limit, stack_kib });
                    }
                }
            }
        }
        out
    }

    fn check(c: &MinCase) -> Verdict {
        let set = MIN_SETS[c.set as usize % MIN_SETS.len()];
        let Ok(bin) = std::env::var(format!("MJV_MIN_{}", c.set as usize % MIN_SETS.len())) else {
            return Verdict::pass(false).label("binary_not_built");
        };
        let out = std::process::Command::new(&bin)
            .args([c.shape.to_string(), c.limit.to_string(), c.stack_kib.to_string()])
            .stdin(std::process::Stdio::null())
            .stderr(std::process::Stdio::piped())
            .output();
        let out = match out {
            Ok(o) => o,
            Err(_) => return Verdict::pass(false).label("binary_not_runnable"),
        };
        let line = String::from_utf8_lossy(&out.stdout).lines().last().unwrap_or("").to_string();
        let mut v = Verdict::pass(true);
        if !out.status.success() {
            let err = String::from_utf8_lossy(&out.stderr);
            let tail: String = err.lines().rev().take(2).collect::<Vec<_>>().join(" / ");
            v.set_fail(
                format!("reduced_feature_set:{set}:process_died"),
                format!("engine built with feature set `{set}`: shape {} with recursion limit {} on a {} KiB thread ended the process ({:?}): {tail}", c.shape, c.limit, c.stack_kib, out.status),
            );
            return v;
        }
        match line.as_str() {
            "limit" => v.labels.push("limit_error"),
            "ok" => v.labels.push("finished_below_limit"),
            "unsupported" => {
                v.nontrivial = false;
                v.labels.push("shape_needs_a_feature_that_is_off");
            }
            other => v.set_fail(
                format!("reduced_feature_set:{set}:unexpected_outcome"),
                format!("engine built with feature set `{set}`: shape {} with recursion limit {} gave {other:?}, expected success or `recursion limit exceeded`", c.shape, c.limit),
            ),
        }
        v
    }
}

crate::declare_parts!(Recursion, ReducedFeatureSets);


pub fn replay_any(ctx: &mut Ctx, rf: &ReplayFile) -> bool {
    ctx.replay_isolated::<Recursion>(rf) || replay(ctx, rf)
}

pub fn run(ctx: &mut Ctx) {
    ctx.rule = "recursive program shapes: directed cycles of length 1-4 over {macro call, call block / caller(), include, import, from-import} edges (every template of the cycle defines every node so that all edge kinds mix), recursive for-loops over data nested 1-900 deep, self.block() recursion, inheritance chains of 2-450 templates whose blocks call super(); each recursive step wrapped in 0-3 layers of non-recursive work (with, for, if, filter block, set-block, autoescape, nested combinations) and preceded in its frame by 0-2 completed evaluations (a finished helper macro call, include, call block, macro call in a set); unbounded or stopping by itself after 1-700 steps; recursion_limit 500, random in [1,500) and small values; debug info on/off; run in worker processes of the debug (opt-level 0) and release builds on 2 MiB and 8 MiB threads. Oracle: the worker survives; unbounded shapes return an error whose chain contains `recursion limit exceeded` (never Ok), bounded ones return Ok or that error, never another error; if limit L gives the limit error so do L/2 and L-1. Besides, with the engine built with four reduced feature sets (macros only, multi_template only, neither, both; binaries of the harness-min crate, one process per case): 14 recursive shapes (macro self/mutual recursion, through call blocks, loops, with, set-blocks; recursive loops over data nested 1500 deep; include and import cycles) x limits 500/100/20/1 x 2 MiB and 8 MiB threads, enumerated completely - the process survives and reports success (bounded shape) or the limit error. Non-trivial: at least two edge kinds or two layers of frame work. Distinct by case.".into();
    ctx.assumptions = vec![
        "the listed block-call finding (self.block() / deep super() chains in debug builds on 2 MiB stacks) is keyed on crash signatures that name the block edge; other shapes are not tolerated".into(),
    ];
    let t = ctx.tier;
    for label in ["debug", "release"] {
        ctx.run_finding_witnesses_isolated::<Recursion>(label);
        ctx.run_regressions_isolated::<Recursion>(label);
    }
    ctx.run_enumerated::<ReducedFeatureSets>(ReducedFeatureSets::enumeration(t), true);
    ctx.run_part_isolated::<Recursion>("MJV_DBG", "debug", t.pick(600, 20_000), 120);
    ctx.run_part_isolated::<Recursion>("MJV_REL", "release", t.pick(1_500, 60_000), 120);
}
