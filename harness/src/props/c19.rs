//! C19 — a failing output sink stops the render with the sink's own error.
use std::io;

use minijinja::{Environment, ErrorKind, Value};
use proptest::prelude::*;
use serde::{Deserialize, Serialize};

use crate::gen::free::{self, Opts};
use crate::gen::print;
use crate::props::c01::std_ctx;
use crate::runner::{Ctx, Part, Tier, Verdict};

#[derive(Clone, Debug, Serialize, Deserialize)]
pub struct SinkCase {
    pub main_name: String,
    pub source: String,
    pub companions: Vec<(String, String)>,
    /// 0 BrokenPipe, 1 Other, 2 WouldBlock, 3 custom error type, 4 Ok(0), 5 Interrupted (retried by write_all)
    pub kind: u8,
    /// accept at most this many bytes per write call (None = everything)
    pub max_chunk: Option<u8>,
    /// also exercise State::render_block_to_write for this block
    pub block: Option<String>,
}

#[derive(Debug)]
struct CustomErr(u32);
impl std::fmt::Display for CustomErr {
    fn fmt(&self, f: &mut std::fmt::Formatter<'_>) -> std::fmt::Result {
        write!(f, "custom sink failure #{}", self.0)
    }
}
impl std::error::Error for CustomErr {}

struct Sink {
    chunks: Vec<Vec<u8>>,
    calls: usize,
    fail_at: Option<usize>,
    kind: u8,
    max_chunk: Option<usize>,
    failed: bool,
    calls_after_error: usize,
    interrupted_once: bool,
}

impl Sink {
    fn new(fail_at: Option<usize>, kind: u8, max_chunk: Option<usize>) -> Sink {
        Sink {
            chunks: vec![],
            calls: 0,
            fail_at,
            kind,
            max_chunk,
            failed: false,
            calls_after_error: 0,
            interrupted_once: false,
        }
    }
    fn bytes(&self) -> Vec<u8> {
        self.chunks.concat()
    }
}

impl io::Write for Sink {
    fn write(&mut self, buf: &[u8]) -> io::Result<usize> {
        if self.failed {
            self.calls_after_error += 1;
        }
        let idx = self.calls;
        self.calls += 1;
        if Some(idx) == self.fail_at {
            match self.kind {
                0 => {
                    self.failed = true;
                    return Err(io::Error::new(io::ErrorKind::BrokenPipe, "pipe is gone"));
                }
                1 => {
                    self.failed = true;
                    return Err(io::Error::new(io::ErrorKind::Other, "disk on fire"));
                }
                2 => {
                    self.failed = true;
                    return Err(io::Error::new(io::ErrorKind::WouldBlock, "would block"));
                }
                3 => {
                    self.failed = true;
                    return Err(io::Error::new(io::ErrorKind::Other, CustomErr(idx as u32)));
                }
                4 => {
                    self.failed = true;
                    return Ok(0);
                }
                _ => {
                    // Interrupted is retried by write_all: not a failure
                    if !self.interrupted_once {
                        self.interrupted_once = true;
                        self.fail_at = None;
                        return Err(io::Error::new(io::ErrorKind::Interrupted, "interrupted"));
                    }
                }
            }
        }
        let n = match self.max_chunk {
            Some(m) => buf.len().min(m.max(1)),
            None => buf.len(),
        };
        self.chunks.push(buf[..n].to_vec());
        Ok(n)
    }
    fn flush(&mut self) -> io::Result<()> {
        Ok(())
    }
}

fn env_for(c: &SinkCase) -> Option<Environment<'static>> {
    let mut env = Environment::new();
    env.set_fuel(Some(100_000));
    for (n, s) in &c.companions {
        let _ = env.add_template_owned(n.clone(), s.clone());
    }
    env.add_template_owned(c.main_name.clone(), c.source.clone()).ok()?;
    Some(env)
}

fn err_text(e: &minijinja::Error) -> String {
    format!("{:?}|{:?}|{:?}", e.kind(), e.detail(), e.line())
}

pub struct Sinks;

fn source_strategy(tier: Tier) -> BoxedStrategy<String> {
    let o = Opts {
        sdepth: tier.pick(2, 3),
        edepth: 2,
        extreme: false,
        ..Opts::default()
    };
    let pieces = crate::runner::one_of(&[
        "plain text ",
        "{{ i }}",
        "{{ 1234567 }}",
        "{{ s }}",
        "{{ ls|join('<') }}",
        "{{ '<b>' }}",
        "{{ f }}{{ b }}{{ n }}",
        "{{ mac(1) }}",
        "{% call(v) wrap(2) %}<{{ v }}>{% endcall %}",
        "{% include 'a.txt' %}",
        "{% set cap %}captured {{ i }}{% endset %}{{ cap }}",
        "{% filter upper %}filtered {{ s }}{% endfilter %}",
        "{% for q in l %}{{ q }},{% endfor %}",
        "{% for q in ll recursive %}[{{ loop(q) if q is sequence else q }}]{% endfor %}",
        "{{ self.a() }}",
        "{% autoescape true %}{{ '<&>' }}{% endautoescape %}",
        "{{ 'x' * 300 }}",
        "{{ m }}{{ l }}",
        "{{ 1 // 0 }}",
        "{% include 'missing.txt' %}",
        "{{ nosuch|nosuchfilter }}",
        "{% raw %}{{ raw }}{% endraw %}",
        // other escape modes: JSON auto-escaping has formatting paths of its own
        "{% autoescape 'json' %}{{ i }}{{ 7 }}{{ 255 }}{{ 256 }}{{ s }}{{ m }}{{ l }}{% endautoescape %}",
        "{% autoescape 'json' %}{% for q in l %}{{ loop.index }}{{ q }}{% endfor %}{{ ls|length }}{{ f }}{{ b }}{{ n }}{% endautoescape %}",
        "{% autoescape 'none' %}{{ '<&>' }}{{ 0 }}{% endautoescape %}",
        "{{ 0 }}{{ 9 }}{{ 10 }}{{ 255 }}{{ 256 }}{{ -1 }}{{ l|length }}",
        // strings inside containers are written as quoted literals, piece by piece: plain runs
        // and escape sequences alternate
        "{{ ['plain\\nrun', 'a\"b', \"it's\", 'tab\\there', 'back\\\\slash', 'end\\r'] }}",
        "{{ {'key\\n': 'v\"w', 'k2': ['x\\ty\\tz']} }}{{ ls }}",
        "{% autoescape false %}{{ [s ~ '\\n' ~ s, '\\x01mid\\x02'] }}{% endautoescape %}",
    ]);
    let structured = (prop::collection::vec(pieces, 1..7), any::<bool>(), any::<bool>()).prop_map(|(p, inherit, sup)| {
        let body = p.concat();
        let head = "{% macro mac(a) %}[mac {{ a }}]{% endmacro %}{% macro wrap(n) %}{% for z in range(n) %}{{ caller(z) }}{% endfor %}{% endmacro %}";
        if inherit {
            format!("{{% extends 'b.html' %}}{head}{{% block a %}}{}{body}{{% endblock %}}", if sup { "{{ super() }}" } else { "" })
        } else {
            format!("{head}top {{% block a %}}A{{{{ i }}}}{{% endblock %}}{body}")
        }
    });
    prop_oneof![
        3 => structured,
        1 => crate::gen::tame::source(),
        1 => free::template(o).prop_map(|b| print::template_default(&b)),
    ]
    .boxed()
}

impl Part for Sinks {
    type Case = SinkCase;
    const NAME: &'static str = "failing_sinks";

    fn strategy(tier: Tier) -> BoxedStrategy<SinkCase> {
        (
            source_strategy(tier),
            0u8..6,
            0u8..6,
            prop_oneof![3 => Just(None), 1 => (1u8..9).prop_map(Some)],
            prop_oneof![Just(None), Just(Some("a".to_string()))],
        )
            .prop_map(|(source, html, kind, max_chunk, block)| SinkCase {
                main_name: ["main.txt", "main.html", "main.txt", "main.html", "main.json", "main.yaml"][html as usize % 6].into(),
                source,
                companions: vec![
                    ("a.txt".into(), "<a:{{ i }}{% for q in l %}{{ q }}{% endfor %}>".into()),
                    (
                        "b.html".into(),
                        "<base>{{ s }}{% block a %}base-a{% for q in l %}.{% endfor %}{% endblock %}{% block z %}z{% endblock %}</base>".into(),
                    ),
                ],
                kind,
                max_chunk,
                block,
            })
            .boxed()
    }

    fn check(c: &SinkCase) -> Verdict {
        let Some(env) = env_for(c) else {
            return Verdict::pass(false).label("load_error");
        };
        let ctx = Value::from_pairs(std_ctx().into_iter().map(|(k, v)| (k, v.to_value())));
        let t = env.get_template(&c.main_name).unwrap();
        let mut v = Verdict::pass(false);

        // reference: plain render and a sink that never fails
        let plain = t.render(ctx.clone());
        let mut good = Sink::new(None, 0, None);
        let good_res = t.render_captured_to(ctx.clone(), &mut good);
        let good_err = good_res.as_ref().err().map(err_text);
        match (&plain, &good_res) {
            (Ok(s), Ok(cap)) => {
                if good.bytes() != s.as_bytes() {
                    v.set_fail("good_sink_differs_from_render", format!("render() = {s:?} but the sink received {:?}\nsource: {}", String::from_utf8_lossy(&good.bytes()), c.source));
                }
                if !cap.output().is_empty() {
                    v.set_fail("captured_output_not_empty", format!("render_captured_to kept {:?}", cap.output()));
                }
            }
            (Err(a), Err(b)) => {
                if err_text(a) != err_text(b) {
                    v.set_fail("good_sink_error_differs", format!("render() fails with {a:?}, render_captured_to with {b:?}"));
                }
                v.labels.push("program_fails_on_its_own");
            }
            (a, b) => v.set_fail(
                "good_sink_outcome_differs",
                format!("render() = {a:?} but render_captured_to = {:?}\nsource: {}", b.as_ref().map(|_| ()).map_err(err_text), c.source),
            ),
        }
        if let Ok(s) = &plain {
            if !s.as_bytes().starts_with(&good.bytes()) {
                v.set_fail("not_a_prefix", format!("sink bytes are not a prefix of render()"));
            }
        }
        let r_chunks = good.chunks.clone();
        let total = r_chunks.len();
        v.nontrivial = total >= 4
            && ["mac(", "include", "super()", "self.", "caller", "endset", "endfilter", "extends"]
                .iter()
                .any(|k| c.source.contains(k));
        if total >= 4 {
            v.labels.push("four_or_more_writes");
        }

        // short writes only: same bytes overall
        if let Some(m) = c.max_chunk {
            let mut short = Sink::new(None, 0, Some(m as usize));
            let res = t.render_captured_to(ctx.clone(), &mut short);
            if short.bytes() != good.bytes() || res.as_ref().err().map(err_text) != good_err {
                v.set_fail(
                    "short_writes_change_output",
                    format!("with writes of at most {m} bytes the sink received {:?}, expected {:?}\nsource: {}", String::from_utf8_lossy(&short.bytes()), String::from_utf8_lossy(&good.bytes()), c.source),
                );
            }
        }

        // every failure position
        // every position for renders of up to 96 writes; longer ones: the first 64, the last
        // 16 and 48 evenly spaced positions in between (labelled)
        let positions: Vec<usize> = if total <= 96 {
            (0..=total).collect()
        } else {
            v.labels.push("positions_sampled");
            let mut p: Vec<usize> = (0..64).collect();
            let step = ((total - 80) / 48).max(1);
            p.extend((64..total - 16).step_by(step));
            p.extend(total - 16..=total);
            p
        };
        for k in positions {
            let mut sink = Sink::new(Some(k), c.kind, None);
            let res = t.render_captured_to(ctx.clone(), &mut sink);
            let want_prefix: Vec<u8> = r_chunks[..k.min(total)].concat();
            if c.kind == 5 {
                // Interrupted once: write_all retries, nothing is lost or duplicated
                if sink.bytes() != good.bytes() || res.as_ref().err().map(err_text) != good_err {
                    v.set_fail(
                        "interrupted_write_changes_output",
                        format!("an Interrupted result at write {k} changed the outcome: got {:?}\nsource: {}", String::from_utf8_lossy(&sink.bytes()), c.source),
                    );
                }
                continue;
            }
            if k == total {
                // the sink never gets to fail: the outcome is the reference outcome
                if sink.bytes() != good.bytes() || res.as_ref().err().map(err_text) != good_err {
                    v.set_fail("untriggered_failure_changes_output", format!("k = total = {k}: outcome differs from the good sink\nsource: {}", c.source));
                }
                continue;
            }
            if sink.calls_after_error > 0 {
                v.set_fail(
                    "write_after_error",
                    format!("sink failed at write {k} of {total} but was written to {} more time(s)\nsource: {}", sink.calls_after_error, c.source),
                );
            }
            if sink.bytes() != want_prefix {
                v.set_fail(
                    "bytes_not_the_prefix",
                    format!("sink failing at write {k}: received {:?}, expected exactly the first {k} payloads {:?}\nsource: {}", String::from_utf8_lossy(&sink.bytes()), String::from_utf8_lossy(&want_prefix), c.source),
                );
            }
            match res {
                Ok(_) => v.set_fail(
                    "failure_swallowed",
                    format!("sink failed at write {k} of {total} but render_captured_to returned Ok\nsource: {}", c.source),
                ),
                Err(e) => {
                    if e.kind() != ErrorKind::WriteFailure {
                        v.set_fail(
                            "wrong_error_kind",
                            format!("sink failed at write {k} of {total} but the error is {:?} ({e})\nsource: {}", e.kind(), c.source),
                        );
                    } else {
                        let src = std::error::Error::source(&e).and_then(|s| s.downcast_ref::<io::Error>());
                        let ok = match (c.kind, src) {
                            (0, Some(io)) => io.kind() == io::ErrorKind::BrokenPipe && io.to_string() == "pipe is gone",
                            (1, Some(io)) => io.kind() == io::ErrorKind::Other && io.to_string() == "disk on fire",
                            (2, Some(io)) => io.kind() == io::ErrorKind::WouldBlock,
                            (3, Some(io)) => io
                                .get_ref()
                                .and_then(|x| x.downcast_ref::<CustomErr>())
                                .map_or(false, |x| x.0 == k as u32),
                            (4, Some(io)) => io.kind() == io::ErrorKind::WriteZero,
                            _ => false,
                        };
                        if !ok {
                            v.set_fail(
                                "source_is_not_the_sinks_error",
                                format!("sink failed at write {k} with kind {} but the error's source is {:?}\nsource: {}", c.kind, std::error::Error::source(&e), c.source),
                            );
                        }
                    }
                }
            }
        }

        // the block entry point
        if let (Some(block), Ok(mut cap)) = (&c.block, t.render_captured(ctx.clone())) {
            let mut good = Sink::new(None, 0, None);
            let res = cap.with_state_mut(|st| st.render_block_to_write(block, &mut good));
            if res.is_ok() {
                v.labels.push("block_entry_point");
                let chunks = good.chunks.clone();
                for k in 0..chunks.len().min(64) {
                    let mut sink = Sink::new(Some(k), c.kind.min(4), None);
                    let r = cap.with_state_mut(|st| st.render_block_to_write(block, &mut sink));
                    let want: Vec<u8> = chunks[..k].concat();
                    let kind_ok = matches!(&r, Err(e) if e.kind() == ErrorKind::WriteFailure
                        && std::error::Error::source(e).and_then(|s| s.downcast_ref::<io::Error>()).is_some());
                    if !kind_ok || sink.bytes() != want || sink.calls_after_error > 0 {
                        v.set_fail(
                            "block_entry_point",
                            format!("render_block_to_write({block}) with the sink failing at write {k}: result {:?}, received {:?}, writes after error {}\nsource: {}", r.as_ref().err().map(err_text), String::from_utf8_lossy(&sink.bytes()), sink.calls_after_error, c.source),
                        );
                    }
                }
            }
        }
        v
    }

    fn show(c: &SinkCase) -> serde_json::Value {
        serde_json::json!({"source": c.source, "kind": c.kind, "max_chunk": c.max_chunk})
    }
}

crate::declare_parts!(Sinks);

pub fn run(ctx: &mut Ctx) {
    ctx.level = "fault_enumeration";
    ctx.rule = "programs named .txt, .html, .json or .yaml (no, HTML and JSON auto-escaping, also switched inside autoescape blocks) built from text, integer/float/small-string fast paths, escaping, macros, call blocks, includes, set-blocks, filter blocks, recursive loops, self.block(), inheritance with super(), programs failing on their own (plus tame and free-mode programs); R = payload sequence received by a sink that never fails; then the sink is made to fail at the k-th write call for EVERY k in 0..=len(R) (renders with more than 96 writes: the first 64, the last 16 and 48 evenly spaced positions) with one of BrokenPipe / Other / WouldBlock / a custom error type / Ok(0) / Interrupted-once, plus short writes of 1..8 bytes; render_captured_to and State::render_block_to_write. Oracle: bytes received == first k payloads of R, no write call after the error, Err(WriteFailure) whose source downcasts to the sink's own io::Error (WriteZero for Ok(0)), never Ok and never a panic; Interrupted and short writes change nothing. Non-trivial: at least 4 writes and a nested evaluation (macro/include/block/capture). Distinct by case; each case enumerates all its failure points.".into();
    ctx.assumptions = vec!["the write sequence of a render is deterministic (checked: the good sink is compared with render())".into()];
    preamble(ctx);
    let t = ctx.tier;
    ctx.run_part::<Sinks>(t.pick(20_000, 600_000));
}
