//! C02 — HTML auto-escaping is sound: unsafe data is escaped exactly once.
use minijinja::{Environment, Value};
use proptest::prelude::*;
use serde::{Deserialize, Serialize};

use crate::gen::ast::*;
use crate::gen::free::{self, Opts};
use crate::gen::print;
use crate::gen::value::Val;
use crate::runner::{Ctx, Part, Tier, Verdict};

const TAINTS: [&str; 8] = [
    "<t1>\"'&",
    "'><script>x</script>",
    "a&b",
    "\"q\"",
    "</p>",
    "&lt;",
    "<",
    "x' onload='y",
];

const ENTITIES: [&str; 9] = ["&lt;", "&gt;", "&amp;", "&quot;", "&#x27;", "&#x2f;", "&#39;", "&#34;", "&#47;"];

/// names (filters / test strings) that mark values safe or return markup: outside the fragment
fn forbidden(name: &str) -> bool {
    matches!(name, "safe" | "escape" | "e" | "tojson")
}

fn ident_like(s: &str) -> bool {
    !s.is_empty() && s.chars().all(|c| c.is_ascii_alphanumeric() || c == '_' || c == '.')
}

pub fn tainted_ctx() -> Vec<(String, Val)> {
    let s = |x: &str| Val::Str(x.to_string());
    vec![
        ("n".into(), Val::None),
        ("b".into(), Val::Bool(true)),
        ("i".into(), Val::I64(3)),
        ("big".into(), Val::U64(1 << 63)),
        ("f".into(), Val::f(1.5)),
        ("s".into(), s(TAINTS[0])),
        ("e".into(), s("")),
        ("l".into(), Val::List(vec![Val::I64(1), Val::I64(2), Val::I64(3)])),
        ("ls".into(), Val::List(vec![s(TAINTS[1]), s("plain"), s(TAINTS[2])])),
        (
            "m".into(),
            Val::Map(vec![
                (s("k"), s(TAINTS[3])),
                (s("a"), Val::List(vec![s(TAINTS[4])])),
                (s("id"), s(TAINTS[7])),
                (s("<key>"), Val::I64(1)),
            ]),
        ),
        (
            "ll".into(),
            Val::List(vec![
                Val::List(vec![s(TAINTS[6]), Val::List(vec![s(TAINTS[0])])]),
                Val::List(vec![]),
                Val::Map(vec![(s("k"), Val::List(vec![s(TAINTS[5])]))]),
            ]),
        ),
        ("x".into(), s(TAINTS[2])),
        ("y".into(), s(TAINTS[1])),
        // byte strings: valid UTF-8, and not (those print lossily but are data like any other)
        ("bx".into(), Val::Bytes(b"\xff<u9>\"'&\xfe".to_vec())),
        ("by".into(), Val::Bytes(b"<u8>\"'&".to_vec())),
        ("lb".into(), Val::List(vec![Val::Bytes(b"\xc3<u7>'".to_vec()), Val::Bytes(b"<i>".to_vec())])),
    ]
}

/// Rewrites a free-mode program into the safe-marking-free fragment with tainted literals.
fn into_fragment(body: &mut Vec<Stmt>, salt: usize) {
    let mut k = salt;
    let mut fix_expr = |e: &mut Expr| {
        map_expr(e, &mut |e| match e {
            Expr::Str(s) => {
                if forbidden(s) || s == "html" || s == "none" || s == "json" {
                    *s = "upper".into();
                } else if s.ends_with(".txt") {
                    *s = s.replace(".txt", ".html");
                } else if !ident_like(s) {
                    k += 1;
                    s.push_str(TAINTS[k % TAINTS.len()]);
                }
            }
            Expr::Filter(_, name, _) if forbidden(name) => *name = "string".into(),
            _ => {}
        })
    };
    map_stmt_exprs(body, &mut fix_expr);
    fn fix_stmts(body: &mut Vec<Stmt>) {
        for s in body.iter_mut() {
            match s {
                Stmt::Text(t) | Stmt::Raw(t) | Stmt::Comment(t) => {
                    *t = t.chars().filter(|c| !matches!(c, '<' | '>' | '"' | '\'' | '&' | '{' | '}' | '#' | '%')).collect();
                }
                Stmt::AutoEscape { value, body } => {
                    // only switching escaping on stays inside the fragment
                    *value = Expr::Bool(true);
                    fix_stmts(body);
                }
                Stmt::SetBlock { filter, body, .. } => {
                    if let Some((f, _)) = filter {
                        if forbidden(f) {
                            *f = "string".into();
                        }
                    }
                    fix_stmts(body);
                }
                Stmt::FilterBlock { name, body, .. } => {
                    if forbidden(name) {
                        *name = "string".into();
                    }
                    fix_stmts(body);
                }
                Stmt::If { branches, else_ } => {
                    for (_, b) in branches.iter_mut() {
                        fix_stmts(b);
                    }
                    if let Some(e) = else_ {
                        fix_stmts(e);
                    }
                }
                Stmt::For { body, else_, .. } => {
                    fix_stmts(body);
                    if let Some(e) = else_ {
                        fix_stmts(e);
                    }
                }
                Stmt::With { body, .. } | Stmt::Macro { body, .. } | Stmt::CallBlock { body, .. } | Stmt::Block { body, .. } => fix_stmts(body),
                _ => {}
            }
        }
    }
    fix_stmts(body);
}

#[derive(Clone, Debug, Serialize, Deserialize)]
pub struct EscCase {
    pub main_name: String,
    pub source: String,
    pub companions: Vec<(String, String)>,
}

/// every way of spelling a name the default auto-escape callback treats as HTML/XML: the
/// extensions html/htm/xml, behind a .j2/.jinja/.jinja2 suffix, in a directory (with a dot of its
/// own), and names that consist of the extension only
const MAIN_NAMES: [&str; 14] = [
    "main.html", "main.xml", "main.htm", "main.html.j2", "main.xml.jinja", "main.htm.jinja2", ".html", ".xml", "mail/.html", "d.d/x.xml", "d.txt/.xml.j2",
    "a b.html", "\u{e9}.xml", "main.txt.html",
];

fn main_name() -> BoxedStrategy<String> {
    prop_oneof![
        2 => crate::runner::one_of(&["main.html", "main.xml"]).prop_map(|s| s.to_string()),
        1 => crate::runner::one_of(&MAIN_NAMES).prop_map(|s| s.to_string()),
    ]
    .boxed()
}

fn render(c: &EscCase, html: bool) -> Result<String, String> {
    let mut env = Environment::new();
    env.set_fuel(Some(50_000));
    // the contrib filters / globals and the Python-style string methods are paths of their own
    minijinja_contrib::add_to_environment(&mut env);
    env.set_unknown_method_callback(minijinja_contrib::pycompat::unknown_method_callback);
    let rename = |n: &str| if html { n.to_string() } else { n.replace(".html", ".txt").replace(".xml", ".txt").replace(".htm", ".txt") };
    for (n, s) in &c.companions {
        let s = if html { s.clone() } else { s.replace(".html", ".txt").replace(".xml", ".txt") };
        let _ = env.add_template_owned(rename(n), s);
    }
    let src = if html { c.source.clone() } else { c.source.replace(".html", ".txt").replace(".xml", ".txt") };
    env.add_template_owned(rename(&c.main_name), src).map_err(|e| format!("{e}"))?;
    let ctx = Value::from_pairs(tainted_ctx().into_iter().map(|(k, v)| (k, v.to_value())));
    env.get_template(&rename(&c.main_name)).unwrap().render(ctx).map_err(|e| format!("{e}"))
}

/// soundness oracle: none of the characters the property names appears raw. (`&` is not among
/// them: transforming an already escaped capture, e.g. `cap|upper` or `cap[:3]`, legitimately
/// yields `&LT;` or a cut-off entity.)
fn soundness(out: &str) -> Option<String> {
    if let Some(p) = out.find(|c| matches!(c, '<' | '>' | '"' | '\'')) {
        let lo = out[..p].char_indices().rev().nth(30).map_or(0, |x| x.0);
        let mut hi = (p + 40).min(out.len());
        while !out.is_char_boundary(hi) {
            hi -= 1;
        }
        return Some(format!("raw {:?} in the output near {:?}", out[p..].chars().next().unwrap(), &out[lo..hi]));
    }
    None
}

pub struct Soundness;

/// mostly well-typed html programs in which tainted strings and captured (safe) values flow
/// through every string/list filter and operator, in every argument position
fn flow_source() -> BoxedStrategy<String> {
    fn sv(d: u32) -> BoxedStrategy<String> {
        let base = prop_oneof![
            5 => crate::runner::one_of(&["s", "x", "y", "ls[0]", "ls[2]", "m.k", "m.id", "ll[0][0]", "m.a[0]", "bx", "by", "lb[0]", "lb[1]"]).prop_map(|s| s.to_string()),
            3 => (0..TAINTS.len()).prop_map(|i| print::str_lit(TAINTS[i])),
            3 => crate::runner::one_of(&["cap", "res", "caller()", "arg", "it"]).prop_map(|s| s.to_string()),
            1 => crate::runner::one_of(&["i", "f", "'plain'", "n"]).prop_map(|s| s.to_string()),
        ];
        if d == 0 {
            return base.boxed();
        }
        let inner = sv(d - 1);
        let simple = crate::runner::one_of(&[
            "upper", "lower", "title", "trim", "string", "indent(2)", "indent(1, true)", "first", "last", "reverse", "list|join", "lines|join",
            "split|join", "urlencode", "default('d<')", "d", "pprint", "bool|string", "trim('<')", "capitalize", "length|string", "abs", "int",
            "split('&')|join('&')", "center(20)", "items", "sort|join", "unique|join", "min", "max", "batch(2)|join", "slice(2)|join",
        ]);
        prop_oneof![
            4 => base,
            4 => (inner.clone(), simple).prop_map(|(a, f)| format!("({a})|{f}")),
            3 => (inner.clone(), inner.clone()).prop_map(|(a, b)| format!("({a} ~ {b})")),
            3 => (inner.clone(), inner.clone(), inner.clone()).prop_map(|(a, b, c)| format!("({a})|replace({b}, {c})")),
            3 => (lv(d - 1), inner.clone()).prop_map(|(l, j)| format!("{l}|join({j})")),
            1 => lv(d - 1).prop_map(|l| format!("{l}|join")),
            2 => (inner.clone(), inner.clone(), inner.clone()).prop_map(|(a, b, c)| format!("({a})|format({b}, {c})")),
            2 => (inner.clone(), inner.clone()).prop_map(|(a, b)| format!("('%s<%s')|format({a}, {b})")),
            1 => (inner.clone(), inner.clone()).prop_map(|(a, b)| format!("('{{}}<{{}}')|format({a}, {b})")),
            1 => (inner.clone(), inner.clone()).prop_map(|(a, b)| format!("({a} % {b})")),
            1 => (inner.clone(), 0..4i32).prop_map(|(a, i)| format!("({a})[{i}:]")),
            1 => (inner.clone(), 0..4i32).prop_map(|(a, i)| format!("({a})[:{i}]")),
            1 => inner.clone().prop_map(|a| format!("({a}) * 2")),
            1 => (inner.clone(), inner.clone()).prop_map(|(a, b)| format!("({a} if b else {b})")),
            1 => (inner.clone(), inner.clone()).prop_map(|(a, b)| format!("({a})|default({b}, true)")),
            1 => (inner.clone(), inner.clone()).prop_map(|(a, b)| format!("({a} or {b})")),
            1 => inner.clone().prop_map(|a| format!("show({a})")),
            1 => inner.clone().prop_map(|a| format!("{{'k<': {a}}}")),
            1 => inner.clone().prop_map(|a| format!("{{{a}: 1}}|items|first|first")),
            1 => inner.clone().prop_map(|a| format!("{{'k': {a}}}|dictsort|first|last")),
            1 => inner.clone().prop_map(|a| format!("dict(k={a}).k")),
            1 => inner.clone().prop_map(|a| format!("namespace(k={a}).k")),
            1 => inner.clone().prop_map(|a| format!("({a})|attr('nothere')|default({a})")),
            // contrib filters, with tainted and captured values in every argument position
            1 => (inner.clone(), inner.clone(), 1..12u32).prop_map(|(a, b, w)| format!("({a})|wordwrap(width={w}, wrapstring={b})")),
            1 => (inner.clone(), 1..9u32).prop_map(|(a, w)| format!("({a} ~ ' ' ~ {a})|wordwrap({w}, break_long_words=false)")),
            1 => (inner.clone(), inner.clone(), 1..9u32).prop_map(|(a, b, w)| format!("({a})|truncate(length={w}, end={b})")),
            1 => (inner.clone(), inner.clone(), 1..9u32).prop_map(|(a, b, w)| format!("({a})|truncate({w}, true, {b}, 0)")),
            1 => (inner.clone(), inner.clone()).prop_map(|(a, b)| format!("2|pluralize({a}, {b}) ~ 1|pluralize({a}, {b})")),
            1 => inner.clone().prop_map(|a| format!("({a})|striptags")),
            1 => inner.clone().prop_map(|a| format!("({a})|wordcount|string ~ ({a})|length|filesizeformat")),
            1 => (inner.clone(), inner.clone()).prop_map(|(a, b)| format!("joiner({a})() ~ cycler({a}, {b}).next()")),
            // Python-style string methods (pycompat)
            1 => (inner.clone(), crate::runner::one_of(&["upper()", "lower()", "strip()", "title()", "capitalize()", "lstrip('<')", "rstrip()", "swapcase()" ]))
                .prop_map(|(a, f)| format!("({a}|string).{f}")),
            1 => (inner.clone(), inner.clone(), inner.clone()).prop_map(|(a, b, c)| format!("({a}|string).replace({b}|string, {c}|string)")),
            1 => (lv(d - 1), inner.clone()).prop_map(|(l, j)| format!("({j}|string).join({l}|map('string'))")),
            1 => (inner.clone(), inner.clone()).prop_map(|(a, b)| format!("({a}|string).split({b}|string)|join({b})")),
            1 => (inner.clone(), inner.clone()).prop_map(|(a, b)| format!("('{{}}<{{}}').format({a}, {b})")),
        ]
        .boxed()
    }
    fn lv(d: u32) -> BoxedStrategy<String> {
        let base = crate::runner::one_of(&["ls", "ll[0]", "m.a", "[s, x]", "[cap, s]", "[res, arg]", "m|list", "m|items|list", "m.values()|list", "s|list", "(s, cap)", "lb", "[bx, s]"])
            .prop_map(|s| s.to_string());
        if d == 0 {
            return base.boxed();
        }
        let inner = lv(d - 1);
        prop_oneof![
            3 => base,
            2 => (inner.clone(), crate::runner::one_of(&["list", "sort", "reverse|list", "unique|list", "map('upper')|list", "map('string')|list", "map('replace', 'a', s)|list", "select|list", "reject('none')|list", "batch(2)|first", "slice(1)|first", "map('trim')|map('title')|list", "sort(reverse=true)", "chain(ls)|list", "zip(ls)|list|first|list"]))
                .prop_map(|(a, f)| format!("{a}|{f}")),
            1 => (sv(d - 1), sv(d - 1)).prop_map(|(a, b)| format!("[{a}, {b}]")),
            1 => (sv(d - 1), sv(d - 1)).prop_map(|(a, b)| format!("({a})|split({b})")),
            1 => sv(d - 1).prop_map(|a| format!("({a})|lines")),
            1 => (inner.clone(), inner.clone()).prop_map(|(a, b)| format!("({a} + {b})")),
        ]
        .boxed()
    }
    fn stmt(d: u32) -> BoxedStrategy<String> {
        let simple = prop_oneof![
            5 => sv(3).prop_map(|e| format!("[{{{{ {e} }}}}]")),
            2 => lv(2).prop_map(|e| format!("[{{{{ {e} }}}}]")),
            2 => sv(2).prop_map(|e| format!("{{% set cap %}}({{{{ {e} }}}}){{% endset %}}")),
            2 => sv(2).prop_map(|e| format!("{{% set res = show({e}) %}}")),
            1 => sv(2).prop_map(|e| format!("{{% set cap | upper %}}({{{{ {e} }}}}){{% endset %}}")),
            1 => sv(2).prop_map(|e| format!("{{% set arg = {e} %}}")),
            1 => sv(2).prop_map(|e| format!("{{% call wrap({e}) %}}{{{{ {e} }}}}{{% endcall %}}")),
            1 => (sv(1), sv(1)).prop_map(|(a, b)| format!("{{% call(v) each([{a}, {b}]) %}}{{{{ v }}}}{{{{ v|upper }}}}{{% endcall %}}")),
            1 => crate::runner::one_of(&["a.html", "b.html", "c.html"]).prop_map(|n| format!("{{% include '{n}' %}}")),
            1 => Just("{% from 'c.html' import mm %}{{ mm(s) }}{{ mm(cap) }}".to_string()),
            1 => Just("{{ self.blk() }}".to_string()),
            1 => Just("text ".to_string()),
        ];
        if d == 0 {
            return simple.boxed();
        }
        let body = prop::collection::vec(stmt(d - 1), 1..3).prop_map(|v| v.concat());
        prop_oneof![
            5 => simple,
            1 => (lv(1), body.clone()).prop_map(|(l, b)| format!("{{% for it in {l} %}}{{{{ it }}}}{b}{{% endfor %}}")),
            1 => (crate::runner::one_of(&["upper", "trim", "title", "indent(2)", "replace(s, x)", "replace('a', cap)", "string", "lower", "reverse", "list|join(y)"]), body.clone())
                .prop_map(|(f, b)| format!("{{% filter {f} %}}{b}{{% endfilter %}}")),
            1 => (sv(1), body.clone()).prop_map(|(e, b)| format!("{{% with arg = {e} %}}{b}{{% endwith %}}")),
            1 => body.clone().prop_map(|b| format!("{{% set cap %}}{b}{{% endset %}}[{{{{ cap }}}}]")),
            1 => body.clone().prop_map(|b| format!("{{% autoescape true %}}{b}{{% endautoescape %}}")),
            1 => body.clone().prop_map(|b| format!("{{% if b %}}{b}{{% endif %}}")),
            1 => body.prop_map(|b| format!("{{% macro local(arg) %}}{b}{{% endmacro %}}{{{{ local(s) }}}}{{{{ local(cap) }}}}")),
        ]
        .boxed()
    }
    (prop::collection::vec(stmt(2), 1..5), any::<bool>(), any::<bool>())
        .prop_map(|(v, inherit, sup)| {
            let head = "{% set cap %}[{{ s }}]{% endset %}{% set res = cap %}{% set arg = x %}{% set it = y %}{% macro show(v) %}[{{ v }}]{% endmacro %}{% macro wrap(w) %}({{ w }}{{ caller() }}){% endmacro %}{% macro each(items) %}{% for it in items %}{{ caller(it) }};{% endfor %}{% endmacro %}";
            let mut body = v.concat();
            if inherit {
                // no self-recursion of the block (exponential growth under the recursion limit)
                body = body.replace("{{ self.blk() }}", "");
                format!(
                    "{{% extends 'b.html' %}}{head}{{% block blk %}}{}{body}{{% endblock %}}",
                    if sup { "{{ super() }}" } else { "" }
                )
            } else {
                format!("{head}{{% block blk %}}[{{{{ x }}}}]{{% endblock %}}{body}")
            }
        })
        .boxed()
}

fn flow_companions() -> Vec<(String, String)> {
    vec![
        ("a.html".into(), "{{ s }}{{ cap }}{% set c2 %}{{ y }}{% endset %}{{ c2|upper }}{{ caller() if caller is defined }}".into()),
        ("b.html".into(), "base {% block blk %}{{ s }}{{ m.k }}{% endblock %} {{ x|replace('a', y) }} end".into()),
        ("c.html".into(), "{% macro mm(v) %}[{{ v }}|{{ v|upper }}|{{ [v, s]|join(v) }}]{% endmacro %}{{ s }}".into()),
    ]
}

impl Part for Soundness {
    type Case = EscCase;
    const NAME: &'static str = "escape_soundness";

    fn strategy(tier: Tier) -> BoxedStrategy<EscCase> {
        let o = Opts {
            sdepth: tier.pick(3, 4),
            edepth: 3,
            extreme: false,
            ..Opts::default()
        };
        let co = Opts {
            sdepth: 2,
            edepth: 2,
            extreme: false,
            ..Opts::default()
        };
        let tmpl = |o: Opts| {
            (free::template(o), any::<u8>()).prop_map(|(mut b, salt)| {
                into_fragment(&mut b, salt as usize);
                print::template_default(&b)
            })
        };
        let free_case = (tmpl(o), prop::collection::vec(tmpl(co), 3), main_name()).prop_map(|(source, comps, main_name)| EscCase {
            main_name,
            source,
            companions: ["a.html", "b.html", "c.html"]
                .iter()
                .zip(comps)
                .map(|(n, s)| (n.to_string(), s))
                .collect(),
        });
        let flow_case = (flow_source(), main_name()).prop_map(|(source, main_name)| EscCase {
            main_name,
            source,
            companions: flow_companions(),
        });
        prop_oneof![1 => free_case, 4 => flow_case].boxed()
    }

    fn check(c: &EscCase) -> Verdict {
        match render(c, true) {
            Err(_) => Verdict::pass(false).label("render_error"),
            Ok(out) => {
                let flows = ["|", "endset", "endmacro", "endcall", "include", "endblock", "endfilter"]
                    .iter()
                    .any(|k| c.source.contains(k));
                let escaped_something = ENTITIES.iter().any(|e| out.contains(e));
                let mut v = Verdict::pass(flows && escaped_something);
                if escaped_something {
                    v.labels.push("output_has_entities");
                }
                if let Some(why) = soundness(&out) {
                    v.set_fail("unescaped_output", format!("{why}\nsource: {}\ncompanions: {:?}", c.source, c.companions));
                }
                v
            }
        }
    }

    fn show(c: &EscCase) -> serde_json::Value {
        serde_json::json!({"source": c.source, "main": c.main_name})
    }
}

// ------------------------------------------------------------------ exactly once

pub struct ExactlyOnce;

fn html_unescape(s: &str) -> String {
    // any numeric character reference and the five named ones: which characters the engine
    // chooses to escape beyond the required ones, and how it spells them, is its own business
    let mut out = String::new();
    let mut i = 0;
    'outer: while i < s.len() {
        if s.as_bytes()[i] == b'&' {
            if let Some(end) = s[i..].find(';').filter(|e| *e <= 10) {
                let body = &s[i + 1..i + end];
                let decoded = match body {
                    "lt" => Some('<'),
                    "gt" => Some('>'),
                    "amp" => Some('&'),
                    "quot" => Some('"'),
                    "apos" => Some('\''),
                    _ => {
                        if let Some(hex) = body.strip_prefix("#x").or_else(|| body.strip_prefix("#X")) {
                            u32::from_str_radix(hex, 16).ok().and_then(char::from_u32)
                        } else if let Some(dec) = body.strip_prefix('#') {
                            dec.parse::<u32>().ok().and_then(char::from_u32)
                        } else {
                            None
                        }
                    }
                };
                if let Some(ch) = decoded {
                    out.push(ch);
                    i += end + 1;
                    continue 'outer;
                }
            }
        }
        let c = s[i..].chars().next().unwrap();
        out.push(c);
        i += c.len_utf8();
    }
    out
}

/// programs in which captured (already escaped) values are only printed, passed, returned,
/// stored, looped over and re-captured — never transformed
fn once_source() -> BoxedStrategy<String> {
    let data = || crate::runner::one_of(&["s", "x", "y", "ls[0]", "m.k", "m.id", "ll[0][0]", "'lit<&>'", "i", "ls|join(', ')", "x|upper", "m|items|first|last", "ls|first", "(x ~ y)", "x|replace('a', s)", "'%s|%s'|format(x, y)", "ls|map('upper')|join(s)"]);
    let piece = prop_oneof![
        3 => data().prop_map(|d| format!("[{{{{ {d} }}}}]")),
        2 => data().prop_map(|d| format!("{{% set cap %}}<{{{{ {d} }}}}>{{% endset %}}{{{{ cap }}}}")),
        // filters that leave their input as it is for these arguments
        1 => (data(), crate::runner::one_of(&["indent(0)", "indent(width=0)", "indent(0, true)", "replace('', '')", "replace('zq', 'x')", "trim('')", "center(0)", "truncate(100000)", "default('x')", "string", "safe", "first|default(cap)"]))
            .prop_map(|(d, f)| format!("{{% set cap %}}<{{{{ {d} }}}}>{{% endset %}}[{{{{ cap|{f} }}}}]")),
        2 => data().prop_map(|d| format!("{{% set cap %}}({{{{ {d} }}}}){{% endset %}}{{% set cap2 %}}{{{{ cap }}}}{{{{ cap }}}}{{% endset %}}{{{{ cap2 }}}}")),
        2 => data().prop_map(|d| format!("{{{{ show({d}) }}}}")),
        2 => data().prop_map(|d| format!("{{% set r = show({d}) %}}{{{{ r }}}}{{{{ show(r) }}}}")),
        2 => data().prop_map(|d| format!("{{% call wrap() %}}{{{{ {d} }}}}{{% endcall %}}")),
        2 => data().prop_map(|d| format!("{{% call(v) each([{d}, {d}]) %}}{{{{ v }}}}{{% endcall %}}")),
        1 => data().prop_map(|d| format!("{{% filter trim %}} {{{{ {d} }}}} {{% endfilter %}}")),
        1 => data().prop_map(|d| format!("{{% for q in [show({d}), {d}] %}}{{{{ q }}}}{{% endfor %}}")),
        1 => data().prop_map(|d| format!("{{% with w = show({d}) %}}{{{{ w }}}}{{% include 'inc.html' %}}{{% endwith %}}")),
        1 => data().prop_map(|d| format!("{{% set cap %}}{{% include 'inc.html' %}}{{{{ {d} }}}}{{% endset %}}{{{{ cap }}}}")),
        1 => data().prop_map(|d| format!("{{{{ [show({d})]|join('') }}}}")),
        1 => data().prop_map(|d| format!("{{{{ show({d}) if b else '' }}}}")),
        1 => data().prop_map(|d| format!("{{% if show({d}) %}}{{{{ show({d}) }}}}{{% endif %}}")),
        1 => Just("text ".to_string()),
        1 => Just("{{ self.blk() }}".to_string()),
    ];
    (prop::collection::vec(piece, 1..6), any::<bool>(), any::<bool>())
        .prop_map(|(p, inherit, sup)| {
            let head = "{% macro show(v) %}<{{ v }}>{% endmacro %}{% macro wrap() %}({{ caller() }}){% endmacro %}{% macro each(items) %}{% for it in items %}{{ caller(it) }};{% endfor %}{% endmacro %}";
            let mut body = p.concat();
            if inherit {
                body = body.replace("{{ self.blk() }}", "");
                format!(
                    "{{% extends 'base.html' %}}{head}{{% block blk %}}{}{body}{{% endblock %}}",
                    if sup { "{{ super() }}" } else { "" }
                )
            } else {
                format!("{head}{{% block blk %}}[{{{{ x }}}}]{{% endblock %}}{body}")
            }
        })
        .boxed()
}

impl Part for ExactlyOnce {
    type Case = EscCase;
    const NAME: &'static str = "escaped_exactly_once";

    fn strategy(_tier: Tier) -> BoxedStrategy<EscCase> {
        (once_source(), main_name())
            .prop_map(|(source, main_name)| EscCase {
                main_name,
                source,
                companions: vec![
                    ("inc.html".into(), "{{ y }}{% set c2 %}{{ s }}{% endset %}{{ c2 }}".into()),
                    ("base.html".into(), "base {% block blk %}{{ s }}{{ m.k }}{% endblock %} end".into()),
                ],
            })
            .boxed()
    }

    fn check(c: &EscCase) -> Verdict {
        let html = render(c, true);
        let txt = render(c, false);
        match (html, txt) {
            (Ok(h), Ok(t)) => {
                let mut v = Verdict::pass(ENTITIES.iter().any(|e| h.contains(e)) && (c.source.contains("endset") || c.source.contains("show(") || c.source.contains("endcall")));
                let back = html_unescape(&h);
                if back != t {
                    v.set_fail(
                        "not_escaped_exactly_once",
                        format!("unescaping the .html rendering gives {back:?} but the .txt rendering is {t:?}\nhtml: {h:?}\nsource: {}", c.source),
                    );
                }
                v
            }
            (h, t) => {
                let mut v = Verdict::pass(false);
                if h.is_ok() != t.is_ok() {
                    v.set_fail("html_txt_outcome_differs", format!("html: {h:?}, txt: {t:?}\nsource: {}", c.source));
                }
                v
            }
        }
    }

    fn show(c: &EscCase) -> serde_json::Value {
        serde_json::json!({"source": c.source})
    }
}

crate::declare_parts!(Soundness, ExactlyOnce);

pub fn run(ctx: &mut Ctx) {
    ctx.rule = "soundness: free-mode programs rewritten into the safe-marking-free fragment (filters safe/escape/e/tojson and autoescape false/none removed, also as map/select arguments), every non-identifier string literal and every context string carrying a taint marker made of < > \" ' &, static text without metacharacters, main and companions named *.html / *.xml (include/import/extends/macros/call/set/filter blocks/loops nested freely); oracle: the output contains none of < > \" '. exactly-once: programs in which captured values (set-blocks, macro results, call blocks, caller(), filter blocks, includes inside captures, super()/self.block()) are printed, passed, returned, stored, looped over, joined and re-captured without being transformed; oracle: html_unescape(render as .html) == render of the same sources as .txt. Both escaper implementations (speedups off/on as sub-process). Non-trivial: the output contains an entity and the program has a filter/capture/macro/include/block. Distinct by case.".into();
    ctx.assumptions = vec![
        "mixed-extension includes (.txt from .html) are outside the property's domain".into(),
        "one-directional: over-escaping is only detected in the restricted exactly-once fragment".into(),
    ];
    preamble(ctx);
    let t = ctx.tier;
    ctx.run_part::<Soundness>(t.pick(200_000, 3_000_000));
    ctx.run_part::<ExactlyOnce>(t.pick(80_000, 1_000_000));
    if !ctx.sub {
        ctx.run_variant("MJV_ALT", "alt");
    }
}
